/-
C07: the invariant holds along every history of API calls; consequences.
-/
import OratioModel
import OratioProofs.Lemmas.SatCoreSimp

set_option linter.unusedSimpArgs false
set_option linter.unusedVariables false

namespace Oratio
namespace Sat

/-- the invariant between API calls -/
structure InvB (orig : Cnf) (s : Sat) : Prop where
  inv : ∀ m, InvC orig m (fun _ x => x ∈ s.queue) s
  qroot : s.queue = [] ∨ s.trailLim = []

theorem init_invB : InvB [] Sat.init := by
  refine ⟨fun m => ⟨⟨⟨rfl, rfl, rfl, ?_, ?_, ?_, rfl, ?_, ?_, ?_, ?_, ?_, ?_⟩, ⟨?_, ?_, ?_, ?_, ?_, ?_⟩, ?_, ⟨rfl, ?_, ?_, ?_⟩⟩,
    ⟨?_, ?_, ?_, ?_, ?_⟩, ?_, ?_⟩, Or.inl rfl⟩
  all_goals simp [Sat.init, WfR, DecOK, W2]
  · intro v
    rcases v with _ | v <;> simp
  · intro i
    rcases i with _ | _ | i <;> simp [List.getD_eq_getElem?_getD]
  · intro i
    rcases i with _ | _ | i <;> simp [List.getD_eq_getElem?_getD]

/-! ### mirror of the API of Properties/C07.lean -/

inductive Op where
  | newVar
  | clause (c : List Lit)
  | eq (a b : Lit) | conj (ls : List Lit) | disj (ls : List Lit) | amo (ls : List Lit) | exo (ls : List Lit)
  | propagate
  | assume (p : Lit)
  | pop
  | next
  | check (ls : List Lit)
  | simplifyDb

def Op.lits : Op → List Lit
  | .clause c => c | .eq a b => [a, b] | .conj ls => ls | .disj ls => ls | .amo ls => ls | .exo ls => ls
  | .assume p => [p] | .check ls => ls | _ => []

def preL (s : Sat) (op : Op) : Bool :=
  !s.dead && op.lits.all (fun l => l.var < s.nvars) &&
  match op with
  | .newVar | .propagate => true
  | .clause _ | .eq _ _ | .conj _ | .disj _ | .amo _ | .exo _ | .simplifyDb => s.rootLevel
  | .assume p => s.queue.isEmpty && s.value p == none
  | .pop => !s.rootLevel
  | .next => s.queue.isEmpty
  | .check ls => s.queue.isEmpty && ls.all (fun l => s.value l == none) && (ls.map (·.var)).Nodup

/-- one API call on (state, ghost clause set) -/
def stepL (fuel : Nat) (s : Sat) (orig : Cnf) (op : Op) : Option (Sat × Cnf × Bool) :=
  if !s.preL op then none else
  match op with
  | .newVar => some ((s.newVar).2, orig, true)
  | .clause c => let (b, s') := s.newClause c; some (s', orig ++ [c], b)
  | .eq a b => let s' := (s.newEq a b).2; some (s', orig ++ s'.toEnc.cnf, true)
  | .conj ls => let s' := (s.newConj ls).2; some (s', orig ++ s'.toEnc.cnf, true)
  | .disj ls => let s' := (s.newDisj ls).2; some (s', orig ++ s'.toEnc.cnf, true)
  | .amo ls => let s' := (s.newAtMostOne ls).2; some (s', orig ++ s'.toEnc.cnf, true)
  | .exo ls => let s' := (s.newExctOne ls).2; some (s', orig ++ s'.toEnc.cnf, true)
  | .propagate => (s.propagate fuel).map fun (b, s') => (s', orig, b)
  | .assume p => (s.assume p fuel).map fun (b, s') => (s', orig, b)
  | .pop => some (s.pop, orig, true)
  | .next =>
    (s.next fuel).map fun (b, s') =>
      (s', (if s.rootLevel then orig else orig ++ [s.decisions.map Lit.neg]), b)
  | .check ls => (s.check ls fuel).map fun (b, s') => (s', orig, b)
  | .simplifyDb => (s.simplifyDb fuel).map fun (b, s') => (s', orig, b)

end Sat
end Oratio

namespace Oratio
namespace Sat

/-! ### new_var, remember -/

theorem InvC.newVar {orig K : Cnf} {m : Nat} {s : Sat} (h : InvC orig m (fun _ x => x ∈ s.queue) s K) :
    InvC orig m (fun _ x => x ∈ s.newVar.2.queue) s.newVar.2 K := by
  refine ⟨h.wf.newVar, ⟨h.ent.clauses, ?_, h.ent.log, h.ent.dead, ?_⟩, ?_, fun hd => (h.w2 hd).newVar⟩
  · intro l hl
    have := h.ent.trail l hl
    rw [newVar_lvl]; exact this
  · intro hd α h0 hc hr
    apply h.ent.keeps hd α h0 hc
    intro l hl hl0
    exact hr l hl (by rw [newVar_lvl]; exact hl0)
  · intro a d b hd hb
    have := h.dec a d b hd hb
    exact ⟨this.1, by rw [newVar_lvl]; exact this.2⟩

theorem InvC.remember {orig K : Cnf} {m : Nat} {P : Nat → Lit → Prop} {s : Sat} (h : InvC orig m P s K) (k : Key)
    (l : Lit) (hl : l.var < s.vals.length) : InvC orig m P (s.remember k l) K := by
  have ha := h.wf.a
  refine ⟨⟨⟨ha.lenLevel, ha.lenReason, ha.val0, ha.trailVal, ha.trailNodup, ha.valTrail, ha.decLen, ha.limLe,
    ha.limSorted, ha.levelOK, ha.queueOK, ha.reasonNone, ?_⟩, h.wf.c.of_eq rfl rfl rfl, h.wf.r.of_eq rfl rfl rfl,
    h.wf.w.of_eq rfl rfl rfl⟩, h.ent.of_eq rfl rfl rfl rfl rfl rfl, h.dec, fun hd => (h.w2 hd).of_eq rfl rfl rfl⟩
  intro e he
  rcases List.mem_append.1 he with he | he
  · exact ha.exprsRange e he
  · simp only [List.mem_singleton] at he; subst he; exact hl

/-- the property kept by the primitives at root level -/
def Good (s : Sat) : Prop := ∃ orig, (∀ m, InvC orig m (fun _ x => x ∈ s.queue) s) ∧ s.trailLim = []

theorem good_closed : ConsClosed Good where
  newVar := fun s ⟨orig, h, hr⟩ => ⟨orig, fun m => (h m).newVar, hr⟩
  newClause := fun s c ⟨orig, h, hr⟩ hc =>
    ⟨orig ++ [c], fun m => (newClause_spec (h m) hr c hc).1, (newClause_spec (h 0) hr c hc).2.1⟩
  remember := fun s k l ⟨orig, h, hr⟩ hl => ⟨orig, fun m => (h m).remember k l hl, hr⟩
  cache := fun s ⟨orig, h, _⟩ => (h 0).wf.a.exprsRange
  val0 := fun s ⟨orig, h, _⟩ => (h 0).wf.a.val0

theorem mem_enc_units {s : Enc} {v : Nat} {b : Bool} (h : s.vals.getD v none = some b) :
    [(⟨v, b⟩ : Lit)] ∈ s.units := by
  simp only [Enc.units, List.mem_filterMap, List.mem_range]
  exact ⟨v, getD_some_lt h, by rw [h]⟩

theorem of_mem_enc_units {s : Enc} {c : Clause} (h : c ∈ s.units) :
    ∃ v b, s.vals.getD v none = some b ∧ c = [(⟨v, b⟩ : Lit)] := by
  simp only [Enc.units, List.mem_filterMap, List.mem_range] at h
  obtain ⟨v, _, hv⟩ := h
  cases hb : s.vals.getD v none with
  | none => rw [hb] at hv; cases hv
  | some b => rw [hb] at hv; exact ⟨v, b, hb, by simpa using hv.symm⟩

/-- the ghost clause set after a constructor call -/
theorem ent_of_cons {orig : Cnf} {s s' : Sat} (hwf : s'.Wf) (hroot : s'.trailLim = []) (hE : s.Ent orig)
    (hf : ConsFrame s s') (hd : s.dead = false) : s'.Ent (orig ++ s'.toEnc.cnf) := by
  have hsub : ∀ d ∈ orig, d ∈ orig ++ s'.toEnc.cnf := fun d hd' => List.mem_append_left _ hd'
  refine ⟨?_, ?_, ?_, ?_, ?_⟩
  · intro e he
    apply Ents.of_mem
    apply List.mem_append_right
    simp only [Enc.cnf, toEnc]
    exact List.mem_append_left _ (List.mem_map.2 ⟨e, he, rfl⟩)
  · intro l hl
    apply Ents.of_mem
    apply List.mem_append_left
    apply List.mem_append_right
    simp only [Enc.cnf]
    apply List.mem_append_right
    have := mem_enc_units (s := s'.toEnc) (v := l.var) (b := l.sign) (hwf.a.trailVal l hl).1
    exact this
  · intro c hc
    rw [hf.log] at hc
    exact (hE.log c hc).mono hsub
  · intro hd'; rw [hf.dead, hd] at hd'; cases hd'
  · intro _ α h0 hcl hroots
    rw [Asg.cnf_append]
    have hroot0 : ∀ l ∈ s'.trail, α.lit l = true := fun l hl => hroots l hl (hwf.a.root_lvl hroot hl)
    have h1 : α.cnf orig = true := by
      apply hE.keeps hd α h0
      · simp only [Asg.cnf, List.all_map, List.all_eq_true, Function.comp] at hcl ⊢
        exact fun e he => hcl e (hf.cls e he)
      · intro l hl _
        exact hroot0 l (hf.trail l hl)
    rw [h1]
    simp only [Enc.cnf, toEnc, Bool.true_and, Asg.cnf_append, Bool.and_eq_true]
    refine ⟨hcl, ?_⟩
    simp only [Asg.cnf, List.all_eq_true]
    intro c hc
    obtain ⟨v, b, hv, rfl⟩ := of_mem_enc_units hc
    simp only [Asg.clause, List.any_cons, List.any_nil, Bool.or_false]
    rcases hwf.a.valTrail v b hv with rfl | ht
    · have : b = false := by
        have := hwf.a.val0
        simp only [toEnc] at hv
        rw [this] at hv; simpa using hv.symm
      subst this
      simp [Asg.lit, h0]
    · exact hroot0 _ ht

/-- a constructor call between API calls -/
theorem cons_invB {orig : Cnf} {s s' : Sat} (h : InvB orig s) (hg : Good s') (hf : ConsFrame s s') (hd : s.dead = false) :
    InvB (orig ++ s'.toEnc.cnf) s' := by
  obtain ⟨orig'', h'', hr''⟩ := hg
  refine ⟨fun m => ⟨(h'' m).wf, ent_of_cons (h'' m).wf hr'' (h.inv m).ent hf hd, (h'' m).dec, (h'' m).w2⟩, Or.inr hr''⟩

end Sat
end Oratio

namespace Oratio
namespace Sat

/-! ### one API call -/

/-- the verdict `false` is justified -/
def FalseOK (s : Sat) (orig orig' : Cnf) : Op → Prop
  | .check ls => Uns (orig ++ units s.decisions ++ units ls)
  | .next => s.rootLevel = true ∨ Uns orig'
  | _ => Uns orig'

def isProp : Op → Prop
  | .propagate | .assume _ | .next | .simplifyDb => True
  | _ => False

structure StepRes (s : Sat) (orig : Cnf) (op : Op) (s' : Sat) (orig' : Cnf) (b : Bool) : Prop where
  inv : InvB orig' s'
  falseOK : b = false → FalseOK s orig orig' op
  bcp : b = true → isProp op → s'.queue = [] ∧ s'.dead = false
  nextLog : op = .next → s.rootLevel = false → ∃ rest, s'.log = s.log ++ (s.decisions.map Lit.neg) :: rest

theorem preL_facts {s : Sat} {op : Op} (h : s.preL op = true) :
    s.dead = false ∧ (∀ l ∈ op.lits, l.var < s.vals.length) := by
  simp only [preL, Bool.and_eq_true, Bool.not_eq_true', List.all_eq_true, decide_eq_true_eq] at h
  exact ⟨h.1.1, h.1.2⟩

theorem InvB.of_queue_nil {orig : Cnf} {s : Sat} (h : ∀ m, InvC orig m (fun _ x => x ∈ s.queue) s) (hq : s.queue = []) :
    InvB orig s := ⟨h, Or.inl hq⟩

theorem step_spec {fuel : Nat} {s : Sat} {orig : Cnf} {op : Op} {s' : Sat} {orig' : Cnf} {b : Bool}
    (h : InvB orig s) (he : stepL fuel s orig op = some (s', orig', b)) : StepRes s orig op s' orig' b := by
  unfold stepL at he
  by_cases hpre : s.preL op = true
  · rw [if_neg (by simp [hpre])] at he
    obtain ⟨hd, hr⟩ := preL_facts hpre
    cases op with
    | newVar =>
      simp only [Option.some.injEq, Prod.mk.injEq] at he
      obtain ⟨rfl, rfl, rfl⟩ := he
      exact ⟨⟨fun m => (h.inv m).newVar, h.qroot⟩, (fun e => by cases e), fun _ hp => hp.elim, fun e => by cases e⟩
    | clause c =>
      have hroot : s.trailLim = [] := by
        simp only [preL, Bool.and_eq_true, rootLevel, List.isEmpty_iff] at hpre; exact hpre.2
      simp only [Option.some.injEq, Prod.mk.injEq] at he
      obtain ⟨rfl, rfl, rfl⟩ := he
      have hs := fun m => newClause_spec (h.inv m) hroot c hr
      refine ⟨⟨fun m => (hs m).1, Or.inr (hs 0).2.1⟩, fun e => ?_, fun _ hp => hp.elim, fun e => by cases e⟩
      exact (hs 0).1.ent.dead ((hs 0).2.2.1 e)
    | eq a c =>
      have hroot : s.trailLim = [] := by
        simp only [preL, Bool.and_eq_true, rootLevel, List.isEmpty_iff] at hpre; exact hpre.2
      simp only [Option.some.injEq, Prod.mk.injEq] at he
      obtain ⟨rfl, rfl, rfl⟩ := he
      obtain ⟨g1, g2, _⟩ := newEq_good good_closed s ⟨orig, h.inv, hroot⟩ a c (hr a (by simp [Op.lits]))
        (hr c (by simp [Op.lits]))
      exact ⟨cons_invB h g1 g2 hd, (fun e => by cases e), fun _ hp => hp.elim, fun e => by cases e⟩
    | conj ls =>
      have hroot : s.trailLim = [] := by
        simp only [preL, Bool.and_eq_true, rootLevel, List.isEmpty_iff] at hpre; exact hpre.2
      simp only [Option.some.injEq, Prod.mk.injEq] at he
      obtain ⟨rfl, rfl, rfl⟩ := he
      obtain ⟨g1, g2, _⟩ := newConj_good good_closed s ⟨orig, h.inv, hroot⟩ ls hr
      exact ⟨cons_invB h g1 g2 hd, (fun e => by cases e), fun _ hp => hp.elim, fun e => by cases e⟩
    | disj ls =>
      have hroot : s.trailLim = [] := by
        simp only [preL, Bool.and_eq_true, rootLevel, List.isEmpty_iff] at hpre; exact hpre.2
      simp only [Option.some.injEq, Prod.mk.injEq] at he
      obtain ⟨rfl, rfl, rfl⟩ := he
      obtain ⟨g1, g2, _⟩ := newDisj_good good_closed s ⟨orig, h.inv, hroot⟩ ls hr
      exact ⟨cons_invB h g1 g2 hd, (fun e => by cases e), fun _ hp => hp.elim, fun e => by cases e⟩
    | amo ls =>
      have hroot : s.trailLim = [] := by
        simp only [preL, Bool.and_eq_true, rootLevel, List.isEmpty_iff] at hpre; exact hpre.2
      simp only [Option.some.injEq, Prod.mk.injEq] at he
      obtain ⟨rfl, rfl, rfl⟩ := he
      obtain ⟨g1, g2, _⟩ := newAtMostOne_good good_closed s ⟨orig, h.inv, hroot⟩ ls hr
      exact ⟨cons_invB h g1 g2 hd, (fun e => by cases e), fun _ hp => hp.elim, fun e => by cases e⟩
    | exo ls =>
      have hroot : s.trailLim = [] := by
        simp only [preL, Bool.and_eq_true, rootLevel, List.isEmpty_iff] at hpre; exact hpre.2
      simp only [Option.some.injEq, Prod.mk.injEq] at he
      obtain ⟨rfl, rfl, rfl⟩ := he
      obtain ⟨g1, g2, _⟩ := newExctOne_good good_closed s ⟨orig, h.inv, hroot⟩ ls hr
      exact ⟨cons_invB h g1 g2 hd, (fun e => by cases e), fun _ hp => hp.elim, fun e => by cases e⟩
    | propagate =>
      cases hp : s.propagate fuel with
      | none => rw [hp] at he; simp at he
      | some res =>
        obtain ⟨b1, s1⟩ := res
        rw [hp] at he
        simp only [Option.map_some, Option.some.injEq, Prod.mk.injEq] at he
        obtain ⟨rfl, rfl, rfl⟩ := he
        have hs := fun m => propagate_spec fuel s (h.inv m) hd b1 s1 hp
        refine ⟨InvB.of_queue_nil (fun m => (hs m).1) (hs 0).2.1, fun e => ?_, fun e _ => ?_, fun e => by cases e⟩
        · subst e; exact (hs 0).1.ent.dead (by simpa using (hs 0).2.2.1)
        · subst e; exact ⟨(hs 0).2.1, by simpa using (hs 0).2.2.1⟩
    | assume p =>
      have hq : s.queue = [] := by
        simp only [preL, Bool.and_eq_true, List.isEmpty_iff] at hpre; exact hpre.2.1
      have hv : s.value p = none := by
        simp only [preL, Bool.and_eq_true, beq_iff_eq] at hpre; exact hpre.2.2
      dsimp only at he
      cases hp : s.assume p fuel with
      | none => rw [hp] at he; simp at he
      | some res =>
        obtain ⟨b1, s1⟩ := res
        rw [hp] at he
        simp only [Option.map_some, Option.some.injEq, Prod.mk.injEq] at he
        obtain ⟨rfl, rfl, rfl⟩ := he
        have hs := fun m => assume_spec (h.inv m) hq hd p (hr p (by simp [Op.lits])) (Or.inl hv) fuel b1 s1 hp
        refine ⟨InvB.of_queue_nil (fun m => (hs m).1) (hs 0).2.1, fun e => ?_, fun e _ => ?_, fun e => by cases e⟩
        · subst e; exact (hs 0).1.ent.dead (by simpa using (hs 0).2.2.1 hv)
        · subst e; exact ⟨(hs 0).2.1, by simpa using (hs 0).2.2.1 hv⟩
    | pop =>
      have hnr : s.trailLim ≠ [] := by
        simp only [preL, Bool.and_eq_true, Bool.not_eq_true', rootLevel] at hpre
        intro e; rw [e] at hpre; simp at hpre
      have hq : s.queue = [] := h.qroot.resolve_right hnr
      simp only [Option.some.injEq, Prod.mk.injEq] at he
      obtain ⟨rfl, rfl, rfl⟩ := he
      refine ⟨InvB.of_queue_nil (fun m => ((h.inv m).pop hq (fun _ x hx => by rw [hq] at hx; cases hx) hnr).mono_pend
        (fun _ _ hf => hf.elim)) (by rw [(pop_frame s).2.2.2.1]; exact hq), (fun e => by cases e),
        fun _ hp => hp.elim, fun e => by cases e⟩
    | next =>
      have hq : s.queue = [] := by
        simp only [preL, Bool.and_eq_true, List.isEmpty_iff] at hpre; exact hpre.2
      cases hp : s.next fuel with
      | none => rw [hp] at he; simp at he
      | some res =>
        obtain ⟨b1, s1⟩ := res
        rw [hp] at he
        simp only [Option.map_some, Option.some.injEq, Prod.mk.injEq] at he
        obtain ⟨rfl, rfl, rfl⟩ := he
        by_cases hroot : s.rootLevel = true
        · rw [if_pos hroot]
          have : s.next fuel = some (false, s) := by simp [Sat.next, hroot]
          rw [this] at hp
          simp only [Option.some.injEq, Prod.mk.injEq] at hp
          obtain ⟨rfl, rfl⟩ := hp
          exact ⟨h, fun _ => Or.inl hroot, (fun e => by cases e), fun _ e => by rw [hroot] at e; cases e⟩
        · have hroot : s.rootLevel = false := by simpa using hroot
          rw [if_neg (by simp [hroot])]
          obtain ⟨n1, n2, n3, n4, n5, n6⟩ := next_spec h.inv hq hd hroot fuel b1 s1 hp
          refine ⟨InvB.of_queue_nil n1 n2, fun e => Or.inr ?_, fun e _ => ?_, fun _ _ => n4⟩
          · subst e; exact (n1 0).ent.dead (by simpa using n3)
          · subst e; exact ⟨n2, by simpa using n3⟩
    | check ls =>
      have hq : s.queue = [] := by
        simp only [preL, Bool.and_eq_true, List.isEmpty_iff] at hpre; exact hpre.2.1.1
      dsimp only at he
      cases hp : s.check ls fuel with
      | none => rw [hp] at he; simp at he
      | some res =>
        obtain ⟨b1, s1⟩ := res
        rw [hp] at he
        simp only [Option.map_some, Option.some.injEq, Prod.mk.injEq] at he
        obtain ⟨rfl, rfl, rfl⟩ := he
        obtain ⟨c1, c2, c3, c4, c5, c6, c7⟩ := check_spec h.inv hq hd ls hr fuel b1 s1 hp
        exact ⟨InvB.of_queue_nil c1 c2, fun e => c3 e, fun _ hp => hp.elim, fun e => by cases e⟩
    | simplifyDb =>
      have hroot : s.trailLim = [] := by
        simp only [preL, Bool.and_eq_true, rootLevel, List.isEmpty_iff] at hpre; exact hpre.2
      cases hp : s.simplifyDb fuel with
      | none => rw [hp] at he; simp at he
      | some res =>
        obtain ⟨b1, s1⟩ := res
        rw [hp] at he
        simp only [Option.map_some, Option.some.injEq, Prod.mk.injEq] at he
        obtain ⟨rfl, rfl, rfl⟩ := he
        have hs := fun m => simplifyDb_spec (h.inv m) hroot hd fuel b1 s1 hp
        refine ⟨InvB.of_queue_nil (fun m => (hs m).1) (hs 0).2.1, fun e => ?_, fun e _ => ?_, fun e => by cases e⟩
        · subst e; exact (hs 0).1.ent.dead (by simpa using (hs 0).2.2.2.1)
        · subst e; exact ⟨(hs 0).2.1, by simpa using (hs 0).2.2.2.1⟩
  · rw [if_pos (by simpa using hpre)] at he
    cases he

end Sat
end Oratio

namespace Oratio
namespace Sat

/-! ### histories, generically over the concrete `Run`/`SatOp` types of the statement file -/

theorem reach_generic {ρ ο : Type} (fuel : Nat) (st : ρ → Sat) (og : ρ → Cnf) (dec : ο → Op)
    (step : ρ → ο → Option (ρ × Bool)) (steps : ρ → List ο → Option ρ)
    (hstep : ∀ r op r' b, step r op = some (r', b) → stepL fuel (st r) (og r) (dec op) = some (st r', og r', b))
    (h0 : ∀ r, steps r [] = some r)
    (h1n : ∀ r op ops, step r op = none → steps r (op :: ops) = none)
    (h1s : ∀ r op ops r' b, step r op = some (r', b) → steps r (op :: ops) = steps r' ops) :
    ∀ ops r r', InvB (og r) (st r) → steps r ops = some r' → InvB (og r') (st r')
  | [], r, r', h, he => by
    rw [h0] at he
    simp only [Option.some.injEq] at he; subst he; exact h
  | op :: ops, r, r', h, he => by
    cases hs : step r op with
    | none => rw [h1n r op ops hs] at he; cases he
    | some res =>
      obtain ⟨r1, b⟩ := res
      rw [h1s r op ops r1 b hs] at he
      exact reach_generic fuel st og dec step steps hstep h0 h1n h1s ops r1 r'
        (step_spec h (hstep r op r1 b hs)).inv he

end Sat
end Oratio

namespace Oratio

/-! ### bridge to the statement file (its types `SatOp`, `Run` are defined after this file) -/

set_option hygiene false in
/-- decoder from the operations of the statement file to the mirror `Sat.Op` -/
macro "c07_dec" : term =>
  `(fun (op : SatOp) => match op with
    | SatOp.newVar => Sat.Op.newVar | SatOp.clause c => Sat.Op.clause c | SatOp.eq a b => Sat.Op.eq a b
    | SatOp.conj l => Sat.Op.conj l | SatOp.disj l => Sat.Op.disj l | SatOp.amo l => Sat.Op.amo l
    | SatOp.exo l => Sat.Op.exo l | SatOp.propagate => Sat.Op.propagate | SatOp.assume p => Sat.Op.assume p
    | SatOp.pop => Sat.Op.pop | SatOp.next => Sat.Op.next | SatOp.check l => Sat.Op.check l
    | SatOp.simplifyDb => Sat.Op.simplifyDb)

set_option hygiene false in
/-- `Run.step` is `Sat.stepL` -/
macro "c07_bridge" : tactic =>
  `(tactic| (
    intro r op r' b h
    have hpre : r.s.pre op = r.s.preL (c07_dec op) := by cases op <;> rfl
    unfold Run.step at h
    unfold Sat.stepL
    rw [← hpre]
    by_cases hc : (!r.s.pre op) = true
    · rw [if_pos hc] at h; cases h
    · rw [if_neg hc] at h; rw [if_neg hc]
      cases op <;> simp only at h ⊢
      all_goals first
        | (simp only [Option.some.injEq, Prod.mk.injEq] at h; obtain ⟨rfl, rfl⟩ := h; rfl)
        | (simp only [Option.map_eq_some_iff] at h ⊢; obtain ⟨x, hx, he⟩ := h; refine ⟨x, hx, ?_⟩;
           simp only [Prod.mk.injEq] at he; obtain ⟨rfl, rfl⟩ := he; rfl)))

end Oratio

namespace Oratio
namespace Sat

/-! ### consequences of the invariant -/

theorem InvB.trail_all {orig : Cnf} {s : Sat} (h : InvB orig s) :
    ∀ l ∈ s.trail, Ents (orig ++ units s.decisions) [l] := by
  intro l hl
  exact ((h.inv 0).ent.trail l hl).mono (units_mono (List.drop_suffix _ _))

theorem InvB.values {orig : Cnf} {s : Sat} (h : InvB orig s) :
    ∀ v b, s.vals.getD v none = some b → (v = 0 ∧ b = false) ∨ (⟨v, b⟩ : Lit) ∈ s.trail := by
  intro v b hv
  rcases (h.inv 0).wf.a.valTrail v b hv with rfl | ht
  · left
    rw [(h.inv 0).wf.a.val0] at hv
    exact ⟨rfl, by simpa using hv.symm⟩
  · exact Or.inr ht

theorem eraseDups_of_nodup : ∀ (l : List Lit), l.Nodup → l.eraseDups = l
  | [], _ => rfl
  | a :: as, h => by
    rw [List.nodup_cons] at h
    rw [List.eraseDups_cons]
    have : as.filter (fun b => !b == a) = as := by
      rw [List.filter_eq_self]
      intro b hb
      have : b ≠ a := fun e => h.1 (e ▸ hb)
      simpa using this
    rw [this, eraseDups_of_nodup as h.2]

/-- unit propagation reached its fixpoint -/
theorem InvB.bcp {orig : Cnf} {s : Sat} (h : InvB orig s) (hq : s.queue = []) (hd : s.dead = false) :
    ∀ e ∈ s.cls, (∃ l ∈ e.2, s.value l = some true) ∨
      2 ≤ (e.2.filter (fun l => s.value l = none)).eraseDups.length := by
  intro e he
  by_cases hex : ∃ l ∈ e.2, s.value l = some true
  · exact Or.inl hex
  · right
    have hno : ∀ l ∈ e.2, s.value l ≠ some true := fun l hl hv => hex ⟨l, hl, hv⟩
    have hc := (h.inv 0).wf.c
    obtain ⟨id, c⟩ := e
    have hlen := hc.clsLen _ he
    match c, he, hlen, hno with
    | l0 :: l1 :: r, he, _, hno =>
      have hw := (h.inv 0).w2 hd id l0 l1 r he
      have h0 : s.value l0 = none := by
        cases hv : s.value l0 with
        | none => rfl
        | some b =>
          cases b with
          | true => exact absurd hv (hno l0 (by simp))
          | false =>
            rcases hw.1 hv with hp | ⟨h1, _⟩
            · rw [hq] at hp; cases hp
            · exact absurd h1 (hno l1 (by simp))
      have h1 : s.value l1 = none := by
        cases hv : s.value l1 with
        | none => rfl
        | some b =>
          cases b with
          | true => exact absurd hv (hno l1 (by simp))
          | false =>
            rcases hw.2 hv with hp | ⟨h1, _⟩
            · rw [hq] at hp; cases hp
            · exact absurd h1 (hno l0 (by simp))
      have hnd : (l0 :: l1 :: r).Nodup := by
        have := hc.clsNodup _ he
        exact (List.pairwise_map.1 this).imp (fun hne e => hne (congrArg Lit.var e))
      have hfn : ((l0 :: l1 :: r).filter (fun l => s.value l = none)).Nodup := hnd.sublist List.filter_sublist
      show 2 ≤ (((l0 :: l1 :: r).filter (fun l => s.value l = none)).eraseDups).length
      rw [eraseDups_of_nodup _ hfn]
      simp [List.filter_cons, h0, h1]

/-- a total assignment after a successful propagation satisfies everything ever added -/
theorem InvB.total {orig : Cnf} {s : Sat} (h : InvB orig s) (hq : s.queue = []) (hd : s.dead = false)
    (htot : ∀ v, v < s.nvars → s.vals.getD v none ≠ none) :
    Asg.cnf (fun v => (s.vals.getD v none).getD false) orig = true := by
  have ha := (h.inv 0).wf.a
  have hlit : ∀ l : Lit, s.value l = some true → Asg.lit (fun v => (s.vals.getD v none).getD false) l = true := by
    intro l hv
    rw [value_eq_true] at hv
    simp only [Asg.lit, hv, Option.getD_some]
    cases l.sign <;> simp
  apply (h.inv 0).ent.keeps hd _ (by show ((s.vals.getD 0 none).getD false) = false; rw [ha.val0]; rfl)
  · simp only [Asg.cnf, List.all_map, List.all_eq_true, Function.comp]
    intro e he
    rcases h.bcp hq hd e he with ⟨l, hl, hv⟩ | h2
    · simp only [Asg.clause, List.any_eq_true]
      exact ⟨l, hl, hlit l hv⟩
    · exfalso
      have : e.2.filter (fun l => s.value l = none) = [] := by
        rw [List.filter_eq_nil_iff]
        intro l hl
        have hlt := (h.inv 0).wf.c.clsRange e he l hl
        have := htot l.var hlt
        simp only [decide_eq_true_eq]
        rw [value_eq_none]; exact this
      rw [this] at h2; simp at h2
  · intro l hl _
    exact hlit l ((ha.value_true).2 (Or.inl hl))

/-- `next()` logs the blocking clause first, and everything it logs is entailed -/
theorem InvB.next_blocks {orig : Cnf} {s : Sat} (h : InvB orig s) (hpre : s.preL .next = true)
    (hr : s.rootLevel = false) {fuel : Nat} {b : Bool} {s' : Sat} (hn : s.next fuel = some (b, s')) :
    ∃ rest, s'.log = s.log ++ (s.decisions.map Lit.neg) :: rest ∧
      ∀ c ∈ rest, Ents (orig ++ [s.decisions.map Lit.neg]) c := by
  obtain ⟨hd, _⟩ := preL_facts hpre
  have hq : s.queue = [] := by
    simp only [preL, Bool.and_eq_true, List.isEmpty_iff] at hpre; exact hpre.2
  obtain ⟨n1, n2, n3, ⟨rest, n4⟩, n5, n6⟩ := next_spec h.inv hq hd hr fuel b s' hn
  refine ⟨rest, n4, fun c hc => (n1 0).ent.log c ?_⟩
  rw [n4]; simp [hc]

end Sat
end Oratio
