/-
Helper lemmas about the model `R` of `smt::rational` (property C15).
-/
import OratioModel
import Mathlib.Data.Int.GCD
import Mathlib.Data.Rat.Defs
import Mathlib.Algebra.Order.Field.Rat
import Mathlib.Algebra.Order.Field.Basic
import Mathlib.Tactic.Ring
import Mathlib.Tactic.Linarith
import Mathlib.Tactic.FieldSimp

namespace Oratio
namespace R

/-- canonical and finite -/
def FinWF (r : R) : Prop := r.WF ∧ r.den ≠ 0

theorem finWF_zero : FinWF zero := ⟨by decide, by decide⟩
theorem toRat_zero : zero.toRat = 0 := by decide

/-! ### basic facts on canonical values -/

theorem wf_inf {r : R} (h : r.WF) (hd : r.den = 0) : r = pinf ∨ r = ninf := by
  obtain ⟨n, d⟩ := r
  simp only at hd; subst hd
  have h2 : Int.gcd n 0 = 1 := h.2
  rw [Int.gcd_zero_right] at h2
  have : n = 1 ∨ n = -1 := by omega
  rcases this with rfl | rfl
  · left; rfl
  · right; rfl

theorem wf_num_zero {r : R} (h : r.WF) (hn : r.num = 0) : r = zero := by
  obtain ⟨n, d⟩ := r
  simp only at hn; subst hn
  have h1 : 0 ≤ d := h.1
  have h2 : Int.gcd 0 d = 1 := h.2
  rw [Int.gcd_zero_left] at h2
  have : d = 1 := by omega
  subst this; rfl

theorem FinWF.den_pos {r : R} (h : FinWF r) : 0 < r.den :=
  lt_of_le_of_ne h.1.1 (Ne.symm h.2)

theorem toRat_eq {r : R} (h : 0 ≤ r.den) : r.toRat = (r.num : ℚ) / (r.den : ℚ) := by
  unfold toRat
  rw [Rat.mkRat_eq_div]
  congr 1
  exact_mod_cast Int.toNat_of_nonneg h

theorem FinWF.toE {r : R} (h : FinWF r) : r.toE = ERat.fin r.toRat := by
  unfold R.toE; rw [if_neg h.2]

theorem FinWF.toRat_num_den {r : R} (h : FinWF r) :
    r.toRat.num = r.num ∧ (r.toRat.den : Int) = r.den := by
  have hpos := h.den_pos
  have nz : r.den.toNat ≠ 0 := by omega
  have c : r.num.natAbs.Coprime r.den.toNat := by
    have h2 : Int.gcd r.num r.den = 1 := h.1.2
    have : r.den.toNat = r.den.natAbs := by omega
    rw [this]; exact h2
  have e : r.toRat = ⟨r.num, r.den.toNat, nz, c⟩ := (Rat.mk_eq_mkRat _ _ nz c).symm
  rw [e]; simp only; constructor
  · trivial
  · omega

theorem FinWF.ext {a b : R} (ha : FinWF a) (hb : FinWF b) (h : a.toRat = b.toRat) : a = b := by
  obtain ⟨a1, a2⟩ := ha.toRat_num_den
  obtain ⟨b1, b2⟩ := hb.toRat_num_den
  rw [h] at a1 a2
  obtain ⟨n, d⟩ := a
  obtain ⟨n', d'⟩ := b
  simp only at a1 a2 b1 b2
  have e1 : n = n' := a1.symm.trans b1
  have e2 : d = d' := a2.symm.trans b2
  rw [e1, e2]

theorem toE_pinf : pinf.toE = ERat.pinf := by decide
theorem toE_ninf : ninf.toE = ERat.ninf := by decide

theorem WF_unique {a b : R} (ha : a.WF) (hb : b.WF) (h : a.toE = b.toE) : a = b := by
  by_cases hda : a.den = 0 <;> by_cases hdb : b.den = 0
  · rcases wf_inf ha hda with rfl | rfl <;> rcases wf_inf hb hdb with rfl | rfl <;>
      first | rfl | (exfalso; revert h; decide)
  · rcases wf_inf ha hda with rfl | rfl <;>
      (rw [FinWF.toE ⟨hb, hdb⟩] at h; revert h; simp [toE_pinf, toE_ninf])
  · rcases wf_inf hb hdb with rfl | rfl <;>
      (rw [FinWF.toE ⟨ha, hda⟩] at h; revert h; simp [toE_pinf, toE_ninf])
  · rw [FinWF.toE ⟨ha, hda⟩, FinWF.toE ⟨hb, hdb⟩] at h
    exact FinWF.ext ⟨ha, hda⟩ ⟨hb, hdb⟩ (ERat.fin.inj h)

/-! ### `normalize` -/

theorem normalize_spec (n d : Int) (h : ¬ (n = 0 ∧ d = 0)) :
    ∃ k : Int, k ≠ 0 ∧ (0 ≤ d → 0 < k) ∧ n = k * (normalize ⟨n, d⟩).num ∧
      d = k * (normalize ⟨n, d⟩).den ∧ (normalize ⟨n, d⟩).WF := by
  by_cases hd1 : d = 1
  · subst hd1
    refine ⟨1, by decide, fun _ => by decide, ?_, ?_, ?_⟩ <;> simp [normalize, WF]
  · have hg : 0 < Int.gcd n d := by
      rcases Nat.eq_zero_or_pos (Int.gcd n d) with h0 | h0
      · exact absurd (Int.gcd_eq_zero_iff.mp h0) h
      · exact h0
    obtain ⟨n', d', hc, hn, hd⟩ := Int.exists_gcd_one hg
    have hgz : (0 : Int) < gcdI n d := by unfold gcdI; exact_mod_cast hg
    have hgI : ((Int.gcd n d : Nat) : Int) = gcdI n d := rfl
    rw [hgI] at hn hd
    generalize hgg : gcdI n d = g at hn hd hgz
    have hgne : g ≠ 0 := ne_of_gt hgz
    by_cases hneg : d < 0
    · have hd'neg : d' < 0 := by
        by_contra hcon
        have : 0 ≤ d' * g := Int.mul_nonneg (by omega) (le_of_lt hgz)
        omega
      have e1 : n.tdiv (-g) = -n' := by
        rw [hn, Int.tdiv_neg, Int.mul_tdiv_cancel _ hgne]
      have e2 : d.tdiv (-g) = -d' := by
        rw [hd, Int.tdiv_neg, Int.mul_tdiv_cancel _ hgne]
      have hnorm : normalize ⟨n, d⟩ = ⟨-n', -d'⟩ := by
        simp only [normalize, hgg, if_pos hneg, e1, e2, ne_eq, hd1, not_false_eq_true, if_true]
        rw [if_neg (by omega)]
      rw [hnorm]
      refine ⟨-g, by omega, fun h0 => absurd h0 (by omega), ?_, ?_, ?_, ?_⟩
      · simp only; rw [hn]; ring
      · simp only; rw [hd]; ring
      · simp only; omega
      · simp only; rw [Int.neg_gcd, Int.gcd_neg]; exact hc
    · have hd'nn : 0 ≤ d' := by
        by_contra hcon
        have : d' * g < 0 := Int.mul_neg_of_neg_of_pos (by omega) hgz
        omega
      have e1 : n.tdiv g = n' := by
        rw [hn, Int.mul_tdiv_cancel _ hgne]
      have e2 : d.tdiv g = d' := by
        rw [hd, Int.mul_tdiv_cancel _ hgne]
      have hnorm : normalize ⟨n, d⟩ = ⟨n', d'⟩ := by
        simp only [normalize, hgg, if_neg hneg, e1, e2, ne_eq, hd1, not_false_eq_true, if_true]
        rw [if_neg (by omega)]
      rw [hnorm]
      refine ⟨g, hgne, fun _ => hgz, ?_, ?_, ?_, ?_⟩
      · simp only; rw [hn]; ring
      · simp only; rw [hd]; ring
      · simp only; omega
      · exact hc

theorem normalize_fin (n d : Int) (hd : d ≠ 0) :
    FinWF (normalize ⟨n, d⟩) ∧ (normalize ⟨n, d⟩).toRat = (n : ℚ) / (d : ℚ) := by
  obtain ⟨k, hk, _, hn, hdd, hwf⟩ := normalize_spec n d (fun h => hd h.2)
  have hden : (normalize ⟨n, d⟩).den ≠ 0 := by
    intro h0; rw [h0] at hdd; simp at hdd; exact hd hdd
  refine ⟨⟨hwf, hden⟩, ?_⟩
  rw [toRat_eq hwf.1]
  generalize (normalize ⟨n, d⟩).num = n' at *
  generalize (normalize ⟨n, d⟩).den = d' at *
  have hk' : (k : ℚ) ≠ 0 := by exact_mod_cast hk
  have hd' : (d' : ℚ) ≠ 0 := by exact_mod_cast hden
  rw [hn, hdd]; push_cast
  field_simp

theorem mk2_fin (n d : Int) (hd : d ≠ 0) :
    FinWF (mk2 n d) ∧ (mk2 n d).toRat = (n : ℚ) / (d : ℚ) := normalize_fin n d hd

theorem mk2_spec (n d : Int) (h : ¬ (n = 0 ∧ d = 0)) :
    (mk2 n d).WF ∧
    (mk2 n d).toE = (if d = 0 then (if n > 0 then ERat.pinf else ERat.ninf)
      else ERat.fin ((n : Rat) / (d : Rat))) := by
  by_cases hd : d = 0
  · obtain ⟨k, hk, hkpos, hn, hdd, hwf⟩ := normalize_spec n d h
    refine ⟨hwf, ?_⟩
    rw [if_pos hd]
    have hden : (normalize ⟨n, d⟩).den = 0 := by
      have hz : k * (normalize ⟨n, d⟩).den = 0 := by rw [← hdd]; exact hd
      rcases Int.mul_eq_zero.mp hz with h1 | h1
      · exact absurd h1 hk
      · exact h1
    have hkp : 0 < k := hkpos (by omega)
    unfold mk2
    rcases wf_inf hwf hden with e | e
    · rw [e] at hn ⊢
      have : n > 0 := by simp [pinf] at hn; omega
      rw [if_pos this]; rfl
    · rw [e] at hn ⊢
      have : ¬ n > 0 := by simp [ninf] at hn; omega
      rw [if_neg this]; rfl
  · obtain ⟨h1, h2⟩ := mk2_fin n d hd
    refine ⟨h1.1, ?_⟩
    rw [if_neg hd, h1.toE, h2]

/-! ### comparisons -/

theorem lt_eq_not_le (a b : R) : R.lt a b = !(R.le b a) := by
  unfold R.lt R.le
  by_cases h : a.den = b.den
  · have h' : b.den = a.den := h.symm
    simp only [beq_iff_eq, h, if_true]
    rw [Bool.eq_iff_iff]; simp
  · have h' : ¬ b.den = a.den := fun e => h e.symm
    simp only [beq_iff_eq, h, h', if_false]
    rw [Bool.eq_iff_iff]; simp [Int.mul_comm]

theorem ERat.le_pinf_fin (q : ℚ) : ERat.le .pinf (.fin q) = false := rfl
theorem ERat.le_ninf_fin (q : ℚ) : ERat.le .ninf (.fin q) = true := rfl
theorem ERat.le_fin_pinf (q : ℚ) : ERat.le (.fin q) .pinf = true := rfl
theorem ERat.le_fin_ninf (q : ℚ) : ERat.le (.fin q) .ninf = false := rfl
theorem ERat.le_fin_fin (p q : ℚ) : ERat.le (.fin p) (.fin q) = decide (p ≤ q) := rfl

theorem ge_eq_le (a b : R) : R.ge a b = R.le b a := by
  unfold R.ge R.le
  by_cases h : a.den = b.den
  · have h' : b.den = a.den := h.symm
    simp only [beq_iff_eq, h, if_true]
  · have h' : ¬ b.den = a.den := fun e => h e.symm
    simp only [beq_iff_eq, h, h', if_false]
    rw [Bool.eq_iff_iff]; simp [Int.mul_comm]

theorem gt_eq_lt (a b : R) : R.gt a b = R.lt b a := by
  unfold R.gt R.lt
  by_cases h : a.den = b.den
  · have h' : b.den = a.den := h.symm
    simp only [beq_iff_eq, h, if_true]
  · have h' : ¬ b.den = a.den := fun e => h e.symm
    simp only [beq_iff_eq, h, h', if_false]
    rw [Bool.eq_iff_iff]; simp [Int.mul_comm]

theorem le_fin {a b : R} (ha : FinWF a) (hb : FinWF b) :
    R.le a b = decide (a.toRat ≤ b.toRat) := by
  have pa := ha.den_pos
  have pb := hb.den_pos
  have pa' : (0 : ℚ) < a.den := by exact_mod_cast pa
  have pb' : (0 : ℚ) < b.den := by exact_mod_cast pb
  rw [toRat_eq ha.1.1, toRat_eq hb.1.1, Bool.eq_iff_iff, decide_eq_true_iff,
    div_le_div_iff₀ pa' pb']
  have key : ((a.num : ℚ) * b.den ≤ b.num * a.den) ↔ a.num * b.den ≤ a.den * b.num := by
    rw [Int.mul_comm a.den b.num]; exact_mod_cast Iff.rfl
  rw [key]
  unfold R.le
  by_cases h : a.den = b.den
  · simp only [beq_iff_eq, h, if_true, decide_eq_true_iff]
    rw [Int.mul_comm b.den b.num]
    exact (Int.mul_le_mul_right pb).symm
  · simp only [beq_iff_eq, h, if_false, decide_eq_true_iff]

theorem le_spec {a b : R} (ha : a.WF) (hb : b.WF) : R.le a b = ERat.le a.toE b.toE := by
  by_cases hda : a.den = 0 <;> by_cases hdb : b.den = 0
  · rcases wf_inf ha hda with rfl | rfl <;> rcases wf_inf hb hdb with rfl | rfl <;> decide
  · have pb := FinWF.den_pos ⟨hb, hdb⟩
    rcases wf_inf ha hda with rfl | rfl
    · rw [FinWF.toE ⟨hb, hdb⟩, toE_pinf, ERat.le_pinf_fin]
      simp [R.le, pinf, Ne.symm hdb]; exact pb
    · rw [FinWF.toE ⟨hb, hdb⟩, toE_ninf, ERat.le_ninf_fin]
      simp [R.le, ninf, Ne.symm hdb]; exact le_of_lt pb
  · have pa := FinWF.den_pos ⟨ha, hda⟩
    rcases wf_inf hb hdb with rfl | rfl
    · rw [FinWF.toE ⟨ha, hda⟩, toE_pinf, ERat.le_fin_pinf]
      simp [R.le, pinf, hda]; exact le_of_lt pa
    · rw [FinWF.toE ⟨ha, hda⟩, toE_ninf, ERat.le_fin_ninf]
      simp [R.le, ninf, hda]; exact pa
  · rw [FinWF.toE ⟨ha, hda⟩, FinWF.toE ⟨hb, hdb⟩, le_fin ⟨ha, hda⟩ ⟨hb, hdb⟩]
    rfl

theorem lt_spec {a b : R} (ha : a.WF) (hb : b.WF) : R.lt a b = ERat.lt a.toE b.toE := by
  rw [lt_eq_not_le, le_spec hb ha]; rfl

theorem ge_spec {a b : R} (ha : a.WF) (hb : b.WF) : R.ge a b = ERat.le b.toE a.toE := by
  rw [ge_eq_le, le_spec hb ha]

theorem gt_spec {a b : R} (ha : a.WF) (hb : b.WF) : R.gt a b = ERat.lt b.toE a.toE := by
  rw [gt_eq_lt, lt_spec hb ha]

theorem eq_eq_decide (a b : R) : R.eq a b = decide (a = b) := by
  obtain ⟨n, d⟩ := a; obtain ⟨n', d'⟩ := b
  rw [Bool.eq_iff_iff]; simp [R.eq]

theorem ne_eq_not_eq (a b : R) : R.ne a b = !(R.eq a b) := by
  rw [Bool.eq_iff_iff]; simp [R.ne, R.eq]

theorem eq_spec {a b : R} (ha : a.WF) (hb : b.WF) : R.eq a b = decide (a.toE = b.toE) := by
  rw [eq_eq_decide, Bool.eq_iff_iff, decide_eq_true_iff, decide_eq_true_iff]
  exact ⟨fun h => by rw [h], WF_unique ha hb⟩

theorem ne_spec {a b : R} (ha : a.WF) (hb : b.WF) : R.ne a b = !decide (a.toE = b.toE) := by
  rw [ne_eq_not_eq, eq_spec ha hb]

theorem wf_ofInt (i : Int) : (ofInt i).WF := by
  constructor
  · show (0 : Int) ≤ 1
    decide
  · show Int.gcd i 1 = 1
    simp

theorem finWF_ofInt (i : Int) : FinWF (ofInt i) := ⟨wf_ofInt i, by show (1 : Int) ≠ 0; decide⟩

theorem toRat_ofInt (i : Int) : (ofInt i).toRat = (i : ℚ) := by
  rw [toRat_eq (wf_ofInt i).1]; simp [ofInt]

theorem leI_eq (a : R) (i : Int) : R.leI a i = R.le a (ofInt i) := by
  unfold R.leI R.le ofInt
  by_cases h : a.den = 1 <;> simp [h]

theorem ltI_eq (a : R) (i : Int) : R.ltI a i = R.lt a (ofInt i) := by
  unfold R.ltI R.lt ofInt
  by_cases h : a.den = 1 <;> simp [h]

theorem geI_eq (a : R) (i : Int) : R.geI a i = R.ge a (ofInt i) := by
  unfold R.geI R.ge ofInt
  by_cases h : a.den = 1 <;> simp [h]

theorem gtI_eq (a : R) (i : Int) : R.gtI a i = R.gt a (ofInt i) := by
  unfold R.gtI R.gt ofInt
  by_cases h : a.den = 1 <;> simp [h]

theorem eqI_eq (a : R) (i : Int) : R.eqI a i = R.eq a (ofInt i) := rfl

theorem neI_eq (a : R) (i : Int) : R.neI a i = R.ne a (ofInt i) := rfl

theorem cmpI_spec (a : R) (i : Int) (ha : a.WF) :
    R.leI a i = ERat.le a.toE (ofInt i).toE ∧ R.ltI a i = ERat.lt a.toE (ofInt i).toE ∧
    R.geI a i = ERat.le (ofInt i).toE a.toE ∧ R.gtI a i = ERat.lt (ofInt i).toE a.toE ∧
    R.eqI a i = decide (a.toE = (ofInt i).toE) ∧ R.neI a i = !decide (a.toE = (ofInt i).toE) := by
  have hi := wf_ofInt i
  exact ⟨by rw [leI_eq, le_spec ha hi], by rw [ltI_eq, lt_spec ha hi],
    by rw [geI_eq, ge_spec ha hi], by rw [gtI_eq, gt_spec ha hi],
    by rw [eqI_eq, eq_spec ha hi], by rw [neI_eq, ne_spec ha hi]⟩

/-! ### the order on `ERat` -/

theorem ERat.le_total_order (x y z : ERat) :
    ERat.le x x = true ∧ (ERat.le x y = true → ERat.le y z = true → ERat.le x z = true) ∧
    (ERat.le x y = true → ERat.le y x = true → x = y) ∧
    (ERat.le x y = true ∨ ERat.le y x = true) := by
  refine ⟨?_, ?_, ?_, ?_⟩
  · cases x <;> simp [ERat.le]
  · cases x <;> cases y <;> cases z <;> simp [ERat.le]
    exact fun h1 h2 => le_trans h1 h2
  · cases x <;> cases y <;> simp [ERat.le]
    exact fun h1 h2 => le_antisymm h1 h2
  · cases x <;> cases y <;> simp [ERat.le]
    exact le_total _ _

/-! ### negation -/

theorem wf_neg {a : R} (ha : a.WF) : (neg a).WF :=
  ⟨ha.1, by show Int.gcd (-a.num) a.den = 1; rw [Int.neg_gcd]; exact ha.2⟩

theorem finWF_neg {a : R} (ha : FinWF a) : FinWF (neg a) := ⟨wf_neg ha.1, ha.2⟩

theorem toRat_neg {a : R} (ha : FinWF a) : (neg a).toRat = - a.toRat := by
  rw [toRat_eq (finWF_neg ha).1.1, toRat_eq ha.1.1]
  show (((-a.num : Int)) : ℚ) / (a.den : ℚ) = _
  push_cast; ring

theorem neg_spec {a : R} (ha : a.WF) : (neg a).WF ∧ (neg a).toE = ERat.neg a.toE := by
  refine ⟨wf_neg ha, ?_⟩
  by_cases hd : a.den = 0
  · rcases wf_inf ha hd with rfl | rfl <;> decide
  · rw [FinWF.toE ⟨ha, hd⟩, FinWF.toE (finWF_neg ⟨ha, hd⟩), toRat_neg ⟨ha, hd⟩]; rfl

/-! ### addition -/

theorem addAssign_eq_add (a b : R) : addAssign a b = add a b := by
  unfold addAssign add
  split
  · rfl
  · split
    · rfl
    · split
      · rename_i h; simp only [Bool.and_eq_true, beq_iff_eq] at h
        simp only [ofInt, h.1]
      · rfl

theorem subAssign_def (a b : R) : subAssign a b = addAssign a (neg b) := rfl

theorem subAssign_eq_sub (a b : R) : subAssign a b = sub a b := addAssign_eq_add a (neg b)

theorem coprime_gcd_lcm {an bn ad bd : Int} (ha : Int.gcd an ad = 1) (hb : Int.gcd bn bd = 1) :
    Nat.Coprime (Int.gcd an bn) (Int.lcm ad bd) := by
  have h1 : Nat.Coprime (Int.gcd an bn) ad.natAbs :=
    Nat.Coprime.coprime_dvd_left (Nat.gcd_dvd_left _ _) ha
  have h2 : Nat.Coprime (Int.gcd an bn) bd.natAbs :=
    Nat.Coprime.coprime_dvd_left (Nat.gcd_dvd_right _ _) hb
  exact Nat.Coprime.coprime_dvd_right (Nat.lcm_dvd_mul _ _) (Nat.Coprime.mul_right h1 h2)

theorem add_general {a b : R} (ha : FinWF a) (hb : FinWF b) (han : a.num ≠ 0) :
    FinWF ⟨(mk2 (a.num.tdiv (gcdI a.num b.num) * b.den.tdiv (gcdI a.den b.den) +
              b.num.tdiv (gcdI a.num b.num) * a.den.tdiv (gcdI a.den b.den))
            (lcmI a.den b.den)).num * gcdI a.num b.num,
           (mk2 (a.num.tdiv (gcdI a.num b.num) * b.den.tdiv (gcdI a.den b.den) +
              b.num.tdiv (gcdI a.num b.num) * a.den.tdiv (gcdI a.den b.den))
            (lcmI a.den b.den)).den⟩ ∧
    (⟨(mk2 (a.num.tdiv (gcdI a.num b.num) * b.den.tdiv (gcdI a.den b.den) +
              b.num.tdiv (gcdI a.num b.num) * a.den.tdiv (gcdI a.den b.den))
            (lcmI a.den b.den)).num * gcdI a.num b.num,
           (mk2 (a.num.tdiv (gcdI a.num b.num) * b.den.tdiv (gcdI a.den b.den) +
              b.num.tdiv (gcdI a.num b.num) * a.den.tdiv (gcdI a.den b.den))
            (lcmI a.den b.den)).den⟩ : R).toRat = a.toRat + b.toRat := by
  have pa := ha.den_pos
  have pb := hb.den_pos
  have c2 := coprime_gcd_lcm ha.1.2 hb.1.2
  have hfpos : 0 < gcdI a.num b.num := by
    unfold gcdI
    have : Int.gcd a.num b.num ≠ 0 := fun h0 => han (Int.gcd_eq_zero_iff.mp h0).1
    omega
  have hgpos : 0 < gcdI a.den b.den := by
    unfold gcdI
    have : Int.gcd a.den b.den ≠ 0 := fun h0 => (ne_of_gt pa) (Int.gcd_eq_zero_iff.mp h0).1
    omega
  have hfa : gcdI a.num b.num ∣ a.num := Int.gcd_dvd_left _ _
  have hfb : gcdI a.num b.num ∣ b.num := Int.gcd_dvd_right _ _
  have hga : gcdI a.den b.den ∣ a.den := Int.gcd_dvd_left _ _
  have hgb : gcdI a.den b.den ∣ b.den := Int.gcd_dvd_right _ _
  have hgl : gcdI a.den b.den * lcmI a.den b.den = a.den * b.den := by
    unfold gcdI lcmI
    have := Int.gcd_mul_lcm a.den b.den
    have h2 : ((Int.gcd a.den b.den * Int.lcm a.den b.den : Nat) : Int)
        = ((a.den.natAbs * b.den.natAbs : Nat) : Int) := by rw [this]
    push_cast at h2
    rw [h2, abs_of_pos pa, abs_of_pos pb]
  have hfabs : (gcdI a.num b.num).natAbs = Int.gcd a.num b.num := by unfold gcdI; simp
  have hlabs : (lcmI a.den b.den).natAbs = Int.lcm a.den b.den := by unfold lcmI; simp
  generalize gcdI a.num b.num = f at *
  generalize gcdI a.den b.den = g at *
  generalize lcmI a.den b.den = L at *
  obtain ⟨an, han'⟩ := hfa
  obtain ⟨bn, hbn'⟩ := hfb
  obtain ⟨ad, had'⟩ := hga
  obtain ⟨bd, hbd'⟩ := hgb
  have hfne : f ≠ 0 := ne_of_gt hfpos
  have hgne : g ≠ 0 := ne_of_gt hgpos
  have e1 : a.num.tdiv f = an := by rw [han', Int.mul_tdiv_cancel_left _ hfne]
  have e2 : b.num.tdiv f = bn := by rw [hbn', Int.mul_tdiv_cancel_left _ hfne]
  have e3 : a.den.tdiv g = ad := by rw [had', Int.mul_tdiv_cancel_left _ hgne]
  have e4 : b.den.tdiv g = bd := by rw [hbd', Int.mul_tdiv_cancel_left _ hgne]
  rw [e1, e2, e3, e4]
  have hL : L = ad * g * bd := by
    apply Int.eq_of_mul_eq_mul_left hgne
    rw [hgl, had', hbd']; ring
  have hadpos : 0 < ad := by
    rw [had'] at pa
    exact Int.pos_of_mul_pos_right pa hgpos
  have hbdpos : 0 < bd := by
    rw [hbd'] at pb
    exact Int.pos_of_mul_pos_right pb hgpos
  have hLne : L ≠ 0 := by
    rw [hL]; exact ne_of_gt (Int.mul_pos (Int.mul_pos hadpos hgpos) hbdpos)
  obtain ⟨k, hk, _, hn, hdd, hwf⟩ := normalize_spec (an * bd + bn * ad) L (fun h => hLne h.2)
  obtain ⟨hres, hval⟩ := mk2_fin (an * bd + bn * ad) L hLne
  unfold mk2 at *
  generalize normalize ⟨an * bd + bn * ad, L⟩ = res at *
  have hdvd : res.den.natAbs ∣ Int.lcm a.den b.den := by
    rw [← hlabs, Int.natAbs_dvd_natAbs]; exact ⟨k, by rw [hdd]; ring⟩
  have c3 : Nat.Coprime (Int.gcd a.num b.num) res.den.natAbs :=
    Nat.Coprime.coprime_dvd_right hdvd c2
  have hwf' : FinWF ⟨res.num * f, res.den⟩ := by
    refine ⟨⟨hres.1.1, ?_⟩, hres.2⟩
    show Nat.gcd (res.num * f).natAbs res.den.natAbs = 1
    rw [Int.natAbs_mul, hfabs]
    exact Nat.Coprime.mul_left hres.1.2 c3
  refine ⟨hwf', ?_⟩
  rw [toRat_eq hwf'.1.1, toRat_eq ha.1.1, toRat_eq hb.1.1]
  rw [toRat_eq hres.1.1] at hval
  have hden : (res.den : ℚ) ≠ 0 := by exact_mod_cast hres.2
  have hLq : (L : ℚ) ≠ 0 := by exact_mod_cast hLne
  have hgq : (g : ℚ) ≠ 0 := by exact_mod_cast hgne
  have hadq : (ad : ℚ) ≠ 0 := by exact_mod_cast (ne_of_gt hadpos)
  have hbdq : (bd : ℚ) ≠ 0 := by exact_mod_cast (ne_of_gt hbdpos)
  show ((res.num * f : Int) : ℚ) / (res.den : ℚ) = _
  have : ((res.num * f : Int) : ℚ) / (res.den : ℚ) = (res.num : ℚ) / (res.den : ℚ) * f := by
    push_cast; ring
  rw [this, hval, han', hbn', had', hbd', hL]
  push_cast
  field_simp

theorem FinWF.not_inf {a : R} (ha : FinWF a) : a.isInfinite = false := by
  unfold isInfinite; simp [ha.2]

theorem add_fin {a b : R} (ha : FinWF a) (hb : FinWF b) :
    FinWF (add a b) ∧ (add a b).toRat = a.toRat + b.toRat := by
  by_cases han : a.num = 0
  · have e : add a b = b := by unfold add; simp [han]
    rw [e, wf_num_zero ha.1 han, toRat_zero]; exact ⟨hb, by ring⟩
  by_cases hbn : b.num = 0
  · have e : add a b = a := by unfold add; simp [han, hbn, hb.not_inf]
    rw [e, wf_num_zero hb.1 hbn, toRat_zero]; exact ⟨ha, by ring⟩
  by_cases hden : a.den = 1 ∧ b.den = 1
  · have e : add a b = ofInt (a.num + b.num) := by
      unfold add; simp [han, hbn, hb.not_inf, ha.not_inf, hden.1, hden.2]
    rw [e, toRat_ofInt, toRat_eq ha.1.1, toRat_eq hb.1.1, hden.1, hden.2]
    exact ⟨finWF_ofInt _, by push_cast; ring⟩
  · have e : add a b = ⟨(mk2 (a.num.tdiv (gcdI a.num b.num) * b.den.tdiv (gcdI a.den b.den) +
              b.num.tdiv (gcdI a.num b.num) * a.den.tdiv (gcdI a.den b.den))
            (lcmI a.den b.den)).num * gcdI a.num b.num,
           (mk2 (a.num.tdiv (gcdI a.num b.num) * b.den.tdiv (gcdI a.den b.den) +
              b.num.tdiv (gcdI a.num b.num) * a.den.tdiv (gcdI a.den b.den))
            (lcmI a.den b.den)).den⟩ := by
      unfold add
      rw [if_neg (by simp [han, hb.not_inf]), if_neg (by simp [hbn, ha.not_inf]),
        if_neg (by simpa using hden)]
    rw [e]; exact add_general ha hb han

theorem ERat.add_fin_fin (p q : ℚ) : ERat.add (.fin p) (.fin q) = some (.fin (p + q)) := rfl

theorem add_spec {a b : R} (ha : a.WF) (hb : b.WF) (hd : addDefined a b) :
    (add a b).WF ∧ ERat.add a.toE b.toE = some (add a b).toE := by
  by_cases hda : a.den = 0 <;> by_cases hdb : b.den = 0
  · rcases wf_inf ha hda with rfl | rfl <;> rcases wf_inf hb hdb with rfl | rfl <;>
      first | decide | (exfalso; revert hd; decide)
  · have hbf : FinWF b := ⟨hb, hdb⟩
    have e : add a b = a := by
      unfold add
      rcases wf_inf ha hda with rfl | rfl <;> simp [pinf, ninf, isInfinite, hdb]
    rw [e, hbf.toE]
    refine ⟨ha, ?_⟩
    rcases wf_inf ha hda with rfl | rfl
    · rw [toE_pinf]; rfl
    · rw [toE_ninf]; rfl
  · have haf : FinWF a := ⟨ha, hda⟩
    have e : add a b = b := by
      unfold add
      rcases wf_inf hb hdb with rfl | rfl <;> simp [pinf, ninf, isInfinite]
    rw [e, haf.toE]
    refine ⟨hb, ?_⟩
    rcases wf_inf hb hdb with rfl | rfl
    · rw [toE_pinf]; rfl
    · rw [toE_ninf]; rfl
  · have haf : FinWF a := ⟨ha, hda⟩
    have hbf : FinWF b := ⟨hb, hdb⟩
    obtain ⟨h1, h2⟩ := add_fin haf hbf
    refine ⟨h1.1, ?_⟩
    rw [haf.toE, hbf.toE, h1.toE, h2]; rfl

theorem sub_spec {a b : R} (ha : a.WF) (hb : b.WF) (hd : addDefined a (neg b)) :
    (sub a b).WF ∧ ERat.add a.toE (ERat.neg b.toE) = some (sub a b).toE := by
  rw [← (neg_spec hb).2]
  exact add_spec ha (neg_spec hb).1 hd

theorem finWF_addAssign {a b : R} (ha : FinWF a) (hb : FinWF b) : FinWF (addAssign a b) := by
  rw [addAssign_eq_add]; exact (add_fin ha hb).1

theorem toRat_addAssign {a b : R} (ha : FinWF a) (hb : FinWF b) :
    (addAssign a b).toRat = a.toRat + b.toRat := by
  rw [addAssign_eq_add]; exact (add_fin ha hb).2

theorem finWF_subAssign {a b : R} (ha : FinWF a) (hb : FinWF b) : FinWF (subAssign a b) :=
  finWF_addAssign ha (finWF_neg hb)

theorem toRat_subAssign {a b : R} (ha : FinWF a) (hb : FinWF b) :
    (subAssign a b).toRat = a.toRat - b.toRat := by
  rw [subAssign_def, toRat_addAssign ha (finWF_neg hb), toRat_neg hb]; ring

/-! ### multiplication -/

theorem infSign_cases (x y : Int) : infSign x y = 1 ∨ infSign x y = -1 := by
  unfold infSign; split
  · left; rfl
  · right; rfl

theorem mulAssign_eq_mul (a b : R) : mulAssign a b = mul a b := by
  unfold mulAssign mul
  split
  · rfl
  · split
    · rfl
    · split
      · rename_i h; simp only [Bool.and_eq_true, beq_iff_eq] at h
        simp only [ofInt, h.1]
      · split
        · rcases infSign_cases a.num b.num with h | h <;> rw [h]
          · rfl
          · rfl
        · rfl

theorem toRat_one : one.toRat = 1 := by decide

theorem eq_one_iff (a : R) : R.eq a one = true ↔ a = one := by
  rw [eq_eq_decide]; simp

theorem mul_fin {a b : R} (ha : FinWF a) (hb : FinWF b) :
    FinWF (mul a b) ∧ (mul a b).toRat = a.toRat * b.toRat := by
  by_cases hb1 : b = one
  · have e : mul a b = a := by unfold mul; rw [if_pos ((eq_one_iff b).mpr hb1)]
    rw [e, hb1, toRat_one]; exact ⟨ha, by ring⟩
  by_cases ha1 : a = one
  · have e : mul a b = b := by
      unfold mul; rw [if_neg (fun h => hb1 ((eq_one_iff b).mp h)), if_pos ((eq_one_iff a).mpr ha1)]
    rw [e, ha1, toRat_one]; exact ⟨hb, by ring⟩
  by_cases hden : a.den = 1 ∧ b.den = 1
  · have e : mul a b = ofInt (a.num * b.num) := by
      unfold mul
      rw [if_neg (fun h => hb1 ((eq_one_iff b).mp h)), if_neg (fun h => ha1 ((eq_one_iff a).mp h)),
        if_pos (by simp [hden.1, hden.2])]
    rw [e, toRat_ofInt, toRat_eq ha.1.1, toRat_eq hb.1.1, hden.1, hden.2]
    exact ⟨finWF_ofInt _, by push_cast; ring⟩
  · have e : mul a b = mk2 ((mk2 a.num b.den).num * (mk2 b.num a.den).num)
        ((mk2 a.num b.den).den * (mk2 b.num a.den).den) := by
      unfold mul
      rw [if_neg (fun h => hb1 ((eq_one_iff b).mp h)), if_neg (fun h => ha1 ((eq_one_iff a).mp h)),
        if_neg (by simpa using hden), if_neg (by simp [ha.not_inf, hb.not_inf])]
    obtain ⟨hc, hcv⟩ := mk2_fin a.num b.den hb.2
    obtain ⟨hd, hdv⟩ := mk2_fin b.num a.den ha.2
    rw [toRat_eq hc.1.1] at hcv
    rw [toRat_eq hd.1.1] at hdv
    have hne : (mk2 a.num b.den).den * (mk2 b.num a.den).den ≠ 0 :=
      Int.mul_ne_zero hc.2 hd.2
    obtain ⟨hr, hrv⟩ := mk2_fin ((mk2 a.num b.den).num * (mk2 b.num a.den).num) _ hne
    rw [e]
    refine ⟨hr, ?_⟩
    rw [hrv, toRat_eq ha.1.1, toRat_eq hb.1.1]
    have hbq : (b.den : ℚ) ≠ 0 := by exact_mod_cast hb.2
    have haq : (a.den : ℚ) ≠ 0 := by exact_mod_cast ha.2
    push_cast
    rw [mul_div_mul_comm, hcv, hdv]
    field_simp

theorem toRat_pos_iff {a : R} (ha : FinWF a) : 0 < a.toRat ↔ 0 < a.num := by
  have pa : (0 : ℚ) < a.den := by exact_mod_cast ha.den_pos
  rw [toRat_eq ha.1.1, div_pos_iff_of_pos_right pa]; exact_mod_cast Iff.rfl

theorem toRat_neg_iff {a : R} (ha : FinWF a) : a.toRat < 0 ↔ a.num < 0 := by
  have pa : (0 : ℚ) < a.den := by exact_mod_cast ha.den_pos
  rw [toRat_eq ha.1.1, div_lt_iff₀ pa, zero_mul]; exact_mod_cast Iff.rfl

theorem mul_inf {a b : R} (ha : a.WF) (hb : b.WF) (h : a.den = 0 ∨ b.den = 0) :
    mul a b = if infSign a.num b.num = 1 then pinf else ninf := by
  by_cases hb1 : b = one
  · subst hb1
    have hda : a.den = 0 := by rcases h with h | h; exact h; exact absurd h (by decide)
    rcases wf_inf ha hda with rfl | rfl <;> decide
  by_cases ha1 : a = one
  · subst ha1
    have hdb : b.den = 0 := by rcases h with h | h; exact absurd h (by decide); exact h
    rcases wf_inf hb hdb with rfl | rfl <;> decide
  unfold mul
  rw [if_neg (fun h => hb1 ((eq_one_iff b).mp h)), if_neg (fun h => ha1 ((eq_one_iff a).mp h)),
    if_neg (by simp only [Bool.and_eq_true, beq_iff_eq]; omega),
    if_pos (by simp only [isInfinite, Bool.or_eq_true, beq_iff_eq]; exact h)]

theorem ERat.mul_of_inf (x y : ERat) (h : ¬ ((∃ p, x = .fin p) ∧ (∃ q, y = .fin q))) :
    ERat.mul x y = if ERat.sgn x * ERat.sgn y = 0 then none
      else if ERat.sgn x * ERat.sgn y > 0 then some .pinf else some .ninf := by
  cases x <;> cases y <;> first | rfl | (exfalso; exact h ⟨⟨_, rfl⟩, ⟨_, rfl⟩⟩)

theorem sgn_toE {a : R} (ha : a.WF) : ERat.sgn a.toE = a.num.sign := by
  by_cases hd : a.den = 0
  · rcases wf_inf ha hd with rfl | rfl <;> decide
  · have haf : FinWF a := ⟨ha, hd⟩
    rw [haf.toE]
    unfold ERat.sgn
    rcases Int.lt_trichotomy a.num 0 with h | h | h
    · have h1 : a.toRat < 0 := (toRat_neg_iff haf).mpr h
      have h2 : ¬ a.toRat > 0 := not_lt.mpr (le_of_lt h1)
      simp only [h2, h1, if_false, if_true]; exact (Int.sign_eq_neg_one_of_neg h).symm
    · have h0 : a.toRat = 0 := by rw [wf_num_zero ha h]; exact toRat_zero
      rw [h0, h]; simp
    · have h1 : a.toRat > 0 := (toRat_pos_iff haf).mpr h
      simp only [h1, if_true]; exact (Int.sign_eq_one_of_pos h).symm

theorem mul_spec {a b : R} (ha : a.WF) (hb : b.WF) (hd : mulDefined a b) :
    (mul a b).WF ∧ ERat.mul a.toE b.toE = some (mul a b).toE := by
  by_cases hinf : a.den = 0 ∨ b.den = 0
  · have hna : a.num ≠ 0 := by
      intro h0
      rcases hinf with h | h
      · rcases wf_inf ha h with rfl | rfl <;> exact absurd h0 (by decide)
      · exact hd.1 ⟨h0, h⟩
    have hnb : b.num ≠ 0 := by
      intro h0
      rcases hinf with h | h
      · exact hd.2 ⟨h, h0⟩
      · rcases wf_inf hb h with rfl | rfl <;> exact absurd h0 (by decide)
    have hnf : ¬ ((∃ p, a.toE = .fin p) ∧ (∃ q, b.toE = .fin q)) := by
      rintro ⟨⟨p, hp⟩, ⟨q, hq⟩⟩
      rcases hinf with h | h
      · rcases wf_inf ha h with rfl | rfl <;> (revert hp; simp [toE_pinf, toE_ninf])
      · rcases wf_inf hb h with rfl | rfl <;> (revert hq; simp [toE_pinf, toE_ninf])
    rw [mul_inf ha hb hinf, ERat.mul_of_inf _ _ hnf, sgn_toE ha, sgn_toE hb]
    rcases Int.lt_or_gt_of_ne hna with h1 | h1 <;> rcases Int.lt_or_gt_of_ne hnb with h2 | h2
    · rw [Int.sign_eq_neg_one_of_neg h1, Int.sign_eq_neg_one_of_neg h2]
      have : infSign a.num b.num = 1 := by
        unfold infSign; rw [if_pos]; simp; omega
      rw [if_pos this]; decide
    · rw [Int.sign_eq_neg_one_of_neg h1, Int.sign_eq_one_of_pos h2]
      have : ¬ infSign a.num b.num = 1 := by
        unfold infSign; rw [if_neg]; decide; simp; omega
      rw [if_neg this]; decide
    · rw [Int.sign_eq_one_of_pos h1, Int.sign_eq_neg_one_of_neg h2]
      have : ¬ infSign a.num b.num = 1 := by
        unfold infSign; rw [if_neg]; decide; simp; omega
      rw [if_neg this]; decide
    · rw [Int.sign_eq_one_of_pos h1, Int.sign_eq_one_of_pos h2]
      have : infSign a.num b.num = 1 := by
        unfold infSign; rw [if_pos]; simp; omega
      rw [if_pos this]; decide
  · have haf : FinWF a := ⟨ha, fun h => hinf (Or.inl h)⟩
    have hbf : FinWF b := ⟨hb, fun h => hinf (Or.inr h)⟩
    obtain ⟨h1, h2⟩ := mul_fin haf hbf
    refine ⟨h1.1, ?_⟩
    rw [haf.toE, hbf.toE, h1.toE, h2]; rfl

/-! ### division -/

theorem recip_fin {b : R} (hb : FinWF b) (nz : b.num ≠ 0) :
    FinWF (recip b) ∧ (recip b).toRat = b.toRat⁻¹ := by
  have pb := hb.den_pos
  have hg : Int.gcd b.num b.den = 1 := hb.1.2
  have hbq : (b.den : ℚ) ≠ 0 := by exact_mod_cast hb.2
  have hnq : (b.num : ℚ) ≠ 0 := by exact_mod_cast nz
  by_cases hpos : b.num ≥ 0
  · have e : recip b = ⟨b.den, b.num⟩ := by unfold recip; rw [if_pos hpos]
    have hw : FinWF (⟨b.den, b.num⟩ : R) :=
      ⟨⟨hpos, by show Int.gcd b.den b.num = 1; rw [Int.gcd_comm]; exact hg⟩, nz⟩
    rw [e]; refine ⟨hw, ?_⟩
    rw [toRat_eq hw.1.1, toRat_eq hb.1.1, inv_div]
  · have e : recip b = ⟨-b.den, -b.num⟩ := by unfold recip; rw [if_neg hpos]
    have hw : FinWF (⟨-b.den, -b.num⟩ : R) :=
      ⟨⟨by show 0 ≤ -b.num; omega,
        by show Int.gcd (-b.den) (-b.num) = 1; rw [Int.neg_gcd, Int.gcd_neg, Int.gcd_comm]; exact hg⟩,
        by show -b.num ≠ 0; omega⟩
    rw [e]; refine ⟨hw, ?_⟩
    rw [toRat_eq hw.1.1, toRat_eq hb.1.1, inv_div]
    show ((-b.den : Int) : ℚ) / ((-b.num : Int) : ℚ) = _
    push_cast; rw [neg_div_neg_eq]

theorem recip_spec {b : R} (hb : b.WF) : (recip b).WF ∧ (recip b).toE = ERat.inv b.toE := by
  by_cases hd : b.den = 0
  · rcases wf_inf hb hd with rfl | rfl <;> decide
  by_cases hn : b.num = 0
  · rw [wf_num_zero hb hn]; decide
  · have hbf : FinWF b := ⟨hb, hd⟩
    obtain ⟨h1, h2⟩ := recip_fin hbf hn
    refine ⟨h1.1, ?_⟩
    rw [h1.toE, hbf.toE, h2]
    have : b.toRat ≠ 0 := by
      intro h0
      rcases Int.lt_or_gt_of_ne hn with h | h
      · have := (toRat_neg_iff hbf).mpr h; rw [h0] at this; exact lt_irrefl _ this
      · have := (toRat_pos_iff hbf).mpr h; rw [h0] at this; exact lt_irrefl _ this
    show _ = (if b.toRat = 0 then ERat.pinf else ERat.fin b.toRat⁻¹)
    rw [if_neg this]

theorem div_spec {a b : R} (ha : a.WF) (hb : b.WF) (hd : divDefined a b) :
    (div a b).WF ∧ ERat.mul a.toE (ERat.inv b.toE) = some (div a b).toE := by
  rw [← (recip_spec hb).2]
  exact mul_spec ha (recip_spec hb).1 hd

theorem div_fin {a b : R} (ha : FinWF a) (hb : FinWF b) (nz : b.num ≠ 0) :
    FinWF (div a b) ∧ (div a b).toRat = a.toRat / b.toRat := by
  obtain ⟨h1, h2⟩ := recip_fin hb nz
  obtain ⟨h3, h4⟩ := mul_fin ha h1
  exact ⟨h3, by unfold div; rw [h4, h2, div_eq_mul_inv]⟩

theorem div_finite {a b : R} (ha : a.WF) (hb : b.WF) (fa : a.den ≠ 0) (fb : b.den ≠ 0)
    (nz : b.num ≠ 0) : (div a b).WF ∧ (div a b).toE = ERat.fin (a.toRat / b.toRat) := by
  obtain ⟨h1, h2⟩ := div_fin ⟨ha, fa⟩ ⟨hb, fb⟩ nz
  exact ⟨h1.1, by rw [h1.toE, h2]⟩

theorem divAssign_eq_div (a b : R) : divAssign a b = div a b := mulAssign_eq_mul a (recip b)

theorem finWF_mulAssign {a b : R} (ha : FinWF a) (hb : FinWF b) : FinWF (mulAssign a b) := by
  rw [mulAssign_eq_mul]; exact (mul_fin ha hb).1

theorem toRat_mulAssign {a b : R} (ha : FinWF a) (hb : FinWF b) :
    (mulAssign a b).toRat = a.toRat * b.toRat := by
  rw [mulAssign_eq_mul]; exact (mul_fin ha hb).2

theorem finWF_divAssign {a b : R} (ha : FinWF a) (hb : FinWF b) (nz : b.num ≠ 0) :
    FinWF (divAssign a b) := by
  rw [divAssign_eq_div]; exact (div_fin ha hb nz).1

theorem toRat_divAssign {a b : R} (ha : FinWF a) (hb : FinWF b) (nz : b.num ≠ 0) :
    (divAssign a b).toRat = a.toRat / b.toRat := by
  rw [divAssign_eq_div]; exact (div_fin ha hb nz).2

/-! ### the other operator forms -/

theorem recip_ofInt (i : Int) : recip (ofInt i) = recipI i := rfl

theorem neg_ofInt (i : Int) : neg (ofInt i) = ofInt (-i) := rfl

theorem addI_eq_add {a : R} (ha : a.WF) (i : Int) : addI a i = add a (ofInt i) := by
  by_cases h0 : a.num = 0
  · unfold addI add; simp [h0]
  by_cases h1 : i = 0 ∨ a.den = 0
  · have c1 : (i == 0 || a.isInfinite) = true := by
      simp only [isInfinite, Bool.or_eq_true, beq_iff_eq]; exact h1
    have c2 : ((ofInt i).num == 0 || a.isInfinite) = true := c1
    unfold addI add
    rw [if_neg (by simpa using h0), if_pos c1,
      if_neg (by simp [h0, isInfinite, ofInt]), if_pos c2]
  have hi : i ≠ 0 := fun h => h1 (Or.inl h)
  have hd : a.den ≠ 0 := fun h => h1 (Or.inr h)
  have c1 : ¬ (i == 0 || a.isInfinite) = true := by
    simp only [isInfinite, Bool.or_eq_true, beq_iff_eq]; exact h1
  have c2 : ¬ ((ofInt i).num == 0 || a.isInfinite) = true := c1
  by_cases h2 : a.den = 1
  · unfold addI add
    rw [if_neg (by simpa using h0), if_neg c1, if_pos (by simpa using h2),
      if_neg (by simp [h0, isInfinite, ofInt]), if_neg c2, if_pos (by simp [h2, ofInt])]
    rfl
  · have haf : FinWF a := ⟨ha, hd⟩
    have e : addI a i = ⟨a.num + i * a.den, a.den⟩ := by
      unfold addI
      rw [if_neg (by simpa using h0), if_neg c1, if_neg (by simpa using h2)]
    obtain ⟨h3, h4⟩ := add_fin haf (finWF_ofInt i)
    have hg : Int.gcd (a.num + i * a.den) a.den = 1 := by
      rw [Int.gcd_add_mul_right_left]; exact ha.2
    have hw : FinWF (⟨a.num + i * a.den, a.den⟩ : R) := ⟨⟨ha.1, hg⟩, hd⟩
    rw [e]
    apply FinWF.ext hw h3
    rw [h4, toRat_ofInt, toRat_eq hw.1.1, toRat_eq ha.1]
    have : (a.den : ℚ) ≠ 0 := by exact_mod_cast hd
    push_cast; field_simp

theorem addAssignI_eq_addI {a : R} (ha : a.WF) (i : Int) : addAssignI a i = addI a i := by
  unfold addAssignI addI
  split
  · rename_i h
    have : a.den = 1 := by
      have := wf_num_zero ha (by simpa using h); rw [this]; rfl
    rw [this]; rfl
  · split
    · rfl
    · split
      · rename_i h; simp only [beq_iff_eq] at h; rw [h]; rfl
      · rfl

theorem mulI_eq_mul {a : R} (ha : a.WF) (i : Int) : mulI a i = mul a (ofInt i) := by
  have eqb : R.eq (ofInt i) one = (i == 1) := by
    rw [Bool.eq_iff_iff]; simp [R.eq, ofInt, one]
  have hbd : ((ofInt i).den == 1) = true := rfl
  have hbi : (ofInt i).isInfinite = false := rfl
  by_cases h0 : i = 1
  · have c0 : (i == 1) = true := by simpa using h0
    simp only [mulI, mul, eqb, c0, ↓reduceIte]
  have c0 : (i == 1) = false := by simpa using h0
  by_cases h1 : R.eq a one = true
  · simp only [mulI, mul, eqb, c0, h1, ↓reduceIte, Bool.false_eq_true]
  have c1 : R.eq a one = false := by simpa using h1
  by_cases h2 : a.den = 1
  · have c2 : (a.den == 1) = true := by simpa using h2
    simp only [mulI, mul, eqb, c0, c1, c2, hbd, Bool.and_self, ↓reduceIte, Bool.false_eq_true]
    rfl
  have c2 : (a.den == 1) = false := by simpa using h2
  by_cases h3 : a.den = 0
  · have c3 : a.isInfinite = true := by simpa [isInfinite] using h3
    simp only [mulI, mul, eqb, c0, c1, c2, c3, hbd, Bool.false_and, Bool.true_or, ↓reduceIte,
      Bool.false_eq_true]
    rfl
  · have haf : FinWF a := ⟨ha, h3⟩
    have c3 : a.isInfinite = false := by simpa [isInfinite] using h3
    have e : mulI a i = mk2 (a.num * i) a.den := by
      simp only [mulI, c0, c1, c2, c3, ↓reduceIte, Bool.false_eq_true]
    obtain ⟨h4, h5⟩ := mul_fin haf (finWF_ofInt i)
    obtain ⟨h6, h7⟩ := mk2_fin (a.num * i) a.den h3
    rw [e]
    apply FinWF.ext h6 h4
    rw [h5, h7, toRat_ofInt, toRat_eq ha.1]
    push_cast; ring

theorem mulAssignI_eq_mulI (a : R) (i : Int) : mulAssignI a i = mulI a i := by
  by_cases h0 : i = 1
  · have c0 : (i == 1) = true := by simpa using h0
    simp only [mulAssignI, mulI, c0, ↓reduceIte]
  have c0 : (i == 1) = false := by simpa using h0
  by_cases h1 : R.eq a one = true
  · simp only [mulAssignI, mulI, c0, h1, ↓reduceIte, Bool.false_eq_true]
    rw [(eq_one_iff a).mp h1]; rfl
  have c1 : R.eq a one = false := by simpa using h1
  by_cases h2 : a.den = 1
  · have c2 : (a.den == 1) = true := by simpa using h2
    have c3 : a.isInfinite = false := by simp [isInfinite, h2]
    simp only [mulAssignI, mulI, c0, c1, c3, ↓reduceIte, Bool.false_eq_true, ne_eq, h2,
      not_true_eq_false]
    rfl
  have c2 : (a.den == 1) = false := by simpa using h2
  by_cases h3 : a.den = 0
  · have c3 : a.isInfinite = true := by simpa [isInfinite] using h3
    simp only [mulAssignI, mulI, c0, c1, c2, c3, ↓reduceIte, Bool.false_eq_true]
    rw [h3]
    rcases infSign_cases a.num i with h | h <;> rw [h] <;> rfl
  · have c3 : a.isInfinite = false := by simpa [isInfinite] using h3
    simp only [mulAssignI, mulI, c0, c1, c2, c3, ↓reduceIte, Bool.false_eq_true, ne_eq, h2,
      not_false_eq_true]
    rfl

theorem forms_agree (a b : R) (i : Int) (ha : a.WF) (_hb : b.WF) :
    (addDefined a b → addAssign a b = add a b) ∧
    (addDefined a (neg b) → subAssign a b = sub a b) ∧
    (mulDefined a b → mulAssign a b = mul a b) ∧
    (divDefined a b → divAssign a b = div a b) ∧
    addI a i = add a (ofInt i) ∧ subI a i = sub a (ofInt i) ∧
    (mulDefined a (ofInt i) → mulI a i = mul a (ofInt i)) ∧
    (divDefined a (ofInt i) → divI a i = div a (ofInt i)) ∧
    addAssignI a i = add a (ofInt i) ∧ subAssignI a i = sub a (ofInt i) ∧
    (mulDefined a (ofInt i) → mulAssignI a i = mul a (ofInt i)) ∧
    (divDefined a (ofInt i) → divAssignI a i = div a (ofInt i)) ∧
    iAdd i b = add (ofInt i) b ∧ iSub i b = sub (ofInt i) b ∧ iMul i b = mul (ofInt i) b ∧
    iDiv i b = div (ofInt i) b := by
  have hsubI : subI a i = sub a (ofInt i) := by
    unfold subI sub; rw [addI_eq_add ha, neg_ofInt]
  refine ⟨fun _ => addAssign_eq_add a b, fun _ => subAssign_eq_sub a b,
    fun _ => mulAssign_eq_mul a b, fun _ => divAssign_eq_div a b,
    addI_eq_add ha i, hsubI, fun _ => mulI_eq_mul ha i, fun _ => ?_,
    ?_, ?_, fun _ => ?_, fun _ => ?_, rfl, rfl, rfl, rfl⟩
  · unfold divI div; rw [recip_ofInt]
  · rw [addAssignI_eq_addI ha, addI_eq_add ha]
  · unfold subAssignI; rw [addAssignI_eq_addI ha]; exact hsubI
  · rw [mulAssignI_eq_mulI, mulI_eq_mul ha]
  · unfold divAssignI div; rw [mulAssign_eq_mul, recip_ofInt]

end R
end Oratio
