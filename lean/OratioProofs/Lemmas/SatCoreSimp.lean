/-
C07: `simplify_db()` keeps the invariants.
-/
import OratioModel
import OratioProofs.Lemmas.SatCoreRoot

set_option linter.unusedSimpArgs false
set_option linter.unusedVariables false

namespace Oratio
namespace Sat

/-! ### list helpers -/

theorem getD_map_none {α} (l : List (Option α)) (f : Option α → Option α) (hf : f none = none) (i : Nat) :
    (l.map f).getD i none = f (l.getD i none) := by
  simp only [List.getD_eq_getElem?_getD, List.getElem?_map]
  cases l[i]? <;> simp [hf]

/-! ### removeClause -/

/-- changing only the reasons at root level -/
theorem WfA.mapReason {s t : Sat} (h : s.WfA) (hroot : s.trailLim = []) (f : Option Nat → Option Nat)
    (hv : t.vals = s.vals) (hl : t.level = s.level)
    (hr : t.reason = s.reason.map f) (ht : t.trail = s.trail) (hlim : t.trailLim = s.trailLim)
    (hd : t.decisions = s.decisions) (hq : t.queue = s.queue) (he : t.exprs = s.exprs) : t.WfA := by
  have hrl := fun l hl => h.root_lvl hroot (l := l) hl
  cases s; cases t; simp only at hv hl hr ht hlim hd hq he hroot; subst_vars
  obtain ⟨a1, a2, a3, a4, a5, a6, a7, a8, a9, a10, a11, a12, a13⟩ := h
  refine ⟨a1, ?_, a3, a4, a5, a6, a7, a8, a9, a10, a11, ?_, a13⟩
  · simpa using a2
  · intro l b hs _
    exact Or.inl (hrl l (hs.subset (List.mem_cons_self ..)))

section
variable {t : Sat} {id : Nat} {l0 l1 : Lit} {r : List Lit}

theorem removeClause_watches (hc : t.WfC) (hw : t.WfW) (hm : (id, l0 :: l1 :: r) ∈ t.cls) (i : Nat) :
    (t.removeClause id (l0 :: l1 :: r)).watches.getD i [] = (t.watches.getD i []).erase id := by
  have h0 : l0.neg.idx < t.watches.length := by
    rw [hw.lenWatches]; exact Lit.idx_lt (hc.clsRange _ hm l0 (by simp))
  have h1 : l1.neg.idx < t.watches.length := by
    rw [hw.lenWatches]; exact Lit.idx_lt (hc.clsRange _ hm l1 (by simp))
  have hne : l0.neg.idx ≠ l1.neg.idx := by
    apply Lit.neg_idx_ne
    have hnd := hc.clsNodup _ hm
    simp only [List.map_cons, List.nodup_cons, List.mem_cons, not_or] at hnd
    exact hnd.1.1
  show ((t.watches.set l0.neg.idx ((t.watches.getD l0.neg.idx []).erase id)).set l1.neg.idx
    (((t.watches.set l0.neg.idx ((t.watches.getD l0.neg.idx []).erase id)).getD l1.neg.idx []).erase id)).getD i [] = _
  by_cases e1 : l1.neg.idx = i
  · subst e1
    rw [getD_set_eq _ _ _ _ (by simpa using h1), getD_set_ne _ _ _ _ _ hne]
  · rw [getD_set_ne _ _ _ _ _ e1]
    by_cases e0 : l0.neg.idx = i
    · subst e0
      rw [getD_set_eq _ _ _ _ h0]
    · rw [getD_set_ne _ _ _ _ _ e0]
      symm
      apply List.erase_of_not_mem
      intro hmem
      obtain ⟨a, b, r', hm', hh⟩ := hw.sound i id hmem
      have e := mem_unique hc hm hm'
      simp only [List.cons.injEq] at e
      obtain ⟨ea, eb, _⟩ := e
      subst ea eb
      rcases hh with hh | hh
      · exact e0 hh
      · exact e1 hh

theorem removeClause_mem_watches (hc : t.WfC) (hw : t.WfW) (hm : (id, l0 :: l1 :: r) ∈ t.cls) (i x : Nat) :
    x ∈ (t.removeClause id (l0 :: l1 :: r)).watches.getD i [] ↔ x ≠ id ∧ x ∈ t.watches.getD i [] := by
  rw [removeClause_watches hc hw hm]
  exact (hw.nodup i).mem_erase_iff

theorem removeClause_cls : (t.removeClause id (l0 :: l1 :: r)).cls = t.cls.filter (fun e => e.1 != id) := rfl

theorem mem_removeClause {e : Nat × Clause} :
    e ∈ (t.removeClause id (l0 :: l1 :: r)).cls ↔ e ∈ t.cls ∧ e.1 ≠ id := by
  rw [removeClause_cls, List.mem_filter]; simp

theorem removeClause_reason (v : Nat) :
    (t.removeClause id (l0 :: l1 :: r)).reason.getD v none =
      (if t.reason.getD v none = some id then none else t.reason.getD v none) := by
  show (t.reason.map (fun r => if r = some id then none else r)).getD v none = _
  rw [getD_map_none _ _ (by simp)]

theorem WfA.removeClause (h : t.WfA) (hroot : t.trailLim = []) : (t.removeClause id (l0 :: l1 :: r)).WfA :=
  h.mapReason hroot (fun r => if r = some id then none else r) rfl rfl rfl rfl rfl rfl rfl rfl

theorem WfC.removeClause (h : t.WfC) : (t.removeClause id (l0 :: l1 :: r)).WfC := by
  have hsub : ∀ e, e ∈ (t.removeClause id (l0 :: l1 :: r)).cls → e ∈ t.cls := fun e he => (mem_removeClause.1 he).1
  refine ⟨fun e he => h.clsId e (hsub e he), ?_, fun e he => h.clsLen e (hsub e he),
    fun e he => h.clsNodup e (hsub e he), fun e he => h.clsRange e (hsub e he), fun e he => h.clsVar0 e (hsub e he)⟩
  rw [removeClause_cls]
  exact h.clsIdNodup.sublist ((List.filter_sublist).map _)

theorem WfR.removeClause (h : t.WfR) : (t.removeClause id (l0 :: l1 :: r)).WfR := by
  intro l b hs id' hr
  rw [removeClause_reason] at hr
  split at hr
  · cases hr
  · rename_i hne
    obtain ⟨rest, hmr, hb⟩ := h l b hs id' hr
    refine ⟨rest, mem_removeClause.2 ⟨hmr, ?_⟩, hb⟩
    intro e; subst e; exact hne hr

theorem WfW.removeClause (hc : t.WfC) (h : t.WfW) (hm : (id, l0 :: l1 :: r) ∈ t.cls) :
    (t.removeClause id (l0 :: l1 :: r)).WfW := by
  refine ⟨?_, ?_, ?_, ?_⟩
  · show (List.set (List.set _ _ _) _ _).length = _
    simp only [List.length_set]; exact h.lenWatches
  · intro i id' hi
    obtain ⟨hne, hi'⟩ := (removeClause_mem_watches hc h hm i id').1 hi
    obtain ⟨a, b, r', hm', hh⟩ := h.sound i id' hi'
    exact ⟨a, b, r', mem_removeClause.2 ⟨hm', hne⟩, hh⟩
  · intro id' a b r' hm'
    obtain ⟨hm'', hne⟩ := mem_removeClause.1 hm'
    obtain ⟨h1, h2⟩ := h.complete id' a b r' hm''
    exact ⟨(removeClause_mem_watches hc h hm _ _).2 ⟨hne, h1⟩, (removeClause_mem_watches hc h hm _ _).2 ⟨hne, h2⟩⟩
  · intro i
    rw [removeClause_watches hc h hm]
    exact (h.nodup i).erase _

theorem W2.removeClause {P : Nat → Lit → Prop} (h : t.W2 P) : (t.removeClause id (l0 :: l1 :: r)).W2 P := by
  intro id' a b r' hm'
  exact h id' a b r' (mem_removeClause.1 hm').1

theorem Ent.removeClause {orig K : Cnf} (ha : t.WfA) (hc : t.WfC) (h : t.Ent orig K) (hroot : t.trailLim = [])
    (hm : (id, l0 :: l1 :: r) ∈ t.cls) {x : Lit} (hx : x ∈ l0 :: l1 :: r) (hv : t.value x = some true) :
    (t.removeClause id (l0 :: l1 :: r)).Ent orig K := by
  refine ⟨fun e he => h.clauses e (mem_removeClause.1 he).1, h.trail, h.log, h.dead, ?_⟩
  intro hd α h0 hcl hroots
  apply h.keeps hd α h0 _ hroots
  simp only [Asg.cnf, List.all_map, List.all_eq_true, Function.comp] at hcl ⊢
  intro e he
  by_cases hid : e.1 = id
  · have e2 : e.2 = l0 :: l1 :: r := mem_unique hc (by rw [← hid]; exact he) hm
    rw [e2]
    simp only [Asg.clause, List.any_eq_true]
    exact ⟨x, hx, root_true ha hroot h0 hroots hv⟩
  · exact hcl e (mem_removeClause.2 ⟨he, hid⟩)

theorem InvC.removeClause {orig K : Cnf} {m : Nat} (h : InvC orig m (fun _ _ => False) t K) (hroot : t.trailLim = [])
    (hm : (id, l0 :: l1 :: r) ∈ t.cls) {x : Lit} (hx : x ∈ l0 :: l1 :: r) (hv : t.value x = some true) :
    InvC orig m (fun _ _ => False) (t.removeClause id (l0 :: l1 :: r)) K :=
  ⟨⟨h.wf.a.removeClause hroot, h.wf.c.removeClause, h.wf.r.removeClause, h.wf.w.removeClause h.wf.c hm⟩,
    h.ent.removeClause h.wf.a h.wf.c hroot hm hx hv, h.dec, fun hd => (h.w2 hd).removeClause⟩

end

/-! ### setClause with a sub-clause that keeps the watched pair -/

section
variable {t : Sat} {id : Nat} {l0 l1 : Lit} {r r' : List Lit}

theorem WfC.setClause_sub (h : t.WfC) {c c' : Clause} (hm : (id, c) ∈ t.cls) (hlen : 2 ≤ c'.length)
    (hs : c'.Sublist c) : (t.setClause id c').WfC := by
  have hmem := fun e => @mem_setClause t h id c c' hm e
  refine ⟨?_, ?_, ?_, ?_, ?_, ?_⟩
  · intro e he
    rcases (hmem e).1 he with ⟨he, _⟩ | rfl
    · exact h.clsId e he
    · exact h.clsId (id, c) hm
  · rw [setClause_ids]; exact h.clsIdNodup
  · intro e he
    rcases (hmem e).1 he with ⟨he, _⟩ | rfl
    · exact h.clsLen e he
    · exact hlen
  · intro e he
    rcases (hmem e).1 he with ⟨he, _⟩ | rfl
    · exact h.clsNodup e he
    · exact (h.clsNodup _ hm).sublist (hs.map _)
  · intro e he
    rcases (hmem e).1 he with ⟨he, _⟩ | rfl
    · exact h.clsRange e he
    · intro l hl; exact h.clsRange _ hm l (hs.subset hl)
  · intro e he
    rcases (hmem e).1 he with ⟨he, _⟩ | rfl
    · exact h.clsVar0 e he
    · intro l hl; exact h.clsVar0 _ hm l (hs.subset hl)

theorem WfW.setClause_tail (hc : t.WfC) (h : t.WfW) (hm : (id, l0 :: l1 :: r) ∈ t.cls) :
    (t.setClause id (l0 :: l1 :: r')).WfW := by
  have hmem := fun e => @mem_setClause t hc id _ (l0 :: l1 :: r') hm e
  refine ⟨h.lenWatches, ?_, ?_, h.nodup⟩
  · intro i id' hi
    obtain ⟨a, b, r'', hm', hh⟩ := h.sound i id' hi
    by_cases hid : id' = id
    · subst hid
      have e := mem_unique hc hm hm'
      simp only [List.cons.injEq] at e
      obtain ⟨e1, e2, e3⟩ := e
      subst e1 e2 e3
      exact ⟨l0, l1, r', (hmem _).2 (Or.inr rfl), hh⟩
    · exact ⟨a, b, r'', (hmem _).2 (Or.inl ⟨hm', hid⟩), hh⟩
  · intro id' a b r'' hm'
    rcases (hmem _).1 hm' with ⟨hm'', _⟩ | e
    · exact h.complete id' a b r'' hm''
    · simp only [Prod.mk.injEq, List.cons.injEq] at e
      obtain ⟨rfl, rfl, rfl, rfl⟩ := e
      exact h.complete _ _ _ _ hm

theorem W2.setClause_tail {P : Nat → Lit → Prop} (hc : t.WfC) (h : t.W2 P) (hm : (id, l0 :: l1 :: r) ∈ t.cls) :
    (t.setClause id (l0 :: l1 :: r')).W2 P := by
  intro id' a b r'' hm'
  rcases (mem_setClause hc hm).1 hm' with ⟨hm'', _⟩ | e
  · exact h id' a b r'' hm''
  · simp only [Prod.mk.injEq, List.cons.injEq] at e
    obtain ⟨rfl, rfl, rfl, rfl⟩ := e
    exact h _ _ _ _ hm

theorem Ent.setClause_sub {orig K : Cnf} (ha : t.WfA) (hc : t.WfC) (h : t.Ent orig K) (hroot : t.trailLim = [])
    {c c' : Clause} (hm : (id, c) ∈ t.cls) (hs : ∀ l ∈ c', l ∈ c)
    (hf : ∀ l ∈ c, l ∈ c' ∨ t.value l = some false) : (t.setClause id c').Ent orig K := by
  have hmem := fun e => @mem_setClause t hc id c c' hm e
  refine ⟨?_, h.trail, h.log, h.dead, ?_⟩
  · intro e he
    rcases (hmem e).1 he with ⟨he, _⟩ | rfl
    · exact h.clauses e he
    · exact ents_drop_false ha h hroot (h.clauses _ hm) hf
  · intro hd α h0 hcl hroots
    apply h.keeps hd α h0 _ hroots
    simp only [Asg.cnf, List.all_map, List.all_eq_true, Function.comp] at hcl ⊢
    intro e he
    by_cases hid : e.1 = id
    · have := hcl (id, c') ((hmem _).2 (Or.inr rfl))
      have e2 : e.2 = c := mem_unique hc (by rw [← hid]; exact he) hm
      rw [e2]
      simp only [Asg.clause, List.any_eq_true] at this ⊢
      obtain ⟨l, hl, hv⟩ := this
      exact ⟨l, hs l hl, hv⟩
    · exact hcl e ((hmem e).2 (Or.inl ⟨he, hid⟩))

/-- a clause without true literal: both watched literals are unassigned and the compacted clause keeps them -/
theorem InvC.shrinkClause {orig K : Cnf} {m : Nat} (h : InvC orig m (fun _ _ => False) t K) (hroot : t.trailLim = [])
    (hd : t.dead = false) (hm : (id, l0 :: l1 :: r) ∈ t.cls) (hnt : ∀ x ∈ l0 :: l1 :: r, t.value x ≠ some true) :
    (l0 :: l1 :: r).filter (fun l => t.value l = none) = l0 :: l1 :: r.filter (fun l => t.value l = none) ∧
    InvC orig m (fun _ _ => False) (t.setClause id (l0 :: l1 :: r.filter (fun l => t.value l = none))) K := by
  obtain ⟨w0, w1⟩ := h.w2 hd id l0 l1 r hm
  have hv0 : t.value l0 = none := by
    cases hv : t.value l0 with
    | none => rfl
    | some b =>
      cases b with
      | true => exact absurd hv (hnt l0 (by simp))
      | false =>
        rcases w0 hv with f | ⟨ht, _⟩
        · exact f.elim
        · exact absurd ht (hnt l1 (by simp))
  have hv1 : t.value l1 = none := by
    cases hv : t.value l1 with
    | none => rfl
    | some b =>
      cases b with
      | true => exact absurd hv (hnt l1 (by simp))
      | false =>
        rcases w1 hv with f | ⟨ht, _⟩
        · exact f.elim
        · exact absurd ht (hnt l0 (by simp))
  have hfilt : (l0 :: l1 :: r).filter (fun l => t.value l = none) = l0 :: l1 :: r.filter (fun l => t.value l = none) := by
    simp [List.filter_cons, hv0, hv1]
  refine ⟨hfilt, ⟨⟨h.wf.a.setClause _ _, ?_, ?_, h.wf.w.setClause_tail h.wf.c hm⟩, ?_, h.dec,
    fun hd' => (h.w2 hd).setClause_tail h.wf.c hm⟩⟩
  · apply h.wf.c.setClause_sub hm (by simp)
    exact ((List.filter_sublist).cons_cons l1).cons_cons l0
  · apply h.wf.r.setClause h.wf.c hm
    intro l rr e hl
    exfalso
    simp only [List.cons.injEq] at e
    obtain ⟨e1, _⟩ := e
    subst e1
    exact hnt l0 (by simp) (h.wf.a.value_true.2 (Or.inl hl))
  · apply h.ent.setClause_sub h.wf.a h.wf.c hroot hm
    · intro l hl
      rw [← hfilt] at hl
      exact (List.mem_filter.1 hl).1
    · intro l hl
      rw [← hfilt]
      cases hv : t.value l with
      | none => left; exact List.mem_filter.2 ⟨hl, by simp [hv]⟩
      | some b =>
        cases b with
        | true => exact absurd hv (hnt l hl)
        | false => right; rfl

end

/-! ### the loop of `simplify_db()` -/

/-- the body of the loop over the constraints -/
def simpStep (s : Sat) (e : Nat × Clause) : Sat :=
  match simplifyClause s e.2 with
  | none => s.removeClause e.1 e.2
  | some c' => s.setClause e.1 c'

theorem simpStep_spec {orig K : Cnf} {m : Nat} {t : Sat} (h : InvC orig m (fun _ _ => False) t K)
    (hroot : t.trailLim = []) (hd : t.dead = false) {e : Nat × Clause} (hm : e ∈ t.cls) :
    InvC orig m (fun _ _ => False) (simpStep t e) K ∧ (simpStep t e).queue = t.queue ∧
      (simpStep t e).trailLim = t.trailLim ∧ (simpStep t e).dead = t.dead ∧ (simpStep t e).vals = t.vals ∧
      (simpStep t e).log = t.log ∧ (simpStep t e).exprs = t.exprs ∧
      (∀ e' ∈ (simpStep t e).cls, (e' ∈ t.cls ∧ e'.1 ≠ e.1) ∨ ∀ x ∈ e'.2, t.value x = none) ∧
      (∀ e' ∈ t.cls, e'.1 ≠ e.1 → e' ∈ (simpStep t e).cls) := by
  obtain ⟨id, c⟩ := e
  have hlen := h.wf.c.clsLen _ hm
  match c, hm, hlen with
  | [], _, hlen => simp at hlen
  | [_], _, hlen => simp at hlen
  | l0 :: l1 :: r, hm, _ =>
    by_cases hany : ∃ x ∈ l0 :: l1 :: r, t.value x = some true
    · have hs : simpStep t (id, l0 :: l1 :: r) = t.removeClause id (l0 :: l1 :: r) := by
        unfold simpStep simplifyClause
        rw [if_pos (by simpa using hany)]
      obtain ⟨x, hx, hv⟩ := hany
      rw [hs]
      refine ⟨h.removeClause hroot hm hx hv, rfl, rfl, rfl, rfl, rfl, rfl, ?_, ?_⟩
      · intro e' he'
        exact Or.inl (mem_removeClause.1 he')
      · intro e' he' hne
        exact mem_removeClause.2 ⟨he', hne⟩
    · have hs : simpStep t (id, l0 :: l1 :: r) =
          t.setClause id ((l0 :: l1 :: r).filter (fun l => t.value l = none)) := by
        unfold simpStep simplifyClause
        rw [if_neg (by simpa using hany)]
      simp only [not_exists, not_and] at hany
      obtain ⟨hfilt, hinv⟩ := h.shrinkClause hroot hd hm hany
      rw [hs, hfilt]
      refine ⟨hinv, rfl, rfl, rfl, rfl, rfl, rfl, ?_, ?_⟩
      · intro e' he'
        rcases (mem_setClause h.wf.c hm).1 he' with h1 | rfl
        · exact Or.inl h1
        · right
          intro x hx
          rw [← hfilt] at hx
          simpa using (List.mem_filter.1 hx).2
      · intro e' he' hne
        exact (mem_setClause h.wf.c hm).2 (Or.inl ⟨he', hne⟩)

theorem simpFold_spec {orig K : Cnf} {m : Nat} : ∀ (l : List (Nat × Clause)) (t : Sat),
    InvC orig m (fun _ _ => False) t K → t.trailLim = [] → t.dead = false → t.queue = [] →
    (l.map (·.1)).Nodup → (∀ e ∈ l, e ∈ t.cls) →
    InvC orig m (fun _ _ => False) (l.foldl simpStep t) K ∧ (l.foldl simpStep t).queue = [] ∧
      (l.foldl simpStep t).trailLim = [] ∧ (l.foldl simpStep t).dead = false ∧
      (l.foldl simpStep t).vals = t.vals ∧ (l.foldl simpStep t).log = t.log ∧
      (l.foldl simpStep t).exprs = t.exprs ∧
      ∀ e' ∈ (l.foldl simpStep t).cls, (e' ∈ t.cls ∧ e'.1 ∉ l.map (·.1)) ∨ ∀ x ∈ e'.2, t.value x = none
  | [], t, h, hroot, hd, hq, _, _ => by
    refine ⟨h, hq, hroot, hd, rfl, rfl, rfl, ?_⟩
    intro e' he'
    exact Or.inl ⟨he', by simp⟩
  | e :: rest, t, h, hroot, hd, hq, hnd, hsub => by
    simp only [List.map_cons, List.nodup_cons] at hnd
    obtain ⟨s1, s2, s3, s4, s5, s6, s7, s8, s9⟩ := simpStep_spec h hroot hd (hsub e (List.mem_cons_self ..))
    have hsub' : ∀ e' ∈ rest, e' ∈ (simpStep t e).cls := by
      intro e' he'
      apply s9 e' (hsub e' (List.mem_cons_of_mem _ he'))
      intro heq
      exact hnd.1 (heq ▸ List.mem_map.2 ⟨e', he', rfl⟩)
    obtain ⟨f1, f2, f3, f4, f5, f6, f7, f8⟩ :=
      simpFold_spec rest (simpStep t e) s1 (s3.trans hroot) (s4.trans hd) (s2.trans hq) hnd.2 hsub'
    rw [List.foldl_cons]
    refine ⟨f1, f2, f3, f4, f5.trans s5, f6.trans s6, f7.trans s7, ?_⟩
    have hval : ∀ x, (simpStep t e).value x = t.value x := fun x => value_congr (by rw [s5])
    intro e' he'
    rcases f8 e' he' with ⟨g1, g2⟩ | g
    · rcases s8 e' g1 with ⟨k1, k2⟩ | k
      · left
        refine ⟨k1, ?_⟩
        simp only [List.map_cons, List.mem_cons, not_or]
        exact ⟨k2, g2⟩
      · exact Or.inr k
    · right
      intro x hx
      rw [← hval]; exact g x hx

/-- `simplify_db()` at root level -/
theorem simplifyDb_spec {orig : Cnf} {m : Nat} {s : Sat} (h : InvC orig m (fun _ x => x ∈ s.queue) s)
    (hroot : s.trailLim = []) (hd : s.dead = false) (fuel : Nat) (b : Bool) (s' : Sat)
    (he : s.simplifyDb fuel = some (b, s')) :
    InvC orig m (fun _ x => x ∈ s'.queue) s' ∧ s'.queue = [] ∧ s'.trailLim = [] ∧ s'.dead = (!b) ∧
      s.log <+: s'.log ∧ s'.vals.length = s.vals.length ∧ s'.exprs = s.exprs ∧
      (b = true → ∀ e ∈ s'.cls, ∀ l ∈ e.2, s'.value l = none) := by
  unfold simplifyDb at he
  cases hp : s.propagate fuel with
  | none => rw [hp] at he; cases he
  | some p =>
    obtain ⟨b1, s1⟩ := p
    obtain ⟨p1, p2, p3, p4, p5⟩ := propagate_spec fuel s h hd b1 s1 hp
    have hroot1 : s1.trailLim = [] := by
      have h1 : s.decisions = [] := by
        have := h.wf.a.decLen; rw [hroot] at this; simpa using this
      have h2 : s1.decisions = [] := by
        have := p5.decs; rw [h1] at this; simpa using this
      have := p1.wf.a.decLen; rw [h2] at this
      exact List.eq_nil_of_length_eq_zero this.symm
    rw [hp] at he
    cases b1 with
    | false =>
      simp only [Option.some.injEq, Prod.mk.injEq] at he
      obtain ⟨rfl, rfl⟩ := he
      exact ⟨p1, p2, hroot1, p3, p5.log, p5.lenVals, p5.exprs, fun e => by cases e⟩
    | true =>
      simp only [Option.some.injEq, Prod.mk.injEq] at he
      obtain ⟨rfl, he2⟩ := he
      have he3 : s' = s1.cls.foldl simpStep s1 := he2.symm
      subst he3
      have hd1 : s1.dead = false := by simpa using p3
      have p1' : InvC orig m (fun _ _ => False) s1 :=
        ⟨p1.wf, p1.ent, p1.dec, fun hd' => (p1.w2 hd').mono (fun _ x hx => by rw [p2] at hx; cases hx)⟩
      obtain ⟨f1, f2, f3, f4, f5, f6, f7, f8⟩ :=
        simpFold_spec s1.cls s1 p1' hroot1 hd1 p2 p1.wf.c.clsIdNodup (fun e he => he)
      refine ⟨⟨f1.wf, f1.ent, f1.dec, fun hd' => (f1.w2 hd').mono (fun _ _ hx => hx.elim)⟩, f2, f3, by simpa using f4,
        ?_, ?_, ?_, ?_⟩
      · rw [f6]; exact p5.log
      · rw [f5]; exact p5.lenVals
      · rw [f7]; exact p5.exprs
      · intro _ e he l hl
        rw [value_congr (s := s1) (by rw [f5])]
        rcases f8 e he with ⟨g1, g2⟩ | g
        · exact absurd (List.mem_map.2 ⟨e, g1, rfl⟩) g2
        · exact g l hl

end Sat
end Oratio
