/-
C09X, part 11: `new_var(lin)` keeps `ValsOK`: the value given to the new slack variable
(`value(lin)`) is exact, so the current assignment still solves the tableau.
-/
import OratioProofs.Lemmas.LraExplInv

namespace Oratio
namespace Lra
open IR Lin

/-- the fold of `value(lin)` is exact on finite values -/
theorem valueLin_fold (u : Lra) (hfin : ∀ x, IR.Fin (u.value x)) :
    ∀ (vars : List (Nat × R)), CoefWF vars → ∀ acc : IR, IR.Fin acc →
      IR.Fin (vars.foldl (fun b e => IR.addAssign b (IR.mulR (u.value e.1) e.2)) acc) ∧
      IR.val (vars.foldl (fun b e => IR.addAssign b (IR.mulR (u.value e.1) e.2)) acc) =
        IR.val acc + sumQ (fun x => IR.val (u.value x)) vars := by
  intro vars
  induction vars with
  | nil => intro _ acc ha; exact ⟨ha, by rw [sumQ_nil, add_zero]; rfl⟩
  | cons p rest ih =>
    obtain ⟨k, c⟩ := p
    intro hw acc ha
    have hc : R.FinWF c := hw (k, c) List.mem_cons_self
    obtain ⟨t1, t2⟩ := fin_mulR hc (hfin k)
    obtain ⟨a1, a2⟩ := fin_addAssign ha t1
    obtain ⟨r1, r2⟩ := ih (fun q hq => hw q (List.mem_cons_of_mem _ hq)) _ a1
    rw [List.foldl_cons]
    refine ⟨r1, ?_⟩
    rw [r2, a2, t2, sumQ_cons, add_assoc]

theorem valueLin_spec (u : Lra) (hfin : ∀ x, IR.Fin (u.value x)) {l : Lin} (hl : l.WF) :
    IR.Fin (u.valueLin l) ∧
    IR.val (u.valueLin l) = toLex (Lin.evalS l u.ratAssign, Lin.evalS { l with known := R.zero } u.infAssign) := by
  obtain ⟨_, lw, lk⟩ := (wf_iff l).1 hl
  obtain ⟨f0, v0⟩ := fin_ofR lk
  obtain ⟨r1, r2⟩ := valueLin_fold u hfin l.vars lw _ f0
  refine ⟨r1, ?_⟩
  unfold valueLin
  rw [r2, v0, ← evalQ_nu, add_comm]
  rfl

/-- the values after `new_var(lin)` creates a slack variable -/
theorem newVarLin_vals {s : Sat} {t : Lra} {l : Lin} {slack : Nat} {t1 : Lra}
    (h : newVarLin s t l = some (slack, t1)) :
    t1.vals = t.vals ∨
    ∃ u : Lra, u.vals = t.vals ++ [IR.ofR R.zero] ∧
      t1.vals = u.vals.set t.vals.length (u.valueLin (substBasic t l)) := by
  unfold newVarLin at h
  split at h
  · cases h
  · simp only [] at h
    split at h
    · cases h; exact Or.inl rfl
    · split at h
      · cases h; exact Or.inl rfl
      · split at h
        · cases h
        · cases h
          right
          refine ⟨_, ?_, (newRow_vals _ _ _).trans rfl⟩
          rfl

theorem sumS_congr {σ τ : Nat → Rat} {m : List (Nat × R)} (h : ∀ p ∈ m, σ p.1 = τ p.1) : sumS σ m = sumS τ m := by
  induction m with
  | nil => rfl
  | cons a m ih =>
    obtain ⟨k, c⟩ := a
    rw [sumS_cons, sumS_cons, h (k, c) List.mem_cons_self, ih (fun p hp => h p (List.mem_cons_of_mem _ hp))]

/-- `new_var(lin)` on a canonical expression over existing variables keeps `ValsOK` -/
theorem valsOK_newVarLin {s : Sat} {t : Lra} (ht : TabWF t) (hv : ValsOK t) {l : Lin} (hl : l.WF)
    (hlv : ∀ p ∈ l.vars, p.1 < t.vals.length) {slack : Nat} {t1 : Lra}
    (h : newVarLin s t l = some (slack, t1)) : ValsOK t1 := by
  rcases newVarLin_sound ht hl hlv h with ⟨h1, _, h3⟩ | ⟨hs, hlen, _, _, hfw, _⟩
  · exact valsOK_congr h3 h1 hv
  rcases newVarLin_vals h with hvals | ⟨u, hu, hvals⟩
  · -- impossible: the number of values grew
    rw [hvals] at hlen; omega
  -- the values of the old variables are unchanged, the slack gets `value(lin)`
  have huval : ∀ x, u.value x = t.value x := by
    intro x
    unfold Lra.value
    rw [hu]
    by_cases hx : x < t.vals.length
    · exact getD_append_left _ _ _ _ hx
    · have h' : t.vals.length ≤ x := Nat.le_of_not_lt hx
      rw [List.getD_eq_getElem?_getD, List.getD_eq_getElem?_getD, List.getElem?_append_right h',
        List.getElem?_eq_none h']
      cases hvx : x - t.vals.length with
      | zero => rfl
      | succ n => rfl
  have hufin : ∀ x, IR.Fin (u.value x) := fun x => by rw [huval]; exact hv.1 x
  have hura : u.ratAssign = t.ratAssign := by funext x; unfold ratAssign; rw [huval]
  have huia : u.infAssign = t.infAssign := by funext x; unfold infAssign; rw [huval]
  have hewf : (substBasic t l).WF := (substBasic_holds ht.rows hl).1
  obtain ⟨vf, vv⟩ := valueLin_spec u hufin hewf
  rw [hura, huia] at vv
  have hval : ∀ x, t1.value x = if x = t.vals.length then u.valueLin (substBasic t l) else t.value x := by
    intro x
    unfold Lra.value
    rw [hvals, getD_set]
    by_cases hx : x = t.vals.length
    · rw [if_pos ⟨hx.symm, by rw [hu, List.length_append]; simp⟩, if_pos hx]
    · rw [if_neg (fun hh => hx hh.1.symm), if_neg hx]
      exact huval x
  -- components of the new value
  have hvr : (u.valueLin (substBasic t l)).rat.toRat = Lin.evalS (substBasic t l) t.ratAssign := by
    have := congrArg (fun q => (ofLex q).1) vv
    exact this
  have hvi : (u.valueLin (substBasic t l)).inf.toRat =
      Lin.evalS { substBasic t l with known := R.zero } t.infAssign := by
    have := congrArg (fun q => (ofLex q).2) vv
    exact this
  obtain ⟨er, hr1⟩ := hfw t.ratAssign hv.2.1
  have hsum : ∀ e ∈ t.tableau, (fun x => t.ratAssign x + t.infAssign x) e.1 =
      Lin.evalS e.2 (fun x => t.ratAssign x + t.infAssign x) := ((solves_iff_rows _ _ _).1 hv.2).2
  obtain ⟨ei, hi1⟩ := hfw (fun x => t.ratAssign x + t.infAssign x) hsum
  have hra : t1.ratAssign = Function.update t.ratAssign slack (Lin.evalS l t.ratAssign) := by
    funext x
    show (t1.value x).rat.toRat = _
    rw [hval, hs]
    by_cases hx : x = t.vals.length
    · rw [if_pos hx, hx, Function.update_self, hvr, er]
    · rw [if_neg hx, Function.update_of_ne hx]
      rfl
  have hsumA : (fun x => t1.ratAssign x + t1.infAssign x) =
      Function.update (fun x => t.ratAssign x + t.infAssign x) slack
        (Lin.evalS l (fun x => t.ratAssign x + t.infAssign x)) := by
    funext x
    show (t1.value x).rat.toRat + (t1.value x).inf.toRat = _
    rw [hval, hs]
    by_cases hx : x = t.vals.length
    · rw [if_pos hx, hx, Function.update_self, hvr, hvi, ← ei, evalS_add_homog]
    · rw [if_neg hx, Function.update_of_ne hx]
      rfl
  refine ⟨fun x => ?_, (solves_iff_rows _ _ _).2 ⟨?_, ?_⟩⟩
  · rw [hval]
    split
    · exact vf
    · exact hv.1 x
  · intro e he
    have := hr1 e he
    rw [← hra] at this
    exact this
  · intro e he
    have := hi1 e he
    rw [← hsumA] at this
    exact this


/-! ### the bounds of the new slack variable -/

theorem R_addAssign_ninf (a : R) : R.addAssign a R.ninf = R.ninf := by
  unfold R.addAssign; simp [R.ninf, R.isInfinite]

theorem R_ninf_addAssign_fin {b : R} (hb : R.FinWF b) : R.addAssign R.ninf b = R.ninf := by
  have : b.den ≠ 0 := hb.2
  unfold R.addAssign; simp [R.ninf, R.isInfinite, this]

theorem R_mul_inf_sign {a c : R} (ha : a = R.ninf ∨ a = R.pinf) (hc : R.FinWF c) (_hn : c.num ≠ 0) :
    R.mul a c = if (a = R.ninf ∧ 0 < c.num) ∨ (a = R.pinf ∧ c.num < 0) then R.ninf else R.pinf := by
  have haw : a.WF := by rcases ha with rfl | rfl <;> decide
  rw [R.mul_inf haw hc.1 (Or.inl (by rcases ha with rfl | rfl <;> rfl))]
  rcases ha with rfl | rfl
  · by_cases hp : 0 < c.num
    · have : R.infSign R.ninf.num c.num ≠ 1 := by
        unfold R.infSign
        have h1 : ¬ c.num ≤ 0 := by omega
        simp [R.ninf, h1]
      rw [if_neg this, if_pos (Or.inl ⟨rfl, hp⟩)]
    · have h1 : c.num ≤ 0 := by omega
      have : R.infSign R.ninf.num c.num = 1 := by
        unfold R.infSign
        simp [R.ninf, h1]
      rw [if_pos this, if_neg]
      rintro (⟨_, h⟩ | ⟨h, _⟩)
      · exact hp h
      · cases h
  · by_cases hp : c.num < 0
    · have : R.infSign R.pinf.num c.num ≠ 1 := by
        unfold R.infSign
        have h1 : ¬ 0 ≤ c.num := by omega
        simp [R.pinf, h1]
      rw [if_neg this, if_pos (Or.inr ⟨rfl, hp⟩)]
    · have h1 : 0 ≤ c.num := by omega
      have : R.infSign R.pinf.num c.num = 1 := by
        unfold R.infSign
        simp [R.pinf, h1]
      rw [if_pos this, if_neg]
      rintro (⟨h, _⟩ | ⟨_, h⟩)
      · cases h
      · exact hp h

/-- a term of the lower sum is finite or `-∞` -/
def TermOkL (x : IR) : Prop := IR.Fin x ∨ x.rat = R.ninf

theorem lb_acc_step {s0 term : IR} (h0 : LbOk s0) (ht : TermOkL term) : LbOk (IR.addAssign s0 term) := by
  rcases ht with ht | ht
  · rcases h0 with h0 | h0
    · exact Or.inl (fin_addAssign h0 ht).1
    · right
      show R.addAssign s0.rat term.rat = R.ninf
      rw [h0]; exact R_ninf_addAssign_fin ht.1
  · right
    show R.addAssign s0.rat term.rat = R.ninf
    rw [ht]; exact R_addAssign_ninf _

theorem ub_acc_step' {s0 term : IR} (h0 : UbOk s0) (ht : TermOk term) : UbOk (IR.addAssign s0 term) :=
  (ub_acc_step h0 ht).1

/-- the terms of `lb(lin)` / `ub(lin)` for a non-zero coefficient -/
theorem lbLin_term {u : Lra} (hb : BoundsOK u) {x : Nat} {c : R} (hc : R.FinWF c) (hn : c.num ≠ 0) :
    TermOkL (IR.mulR (if c.isPositive then u.lb x else u.ub x) c) := by
  by_cases hp : c.isPositive = true
  · rw [if_pos hp]
    rcases (hb x).1 with h | h
    · exact Or.inl (fin_mulR hc h).1
    · right
      show R.mul (u.lb x).rat c = R.ninf
      rw [h, R_mul_inf_sign (Or.inl rfl) hc hn, if_pos (Or.inl ⟨rfl, by simpa [R.isPositive] using hp⟩)]
  · rw [if_neg hp]
    have hneg : c.num < 0 := by
      have : ¬ 0 < c.num := by simpa [R.isPositive] using hp
      omega
    rcases (hb x).2 with h | h
    · exact Or.inl (fin_mulR hc h).1
    · right
      show R.mul (u.ub x).rat c = R.ninf
      rw [h, R_mul_inf_sign (Or.inr rfl) hc hn, if_pos (Or.inr ⟨rfl, hneg⟩)]

theorem ubLin_term {u : Lra} (hb : BoundsOK u) {x : Nat} {c : R} (hc : R.FinWF c) (hn : c.num ≠ 0) :
    TermOk (IR.mulR (if c.isPositive then u.ub x else u.lb x) c) := by
  by_cases hp : c.isPositive = true
  · rw [if_pos hp]
    have hpos : 0 < c.num := by simpa [R.isPositive] using hp
    rcases (hb x).2 with h | h
    · exact Or.inl (fin_mulR hc h).1
    · right
      show R.mul (u.ub x).rat c = R.pinf
      rw [h, R_mul_inf_sign (Or.inr rfl) hc hn, if_neg]
      rintro (⟨h', _⟩ | ⟨_, h'⟩)
      · cases h'
      · omega
  · rw [if_neg hp]
    have hneg : c.num < 0 := by
      have : ¬ 0 < c.num := by simpa [R.isPositive] using hp
      omega
    rcases (hb x).1 with h | h
    · exact Or.inl (fin_mulR hc h).1
    · right
      show R.mul (u.lb x).rat c = R.pinf
      rw [h, R_mul_inf_sign (Or.inl rfl) hc hn, if_neg]
      rintro (⟨_, h'⟩ | ⟨h', _⟩)
      · omega
      · cases h'

theorem lbLin_ok {u : Lra} (hb : BoundsOK u) {l : Lin} (hl : l.WF) (hnz : ∀ p ∈ l.vars, p.2.num ≠ 0) :
    LbOk (u.lbLin l) := by
  obtain ⟨_, lw, lk⟩ := (wf_iff l).1 hl
  unfold lbLin
  have key : ∀ (vars : List (Nat × R)), CoefWF vars → (∀ p ∈ vars, p.2.num ≠ 0) → ∀ acc, LbOk acc →
      LbOk (vars.foldl (fun b e => IR.addAssign b (IR.mulR (if e.2.isPositive then u.lb e.1 else u.ub e.1) e.2)) acc) := by
    intro vars
    induction vars with
    | nil => intro _ _ acc h; exact h
    | cons p rest ih =>
      intro hw hn acc h
      rw [List.foldl_cons]
      exact ih (fun q hq => hw q (List.mem_cons_of_mem _ hq)) (fun q hq => hn q (List.mem_cons_of_mem _ hq)) _
        (lb_acc_step h (lbLin_term hb (hw p List.mem_cons_self) (hn p List.mem_cons_self)))
  exact key l.vars lw hnz _ (Or.inl (fin_ofR lk).1)

theorem ubLin_ok {u : Lra} (hb : BoundsOK u) {l : Lin} (hl : l.WF) (hnz : ∀ p ∈ l.vars, p.2.num ≠ 0) :
    UbOk (u.ubLin l) := by
  obtain ⟨_, lw, lk⟩ := (wf_iff l).1 hl
  unfold ubLin
  have key : ∀ (vars : List (Nat × R)), CoefWF vars → (∀ p ∈ vars, p.2.num ≠ 0) → ∀ acc, UbOk acc →
      UbOk (vars.foldl (fun b e => IR.addAssign b (IR.mulR (if e.2.isPositive then u.ub e.1 else u.lb e.1) e.2)) acc) := by
    intro vars
    induction vars with
    | nil => intro _ _ acc h; exact h
    | cons p rest ih =>
      intro hw hn acc h
      rw [List.foldl_cons]
      exact ih (fun q hq => hw q (List.mem_cons_of_mem _ hq)) (fun q hq => hn q (List.mem_cons_of_mem _ hq)) _
        (ub_acc_step' h (ubLin_term hb (hw p List.mem_cons_self) (hn p List.mem_cons_self)))
  exact key l.vars lw hnz _ (Or.inl (fin_ofR lk).1)

/-- writing a well-formed bound keeps `BoundsOK` -/
theorem boundsOK_setLb {t : Lra} (hb : BoundsOK t) (x : Nat) {v : IR} (hv : LbOk v) (r : Lit) :
    BoundsOK (t.setBound (lbIdx x) ⟨v, r⟩) := by
  intro y
  constructor
  · unfold Lra.lb Lra.bnd
    show LbOk ((t.bounds.set _ _).getD _ _).value
    rw [getD_set]
    split
    · exact hv
    · exact (hb y).1
  · unfold Lra.ub Lra.bnd
    show UbOk ((t.bounds.set _ _).getD _ _).value
    rw [getD_set, if_neg (by unfold lbIdx ubIdx; omega)]
    exact (hb y).2

theorem boundsOK_setUb {t : Lra} (hb : BoundsOK t) (x : Nat) {v : IR} (hv : UbOk v) (r : Lit) :
    BoundsOK (t.setBound (ubIdx x) ⟨v, r⟩) := by
  intro y
  constructor
  · unfold Lra.lb Lra.bnd
    show LbOk ((t.bounds.set _ _).getD _ _).value
    rw [getD_set, if_neg (by unfold lbIdx ubIdx; omega)]
    exact (hb y).1
  · unfold Lra.ub Lra.bnd
    show UbOk ((t.bounds.set _ _).getD _ _).value
    rw [getD_set]
    split
    · exact hv
    · exact (hb y).2

/-- the bounds after `new_var(lin)` creates a slack variable -/
theorem newVarLin_bounds {s : Sat} {t : Lra} {l : Lin} {slack : Nat} {t1 : Lra}
    (h : newVarLin s t l = some (slack, t1)) :
    t1.bounds = t.bounds ∨
    ∃ u : Lra, u.bounds = t.newVar.2.bounds ∧
      t1.bounds = ((u.setBound (lbIdx t.vals.length) ⟨u.lbLin (substBasic t l), Lit.trueLit⟩).setBound
        (ubIdx t.vals.length)
        ⟨(u.setBound (lbIdx t.vals.length) ⟨u.lbLin (substBasic t l), Lit.trueLit⟩).ubLin (substBasic t l),
          Lit.trueLit⟩).bounds := by
  unfold newVarLin at h
  split at h
  · cases h
  · simp only [] at h
    split at h
    · cases h; exact Or.inl rfl
    · split at h
      · cases h; exact Or.inl rfl
      · split at h
        · cases h
        · cases h
          right
          refine ⟨_, ?_, (newRow_bounds _ _ _).trans rfl⟩
          rfl

/-- `new_var(lin)` keeps the invariants when the rewritten expression has no zero coefficient -/
theorem explInv_newVarLin {s : Sat} {t : Lra} (inv : ExplInv t) {l : Lin} (hl : l.WF)
    (hlv : ∀ p ∈ l.vars, p.1 < t.vals.length) (hnz : ∀ p ∈ (substBasic t l).vars, p.2.num ≠ 0)
    {slack : Nat} {t1 : Lra} (h : newVarLin s t l = some (slack, t1)) : ExplInv t1 := by
  obtain ⟨_, hva, _, _, _, hcase⟩ := newVarLin_spec h
  have htab := tabWF_newVarLin inv.tab hl hlv h
  have hasrt : ∀ k, t1.asrtOf k = t.asrtOf k := fun k => by unfold Lra.asrtOf; rw [hva]
  have hewf : (substBasic t l).WF := (substBasic_holds inv.tab.rows hl).1
  rcases hcase with ⟨hb, hv, haw, _⟩ | ⟨hs, ⟨b0, b1, b2, b3, hbs⟩, ⟨x0, x1, hvs⟩, haw⟩
  · refine ⟨htab, boundsOK_congr hb inv.bok, ?_, ?_, ?_⟩
    · unfold BoundsLen; rw [hb, hv]; exact inv.blen
    · unfold AsrtOK; rw [hva]; exact inv.aok
    · intro x k hk a hka
      rw [haw] at hk
      rw [hasrt] at hka
      exact inv.awatch x k hk a hka
  · refine ⟨htab, ?_, ?_, ?_, ?_⟩
    · rcases newVarLin_bounds h with hb | ⟨u, hu, hb⟩
      · exfalso
        have h1 := congrArg List.length hb
        rw [hbs, List.length_set, List.length_set, List.length_append] at h1
        simp at h1
      · have hbu : BoundsOK u := boundsOK_congr hu (explInv_newVar inv).bok
        have hb1 := boundsOK_setLb hbu t.vals.length (lbLin_ok hbu hewf hnz) Lit.trueLit
        have hb2 := boundsOK_setUb hb1 t.vals.length (ubLin_ok hb1 hewf hnz) Lit.trueLit
        exact boundsOK_congr hb hb2
    · have hl' := inv.blen
      unfold BoundsLen at hl' ⊢
      rw [hbs, hvs, List.length_set, List.length_set, List.length_set, List.length_append, List.length_append, hl']
      rfl
    · unfold AsrtOK; rw [hva]; exact inv.aok
    · intro x k hk a hka
      rw [haw, getD_append_nil] at hk
      rw [hasrt] at hka
      exact inv.awatch x k hk a hka

end Lra
end Oratio
