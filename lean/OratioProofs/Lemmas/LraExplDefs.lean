/-
Definitions for property C09X (`Properties/C09Explain.lean`): the explanations of the
linear-arithmetic theory are theory lemmas.

Semantics.  A valuation is a pair `σr σi : Nat → Rat`; the value of `x` is the ε-rational
`Lra.nu σr σi x = σr x + σi x·ε : QV` (`QV = Lex (ℚ × ℚ)`, Lemmas/DlRdlArith.lean).  A bound is an
`inf_rational` `b : IR` that is finite (`IR.Fin`: both parts canonical and finite, denoting
`IR.val b : QV`) or infinite (`b.rat.den = 0`; `-∞` when the numerator is negative, `+∞` when it
is positive).
-/
import OratioModel
import OratioProofs.Lemmas.DlRdlArith
import OratioProofs.Lemmas.LraBridgeCheck

namespace Oratio
namespace Lra

/-- the value of `x` under the valuation `(σr, σi)`: `σr x + σi x·ε` -/
def nu (σr σi : Nat → Rat) (x : Nat) : QV := toLex (σr x, σi x)

/-- `b ≤ v` for a bound `b`: `-∞ ≤` everything, `+∞ ≤` nothing, finite bounds lexicographically -/
def BLe (b : IR) (v : QV) : Prop := if b.rat.den = 0 then b.rat.num < 0 else IR.val b ≤ v

/-- `v ≤ b` for a bound `b`: everything `≤ +∞`, nothing `≤ -∞`, finite bounds lexicographically -/
def VLe (v : QV) (b : IR) : Prop := if b.rat.den = 0 then 0 < b.rat.num else v ≤ IR.val b

/-- `(σr, σi)` solves the tableau: the rational parts satisfy every row, the infinitesimal parts
    satisfy every row without its known term (the two conditions of `C09B_update_keeps_rows` and
    `C09B_update_keeps_rows_inf`) -/
def Solves (t : Lra) (σr σi : Nat → Rat) : Prop :=
  (∀ e ∈ t.tableau, σr e.1 = Lin.evalS e.2 σr) ∧
  (∀ e ∈ t.tableau, σi e.1 = Lin.evalS { e.2 with known := R.zero } σi)

/-- every bound whose reason is true under `α` holds of the valuation.  (Variables are those that
    have their two bounds in `c_bounds`: the default a missing entry reads as is not a bound.) -/
def BoundsJust (α : Asg) (σr σi : Nat → Rat) (t : Lra) : Prop :=
  ∀ x, ubIdx x < t.bounds.length →
    (α.lit (t.lbReason x) = true → BLe (t.lb x) (nu σr σi x)) ∧
    (α.lit (t.ubReason x) = true → VLe (nu σr σi x) (t.ub x))

/-- the meaning of the assertion literals: a true literal is the assertion `x ≤ v` / `x ≥ v`, a
    false one its ε-shifted negation `x ≥ v + ε` / `x ≤ v − ε` (what `propagate` asserts) -/
def AsrtAgrees (α : Asg) (σr σi : Nat → Rat) (t : Lra) : Prop :=
  ∀ e ∈ t.vAsrts,
    match e.2.o with
    | .leq => (α.lit e.2.b = true → nu σr σi e.2.x ≤ IR.val e.2.v) ∧
              (α.lit e.2.b = false → IR.val e.2.v + QV.eps ≤ nu σr σi e.2.x)
    | .geq => (α.lit e.2.b = true → IR.val e.2.v ≤ nu σr σi e.2.x) ∧
              (α.lit e.2.b = false → nu σr σi e.2.x ≤ IR.val e.2.v - QV.eps)

/-! ## invariants -/

/-- a lower bound is finite or `-∞` (whatever ε part an infinite bound carries) -/
def LbOk (b : IR) : Prop := IR.Fin b ∨ b.rat = R.ninf
/-- an upper bound is finite or `+∞` -/
def UbOk (b : IR) : Prop := IR.Fin b ∨ b.rat = R.pinf

/-- every lower bound is finite or `-∞`, every upper bound finite or `+∞` -/
def BoundsOK (t : Lra) : Prop := ∀ x, LbOk (t.lb x) ∧ UbOk (t.ub x)

/-- two bounds per variable -/
def BoundsLen (t : Lra) : Prop := t.bounds.length = 2 * t.vals.length

/-- the current assignment: every value is finite and canonical, and the values solve the tableau -/
def ValsOK (t : Lra) : Prop := (∀ x, IR.Fin (t.value x)) ∧ Solves t t.ratAssign t.infAssign

/-- the values of the assertions are finite and canonical -/
def AsrtOK (t : Lra) : Prop := ∀ e ∈ t.vAsrts, IR.Fin e.2.v

/-- an assertion in `a_watches[x]` is an assertion on `x` -/
def AWatchOK (t : Lra) : Prop := ∀ x, ∀ b ∈ t.aWatches.getD x [], ∀ a, t.asrtOf b = some a → a.x = x

/-- the registry `v_asrts`: the assertion registered for the SAT variable `b` is controlled by
    the positive literal of `b` (what `new_lt … new_gt` build) -/
def AsrtKey (t : Lra) : Prop := ∀ e ∈ t.vAsrts, e.2.b = ⟨e.1, true⟩

/-- every assertion is on an existing variable -/
def AsrtVars (t : Lra) : Prop := ∀ e ∈ t.vAsrts, e.2.x < t.vals.length

/-- the invariants of the theory state the explanation theorems need -/
structure ExplInv (t : Lra) : Prop where
  tab : TabWF t
  bok : BoundsOK t
  blen : BoundsLen t
  aok : AsrtOK t
  awatch : AWatchOK t

/-- the reason of every bound is true in the SAT state -/
def ReasonsTrue (s : Sat) (t : Lra) : Prop :=
  ∀ x, s.value (t.lbReason x) = some true ∧ s.value (t.ubReason x) = some true

/-- every non-basic variable is within its bounds -/
def NonbasicInBounds (t : Lra) : Prop :=
  ∀ x, t.isBasic x = false → IR.lt (t.value x) (t.lb x) = false ∧ IR.gt (t.value x) (t.ub x) = false

/-- a clause is a theory lemma relative to the state `t`: true under every boolean assignment
    whose true bound reasons and assertion literals hold of a solution of the tableau -/
def Lemma (t : Lra) (cl : List Lit) : Prop :=
  ∀ (α : Asg) (σr σi : Nat → Rat), Solves t σr σi → BoundsJust α σr σi t → AsrtAgrees α σr σi t →
    α.clause cl = true

end Lra
end Oratio
