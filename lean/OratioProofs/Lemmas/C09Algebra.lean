/-
Helper definitions and lemmas for property C09 (algebra of the general simplex of `lra_theory`).
See `OratioProofs/Properties/C09Algebra.lean` for the statements that matter.
-/
import Mathlib.Data.Finsupp.Basic
import Mathlib.Algebra.Order.Field.Rat
import Mathlib.Data.Prod.Lex
import Mathlib.Algebra.Order.Monoid.Prod
import Mathlib.Algebra.Order.Group.Synonym
import Mathlib.Algebra.Order.Module.Synonym
import Mathlib.Algebra.Order.Module.Defs
import Mathlib.Algebra.Module.Prod
import Mathlib.Algebra.BigOperators.Finsupp.Basic
import Mathlib.Algebra.Order.BigOperators.Group.Finset
import Mathlib.Data.Finsupp.SMul
import Mathlib.Tactic.Module
import Mathlib.Tactic.Abel
import Mathlib.Tactic.Linarith

namespace Oratio.C09A

noncomputable section

/-- Variables are natural numbers (the implementation uses `size_t`). -/
abbrev Var := Nat

/-- Values `q + e·ε`: pairs of rationals ordered lexicographically, componentwise addition, componentwise
multiplication by a rational (`inf_rational`). -/
abbrev Val := Lex (ℚ × ℚ)

/-- The value `q + 0·ε`. -/
def Val.ofRat (q : ℚ) : Val := toLex (q, 0)

theorem Val.smul_ofRat (c q : ℚ) : c • Val.ofRat q = Val.ofRat (c * q) := by
  show toLex (c • ((q, 0) : ℚ × ℚ)) = toLex (c * q, 0)
  simp

theorem Val.ofRat_add (p q : ℚ) : Val.ofRat (p + q) = Val.ofRat p + Val.ofRat q := by
  show toLex (p + q, (0 : ℚ)) = toLex ((p, 0) + (q, 0))
  simp

/-! Computing with concrete values (used by the non-vacuity examples). -/

theorem Val.mk_add_mk (a b c d : ℚ) : (toLex (a, b) : Val) + toLex (c, d) = toLex (a + c, b + d) := rfl

theorem Val.mk_sub_mk (a b c d : ℚ) : (toLex (a, b) : Val) - toLex (c, d) = toLex (a - c, b - d) := rfl

theorem Val.neg_mk (a b : ℚ) : -(toLex (a, b) : Val) = toLex (-a, -b) := rfl

theorem Val.smul_mk (c a b : ℚ) : c • (toLex (a, b) : Val) = toLex (c * a, c * b) := rfl

theorem Val.mk_eq_mk (a b c d : ℚ) : (toLex (a, b) : Val) = toLex (c, d) ↔ a = c ∧ b = d := by
  rw [toLex_inj, Prod.mk.injEq]

theorem Val.mk_lt_mk (a b c d : ℚ) : (toLex (a, b) : Val) < toLex (c, d) ↔ a < c ∨ a = c ∧ b < d :=
  Prod.Lex.toLex_lt_toLex

theorem Val.mk_le_mk (a b c d : ℚ) : (toLex (a, b) : Val) ≤ toLex (c, d) ↔ a < c ∨ a = c ∧ b ≤ d :=
  Prod.Lex.toLex_le_toLex

/-- Multiplying by a positive rational is strictly monotone for the lexicographic order. -/
instance : PosSMulStrictMono ℚ Val where
  smul_lt_smul_of_pos_left c hc a b hab := by
    rw [Prod.Lex.lt_iff] at hab ⊢
    simp only [ofLex_smul, Prod.smul_fst, Prod.smul_snd, smul_eq_mul]
    rcases hab with h | ⟨h1, h2⟩
    · exact Or.inl (mul_lt_mul_of_pos_left h hc)
    · exact Or.inr ⟨by rw [h1], mul_lt_mul_of_pos_left h2 hc⟩

instance : PosSMulMono ℚ Val := PosSMulStrictMono.toPosSMulMono

theorem Val.smul_le_smul_of_nonpos {c : ℚ} (hc : c ≤ 0) {a b : Val} (hab : a ≤ b) : c • b ≤ c • a := by
  have h := smul_le_smul_of_nonneg_left hab (neg_nonneg.mpr hc)
  rw [neg_smul, neg_smul] at h
  exact neg_le_neg_iff.mp h

/-! ### Linear part of a row -/

/-- `Σ c_v · ν(v)` over the support of `c`. -/
def lin (c : Var →₀ ℚ) (ν : Var → Val) : Val := c.sum fun v a => a • ν v

theorem lin_zero (ν : Var → Val) : lin 0 ν = 0 := by simp [lin]

theorem lin_add (c d : Var →₀ ℚ) (ν : Var → Val) : lin (c + d) ν = lin c ν + lin d ν := by
  unfold lin
  exact Finsupp.sum_add_index' (fun _ => zero_smul _ _) (fun _ _ _ => add_smul _ _ _)

theorem lin_single (x : Var) (a : ℚ) (ν : Var → Val) : lin (Finsupp.single x a) ν = a • ν x := by
  unfold lin
  exact Finsupp.sum_single_index (zero_smul _ _)

theorem lin_smul (b : ℚ) (c : Var →₀ ℚ) (ν : Var → Val) : lin (b • c) ν = b • lin c ν := by
  unfold lin
  rw [Finsupp.sum_smul_index' (h := fun v a => a • ν v) (fun _ => zero_smul _ _)]
  unfold Finsupp.sum
  rw [Finset.smul_sum]
  simp [smul_smul]

theorem lin_erase (x : Var) (c : Var →₀ ℚ) (ν : Var → Val) : lin (c.erase x) ν = lin c ν - c x • ν x := by
  have h := congrArg (fun d => lin d ν) (Finsupp.single_add_erase x c)
  simp only [lin_add, lin_single] at h
  rw [← h]; abel

/-- If `ν'` and `ν` agree on the support of `c` except possibly at `y`, the linear parts differ by
`c y · (ν' y − ν y)`. -/
theorem lin_change (c : Var →₀ ℚ) (y : Var) (ν ν' : Var → Val)
    (h : ∀ w, c w ≠ 0 → w ≠ y → ν' w = ν w) : lin c ν' = lin c ν + c y • (ν' y - ν y) := by
  have h1 := lin_erase y c ν
  have h2 := lin_erase y c ν'
  have h3 : lin (c.erase y) ν' = lin (c.erase y) ν := by
    unfold lin Finsupp.sum
    refine Finset.sum_congr rfl fun w hw => ?_
    rw [Finsupp.mem_support_iff] at hw
    by_cases hwy : w = y
    · subst hwy; simp at hw
    · rw [Finsupp.erase_ne hwy] at hw ⊢
      show c w • ν' w = c w • ν w
      rw [h w hw hwy]
  rw [h3, h1] at h2
  rw [smul_sub]
  have : lin c ν' = (lin c ν - c y • ν y) + c y • ν' y := by rw [h2]; abel
  rw [this]; abel

/-! ### Rows -/

/-- A row `Σ c_v · v + k`: finitely many (variable, nonzero coefficient) pairs and a rational known term. -/
@[ext] structure Row where
  coeffs : Var →₀ ℚ
  k : ℚ

/-- The value of a row under a valuation. -/
def Row.eval (r : Row) (ν : Var → Val) : Val := lin r.coeffs ν + Val.ofRat r.k

/-- `Σ_{c_v>0} c_v·p(v) + Σ_{c_v<0} c_v·n(v) + k`: positive coefficients read `p`, negative ones read `n`. -/
def Row.bound (r : Row) (p n : Var → Val) : Val :=
  (∑ v ∈ r.coeffs.support with 0 < r.coeffs v, r.coeffs v • p v)
    + (∑ v ∈ r.coeffs.support with r.coeffs v < 0, r.coeffs v • n v) + Val.ofRat r.k

theorem Row.bound_eq (r : Row) (p n : Var → Val) :
    r.bound p n = (r.coeffs.sum fun v c => if 0 < c then c • p v else c • n v) + Val.ofRat r.k := by
  unfold Row.bound Finsupp.sum
  rw [Finset.sum_filter, Finset.sum_filter, ← Finset.sum_add_distrib]
  congr 1
  refine Finset.sum_congr rfl fun v hv => ?_
  rw [Finsupp.mem_support_iff] at hv
  rcases lt_trichotomy (r.coeffs v) 0 with h | h | h
  · simp [h, not_lt.mpr h.le]
  · exact absurd h hv
  · simp [h, not_lt.mpr h.le]

/-- The row's value is at most the bound obtained from upper bounds `u` (positive coefficients) and lower
bounds `l` (negative coefficients). -/
theorem Row.eval_le_bound (r : Row) (ν l u : Var → Val)
    (hu : ∀ v, 0 < r.coeffs v → ν v ≤ u v) (hl : ∀ v, r.coeffs v < 0 → l v ≤ ν v) :
    r.eval ν ≤ r.bound u l := by
  rw [Row.bound_eq]
  unfold Row.eval lin Finsupp.sum
  refine add_le_add_left (Finset.sum_le_sum fun v hv => ?_) _
  rw [Finsupp.mem_support_iff] at hv
  beta_reduce
  by_cases h : 0 < r.coeffs v
  · rw [if_pos h]; exact smul_le_smul_of_nonneg_left (hu v h) h.le
  · rw [if_neg h]
    have h' : r.coeffs v < 0 := lt_of_le_of_ne (not_lt.mp h) hv
    exact Val.smul_le_smul_of_nonpos h'.le (hl v h')

/-- The row's value is at least the bound obtained from lower bounds `l` (positive coefficients) and upper
bounds `u` (negative coefficients). -/
theorem Row.bound_le_eval (r : Row) (ν l u : Var → Val)
    (hl : ∀ v, 0 < r.coeffs v → l v ≤ ν v) (hu : ∀ v, r.coeffs v < 0 → ν v ≤ u v) :
    r.bound l u ≤ r.eval ν := by
  rw [Row.bound_eq]
  unfold Row.eval lin Finsupp.sum
  refine add_le_add_left (Finset.sum_le_sum fun v hv => ?_) _
  rw [Finsupp.mem_support_iff] at hv
  beta_reduce
  by_cases h : 0 < r.coeffs v
  · rw [if_pos h]; exact smul_le_smul_of_nonneg_left (hl v h) h.le
  · rw [if_neg h]
    have h' : r.coeffs v < 0 := lt_of_le_of_ne (not_lt.mp h) hv
    exact Val.smul_le_smul_of_nonpos h'.le (hu v h')

/-! ### Solving a row for one of its variables, substitution -/

/-- The row of `xi` is `r`; `xj` occurs in it with coefficient `a = r.coeffs xj`.  The new row of `xj`:
`(r − a·xj)/(−a) + (1/a)·xi`. -/
def Row.solveFor (r : Row) (xi xj : Var) : Row where
  coeffs := (-(r.coeffs xj))⁻¹ • r.coeffs.erase xj + Finsupp.single xi (r.coeffs xj)⁻¹
  k := (-(r.coeffs xj))⁻¹ * r.k

/-- Replace `xj` (coefficient `cc = r.coeffs xj`) by the expression `e`: the term of `xj` is removed, the
coefficients of `cc·e` are added (a `Finsupp` drops the terms that become zero), the known term grows by
`cc·e.k`. -/
def Row.subst (r : Row) (xj : Var) (e : Row) : Row where
  coeffs := r.coeffs.erase xj + r.coeffs xj • e.coeffs
  k := r.k + r.coeffs xj * e.k

/-- A row that does not contain `xj` is left alone by the substitution. -/
theorem Row.subst_of_not_mem (r : Row) (xj : Var) (e : Row) (h : r.coeffs xj = 0) : r.subst xj e = r := by
  ext1
  · simp only [Row.subst, h, zero_smul, add_zero]
    exact Finsupp.erase_of_notMem_support (by simp [h])
  · simp [Row.subst, h]

theorem Row.eval_solveFor (r : Row) (xi xj : Var) (ha : r.coeffs xj ≠ 0) (ν : Var → Val) :
    (r.solveFor xi xj).eval ν = ν xj + (r.coeffs xj)⁻¹ • (ν xi - r.eval ν) := by
  simp only [Row.eval, Row.solveFor]
  simp only [lin_add, lin_smul, lin_single, lin_erase, ← Val.smul_ofRat]
  generalize r.coeffs xj = a at ha
  generalize lin r.coeffs ν = L
  generalize Val.ofRat r.k = K
  have hb : a⁻¹ * a = 1 := inv_mul_cancel₀ ha
  rw [inv_neg]
  generalize a⁻¹ = b at hb
  generalize ν xj = X
  have hX : X = (b * a) • X := by rw [hb, one_smul]
  conv_rhs => rw [hX]
  module

theorem Row.eval_subst (r : Row) (xj : Var) (e : Row) (ν : Var → Val) :
    (r.subst xj e).eval ν = r.eval ν + r.coeffs xj • (e.eval ν - ν xj) := by
  simp only [Row.eval, Row.subst]
  simp only [lin_add, lin_smul, lin_erase, Val.ofRat_add, ← Val.smul_ofRat]
  module

/-- `xj = (solved row)` says the same as `xi = (original row)`. -/
theorem Row.solveFor_iff (r : Row) (xi xj : Var) (ha : r.coeffs xj ≠ 0) (ν : Var → Val) :
    ν xj = (r.solveFor xi xj).eval ν ↔ ν xi = r.eval ν := by
  rw [Row.eval_solveFor r xi xj ha, left_eq_add, smul_eq_zero, sub_eq_zero]
  simp [ha]

end

end Oratio.C09A
