/-
C07N: an executable checker `ccB` for the side condition `ConflictsCurrent` (same recursion, Boolean), sound
(`ccB_sound`): on a concrete network the side condition is established by evaluation.
-/
import OratioProofs.Lemmas.NetInvD

namespace Oratio
namespace Net
open Sat

instance (s : Sat) (c : Clause) : Decidable (HasCurrent s c) := by unfold HasCurrent; infer_instance

/-- executable version of `ConflictsCurrent` -/
def ccB (n : Net) : Nat → Bool
  | 0 => true
  | fuel + 1 =>
    match n.sat.queue with
    | [] =>
      match n.lra.check fuel with
      | none => true
      | some (none, _) => true
      | some (some cnfl, t) =>
        if n.sat.rootLevel then true
        else decide (HasCurrent n.sat cnfl) &&
          match learnFrom { n with lra := t } cnfl with
          | none => true
          | some n' => ccB n' fuel
    | p :: q =>
      match Sat.visitWatchers { n.sat with queue := q, watches := n.sat.watches.set p.idx [] } p (n.sat.watches.getD p.idx []) with
      | (s, some id) =>
        if s.rootLevel then true
        else match learnFrom { n with sat := s } (s.clauseOf id) with
          | none => true
          | some n' => ccB n' fuel
      | (s, none) =>
        match theoryPropagate { n with sat := s } p with
        | (none, n') => ccB n' fuel
        | (some cnfl, n') =>
          if n'.sat.rootLevel then true
          else
            match learnFrom { n' with sat := { n'.sat with queue := [] } } cnfl with
            | none => true
            | some n'' => ccB n'' fuel

theorem ccB_sound : ∀ (fuel : Nat) (n : Net), ccB n fuel = true → ConflictsCurrent n fuel
  | 0, n, _ => by unfold ConflictsCurrent; trivial
  | fuel + 1, n, h => by
    unfold ccB at h
    unfold ConflictsCurrent
    split at h
    · rename_i hq
      rw [hq]
      simp only
      split at h
      · rename_i hc; rw [hc]; trivial
      · rename_i hc; rw [hc]; trivial
      · rename_i cnfl t hc
        rw [hc]
        simp only
        split at h
        · rename_i hr; rw [if_pos hr]; trivial
        · rename_i hr
          rw [if_neg hr]
          rw [Bool.and_eq_true] at h
          refine ⟨of_decide_eq_true h.1, ?_⟩
          have h2 := h.2
          split at h2
          · rename_i hl; rw [hl]; trivial
          · rename_i n' hl; rw [hl]; exact ccB_sound fuel n' h2
    · rename_i p q hq
      rw [hq]
      simp only
      split at h
      · rename_i s id hv
        rw [hv]
        simp only
        split at h
        · rename_i hr; rw [if_pos hr]; trivial
        · rename_i hr
          rw [if_neg hr]
          split at h
          · rename_i hl; rw [hl]; trivial
          · rename_i n' hl; rw [hl]; exact ccB_sound fuel n' h
      · rename_i s hv
        rw [hv]
        simp only
        split at h
        · rename_i n' ht; rw [ht]; exact ccB_sound fuel n' h
        · rename_i cnfl n' ht
          rw [ht]
          simp only
          split at h
          · rename_i hr; rw [if_pos hr]; trivial
          · rename_i hr
            rw [if_neg hr]
            split at h
            · rename_i hl; rw [hl]; trivial
            · rename_i n'' hl; rw [hl]; exact ccB_sound fuel n'' h

end Net
end Oratio
