/-
C08N, non-vacuity of the statement with the decision-level hypothesis: the IDL network of C07N
(`NetEx.rootNet`: `b1 : x3 - x1 ≤ 5`, `b2 : x3 - x2 ≤ 2`, `b3 : x1 - x2 ≤ -3`, which satisfies the network
invariant `NetInv`) after `assume b1`; then `assume ¬b2`: IDL enforces `x2 - x3 ≤ -3`, records the lemma
`[¬b3, b2, ¬b1]` and `¬b3` is propagated; the decision level goes from 1 to 2.
-/
import OratioProofs.Lemmas.UndoNetLearn
import OratioProofs.Lemmas.UndoNetExample
import OratioProofs.Lemmas.NetInvEx

namespace Oratio
namespace C08NEx2
open Net Sat

/-- the network after `assume b1` -/
def lvl1 : Net := ((NetEx.rootNet.assume ⟨1, true⟩ 100).map (·.2)).getD NetEx.rootNet

theorem lvl1_run : NetEx.rootNet.assume ⟨1, true⟩ 100 = some (true, lvl1) := by
  have h1 : (NetEx.rootNet.assume ⟨1, true⟩ 100).map (·.1) = some true := by decide +kernel
  unfold lvl1
  cases h : NetEx.rootNet.assume ⟨1, true⟩ 100 with
  | none => rw [h] at h1; cases h1
  | some r =>
    obtain ⟨b, n'⟩ := r
    rw [h] at h1
    simp only [Option.map_some, Option.some.injEq] at h1
    subst h1
    rfl

theorem lvl1_inv : ∃ L fr, NetInv lvl1 [] L fr ∧ lvl1.sat.queue = [] := by
  have r := NetInv.assume NetEx.rootNet_inv (by decide +kernel) (by decide +kernel) (p := ⟨1, true⟩) (by decide +kernel)
    (by decide +kernel) 100 (noRows_propagate 100 _ (by decide +kernel)).1 true lvl1 lvl1_run
  obtain ⟨L, fr, hi⟩ := r.inv
  exact ⟨L, fr, hi, r.queue⟩

/-- the network after the further `assume ¬b2` -/
def lvl2 : Net := ((lvl1.assume ⟨2, false⟩ 100).map (·.2)).getD lvl1

theorem lvl2_run : lvl1.assume ⟨2, false⟩ 100 = some (true, lvl2) := by
  have h1 : (lvl1.assume ⟨2, false⟩ 100).map (·.1) = some true := by decide +kernel
  unfold lvl2
  cases h : lvl1.assume ⟨2, false⟩ 100 with
  | none => rw [h] at h1; cases h1
  | some r =>
    obtain ⟨b, n'⟩ := r
    rw [h] at h1
    simp only [Option.map_some, Option.some.injEq] at h1
    subst h1
    rfl

theorem lvl_facts : lvl1.sat.decisionLevel = 1 ∧ lvl2.sat.decisionLevel = 2 ∧
    lvl1.sat.trail = [⟨1, true⟩] ∧ lvl2.sat.trail = [⟨3, false⟩, ⟨2, false⟩, ⟨1, true⟩] ∧
    lvl2.sat.log = [[⟨3, false⟩, ⟨2, true⟩, ⟨1, false⟩]] ∧ lvl1.sat.log = [] ∧
    Dl.d idlOps lvl1.idl 3 2 = idlInf ∧ Dl.d idlOps lvl2.idl 3 2 = -3 ∧ lvl2.pop.sat.trail = [⟨1, true⟩] ∧
    lvl1.sat.dead = false ∧ lvl1.sat.value ⟨2, false⟩ = none ∧ 2 < lvl1.sat.vals.length ∧ lvl1.lra.tableau = [] := by
  decide +kernel

theorem lvl1_clean : Clean lvl1.sat := C08NEx.clean_of_cleanB (by decide +kernel)

/-! ### the two `assume`s as a search history from the root-level network -/

def hist2 : List SOp := [.assume ⟨1, true⟩, .assume ⟨2, false⟩]

theorem hist2_runs : runSearch 100 NetEx.rootNet hist2 = some lvl2 := by
  simp only [hist2, runSearch, lvl1_run, lvl2_run]

theorem root_facts : NetEx.rootNet.sat.trailLim = [] ∧ NetEx.rootNet.sat.queue = [] ∧ NetEx.rootNet.sat.dead = false ∧
    NetEx.rootNet.sat.value ⟨1, true⟩ = none ∧ 1 < NetEx.rootNet.sat.vals.length ∧ NetEx.rootNet.lra.tableau = [] := by
  decide +kernel

theorem root_clean : Clean NetEx.rootNet.sat := C08NEx.clean_of_cleanB (by decide +kernel)

theorem hist2_ok : SearchOK 100 NetEx.rootNet hist2 := by
  obtain ⟨_, _, _, f4, f5, f6⟩ := root_facts
  obtain ⟨_, _, _, _, _, _, _, _, _, _, g11, g12, g13⟩ := lvl_facts
  refine ⟨f4, f5, (noRows_propagate 100 _ (by show (NetEx.rootNet.lra.push).tableau = []; exact f6)).1, ?_⟩
  intro n' hn'
  rw [lvl1_run] at hn'
  simp only [Option.some.injEq, Prod.mk.injEq, true_and] at hn'
  subst hn'
  refine ⟨g11, g12, (noRows_propagate 100 _ (by show (lvl1.lra.push).tableau = []; exact g13)).1, ?_⟩
  intro n'' _
  trivial

end C08NEx2
end Oratio
