/-
Helpers for C06: what the two INIT_STRING texts (`Gen.initLA`, `Gen.initDL`) lex and parse to.

The AST types (`Expr`, `Stmt`, …) carry no `DecidableEq` (nested inductives; the deriving handler does
not apply), so `decide +kernel` cannot state `parse txt = some unit`.  The equation is closed by
`Eq.refl` instead, with the definitional-equality check left to the KERNEL (`kernel_rfl` below: the
elaborator's own unifier does not get through the lexer/parser evaluation); the kernel evaluates the
lexer and the parser models on the ~250 characters in a few seconds.  A wrong literal is rejected by
the kernel when the auxiliary lemma is added to the environment.
-/
import OratioModel
import Gen.Init
import Lean
import Mathlib.Tactic.Linarith
import Mathlib.Algebra.Order.Field.Rat

namespace Oratio
namespace InitRule
open Riddle

open Lean Elab Tactic Meta in
/-- close `a = b` by `Eq.refl a`; the definitional-equality check is done by the kernel only
    (the proof term is added as an auxiliary lemma, which the kernel type-checks) -/
elab "kernel_rfl" : tactic => do
  let g ← getMainGoal
  let t ← instantiateMVars (← g.getType)
  if t.hasMVar || t.hasFVar then throwError "kernel_rfl: the goal must be closed"
  let some (_, lhs, _) := t.eq? | throwError "kernel_rfl: not an equation"
  let pf ← mkEqRefl lhs
  let lem ← mkAuxLemma [] t pf
  g.assign (mkConst lem)

/-- identifier expression -/
def v (s : String) : Expr := .id [strInts s]
/-- comparison statement -/
def cmp (op : BOp) (l r : Expr) : Stmt := .expr (.bin op l r)

/-- `predicate Impulse(<tp> at) { at >= origin; at <= horizon; }` -/
def impulse (tp : String) : PredDecl :=
  { name := strInts "Impulse", pars := [⟨[strInts tp], strInts "at"⟩], supers := [],
    body := [cmp .geq (v "at") (v "origin"), cmp .leq (v "at") (v "horizon")] }

/-- `predicate Interval(real start, real end, real duration)
      { start >= origin; end <= horizon; duration == end - start; duration >= 0.0; }` -/
def intervalLA : PredDecl :=
  { name := strInts "Interval",
    pars := [⟨[strInts "real"], strInts "start"⟩, ⟨[strInts "real"], strInts "end"⟩,
             ⟨[strInts "real"], strInts "duration"⟩],
    supers := [],
    body := [cmp .geq (v "start") (v "origin"), cmp .leq (v "end") (v "horizon"),
             cmp .eq (v "duration") (.nary .sub [v "end", v "start"]),
             cmp .geq (v "duration") (.real ⟨0, 1⟩)] }

/-- `predicate Interval(tp start, tp end) { start >= origin; start <= end; end <= horizon; }` -/
def intervalDL : PredDecl :=
  { name := strInts "Interval",
    pars := [⟨[strInts "tp"], strInts "start"⟩, ⟨[strInts "tp"], strInts "end"⟩],
    supers := [],
    body := [cmp .geq (v "start") (v "origin"), cmp .leq (v "start") (v "end"),
             cmp .leq (v "end") (v "horizon")] }

/-- `<tp> origin; <tp> horizon; origin >= 0.0; origin <= horizon;` -/
def topStmts (tp : String) : List Stmt :=
  [.localField [strInts tp] [(strInts "origin", none)], .localField [strInts tp] [(strInts "horizon", none)],
   cmp .geq (v "origin") (.real ⟨0, 1⟩), cmp .leq (v "origin") (v "horizon")]

def laUnit : CompUnit :=
  { methods := [], preds := [impulse "real", intervalLA], types := [], stmts := topStmts "real" }
def dlUnit : CompUnit :=
  { methods := [], preds := [impulse "tp", intervalDL], types := [], stmts := topStmts "tp" }

/-- lex, then parse (the expression used in the statements of C06) -/
def parse (txt : String) : Option CompUnit :=
  (lex (strInts txt)).toOption.bind (fun ts => (parseUnit ts).toOption)

theorem parse_LA : parse Gen.initLA = some laUnit := by kernel_rfl
theorem parse_DL : parse Gen.initDL = some dlUnit := by kernel_rfl

theorem unit_LA {u : CompUnit}
    (hu : (lex (strInts Gen.initLA)).toOption.bind (fun ts => (parseUnit ts).toOption) = some u) :
    u = laUnit := by
  have h := parse_LA
  unfold parse at h
  rw [h] at hu
  exact (Option.some.inj hu).symm

theorem unit_DL {u : CompUnit}
    (hu : (lex (strInts Gen.initDL)).toOption.bind (fun ts => (parseUnit ts).toOption) = some u) :
    u = dlUnit := by
  have h := parse_DL
  unfold parse at h
  rw [h] at hu
  exact (Option.some.inj hu).symm

theorem impulse_ne_interval : strInts "Impulse" ≠ strInts "Interval" := by decide +kernel

/-- the predicate called `Interval` of the LA text -/
theorem pred_interval_LA {p : PredDecl} (hp : p ∈ laUnit.preds) (hn : p.name = strInts "Interval") :
    p = intervalLA := by
  simp only [laUnit, List.mem_cons, List.not_mem_nil, or_false] at hp
  rcases hp with rfl | rfl
  · exact absurd hn impulse_ne_interval
  · rfl

theorem pred_interval_DL {p : PredDecl} (hp : p ∈ dlUnit.preds) (hn : p.name = strInts "Interval") :
    p = intervalDL := by
  simp only [dlUnit, List.mem_cons, List.not_mem_nil, or_false] at hp
  rcases hp with rfl | rfl
  · exact absurd hn impulse_ne_interval
  · rfl

theorem pred_impulse_LA {p : PredDecl} (hp : p ∈ laUnit.preds) (hn : p.name = strInts "Impulse") :
    p = impulse "real" := by
  simp only [laUnit, List.mem_cons, List.not_mem_nil, or_false] at hp
  rcases hp with rfl | rfl
  · rfl
  · exact absurd hn.symm impulse_ne_interval

theorem pred_impulse_DL {p : PredDecl} (hp : p ∈ dlUnit.preds) (hn : p.name = strInts "Impulse") :
    p = impulse "tp" := by
  simp only [dlUnit, List.mem_cons, List.not_mem_nil, or_false] at hp
  rcases hp with rfl | rfl
  · rfl
  · exact absurd hn.symm impulse_ne_interval

/-- the literal `0.0` -/
theorem zero_toRat : (R.mk 0 1).toRat = 0 := by
  simp [R.toRat]

end InitRule
end Oratio
