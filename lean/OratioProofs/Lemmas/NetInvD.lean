/-
C07N, target 4: histories of the search operations of the network.
-/
import OratioProofs.Lemmas.NetCons3
import OratioProofs.Lemmas.NetCons4
import OratioProofs.Lemmas.NetCons5
import OratioProofs.Lemmas.NetCons6
import OratioProofs.Lemmas.NetCons7

set_option linter.unusedSimpArgs false
set_option linter.unusedVariables false

namespace Oratio
namespace Net
open Sat

/-- the search operations of the network (the SAT-level `new_var` and the calls of
    `sat_core::propagate / assume / pop` with the theories attached) -/
inductive NetOp where
  | satNewVar
  | propagate
  | assume (p : Lit)
  | pop
  | clause (c : List Lit)
  | next
  | eq (a b : Lit) | conj (ls : List Lit) | disj (ls : List Lit) | amo (ls : List Lit) | exo (ls : List Lit)
  | idlNewVar | rdlNewVar | lraNewVar
  | idlNewDistance (f g : Nat) (w : Int)
  | rdlNewDistance (f g : Nat) (w : IR)
  | bj (cnfl : List Lit)
  | lraNewVarLin (l : Lin)
  | lraNewRel (rel : LRel) (a b : Lin)
  | idlNewRel (rel : Dl.Rel) (a b : Lin)
  | rdlNewRel (rel : Dl.Rel) (a b : Lin)
  | lraNewEq (a b : Lin)

/-- network together with the ghost set of added clauses -/
structure NetRun where
  n : Net
  orig : Cnf

/-- the documented preconditions (those of C07's `Sat.pre`) -/
def NetRun.pre (r : NetRun) : NetOp → Bool
  | .satNewVar => !r.n.sat.dead
  | .propagate => !r.n.sat.dead
  | .assume p => !r.n.sat.dead && decide (p.var < r.n.sat.nvars) && r.n.sat.queue.isEmpty && r.n.sat.value p == none
  | .pop => !r.n.sat.dead && !r.n.sat.rootLevel
  | .clause c => !r.n.sat.dead && c.all (fun l => decide (l.var < r.n.sat.nvars)) && r.n.sat.rootLevel
  | .next => !r.n.sat.dead && r.n.sat.queue.isEmpty
  | .eq a b => !r.n.sat.dead && r.n.sat.rootLevel && decide (a.var < r.n.sat.nvars) && decide (b.var < r.n.sat.nvars)
  | .conj ls | .disj ls | .amo ls | .exo ls =>
    !r.n.sat.dead && r.n.sat.rootLevel && ls.all (fun l => decide (l.var < r.n.sat.nvars))
  | .idlNewVar | .rdlNewVar | .lraNewVar => !r.n.sat.dead && r.n.sat.rootLevel
  | .idlNewDistance f g _ => !r.n.sat.dead && r.n.sat.rootLevel && decide (f < r.n.idl.nVars) && decide (g < r.n.idl.nVars)
  | .rdlNewDistance f g _ => !r.n.sat.dead && r.n.sat.rootLevel && decide (f < r.n.rdl.nVars) && decide (g < r.n.rdl.nVars)
  | .bj _ => !r.n.sat.dead && r.n.sat.queue.isEmpty
  | .lraNewVarLin _ | .lraNewRel _ _ _ | .idlNewRel _ _ _ | .rdlNewRel _ _ _ | .lraNewEq _ _ =>
    !r.n.sat.dead && r.n.sat.rootLevel

/-- one call; the boolean is the answer (`true` for calls without a verdict) -/
def NetRun.step (fuel : Nat) (r : NetRun) (op : NetOp) : Option (NetRun × Bool) :=
  if !r.pre op then none else
  match op with
  | .satNewVar => some (⟨{ r.n with sat := r.n.sat.newVar.2 }, r.orig⟩, true)
  | .propagate => (r.n.propagate fuel).map fun (b, n') => (⟨n', r.orig⟩, b)
  | .assume p => (r.n.assume p fuel).map fun (b, n') => (⟨n', r.orig⟩, b)
  | .pop => some (⟨r.n.pop, r.orig⟩, true)
  | .clause c => some (⟨{ r.n with sat := (r.n.sat.newClause c).2 }, r.orig ++ [c]⟩, (r.n.sat.newClause c).1)
  | .next => (r.n.next fuel).map fun (b, n') =>
      (⟨n', if r.n.sat.rootLevel then r.orig else r.orig ++ [r.n.sat.decisions.map Lit.neg]⟩, b)
  | .eq a b => some (⟨{ r.n with sat := (r.n.sat.newEq a b).2 }, r.orig ++ (r.n.sat.newEq a b).2.toEnc.cnf⟩, true)
  | .conj ls => some (⟨{ r.n with sat := (r.n.sat.newConj ls).2 }, r.orig ++ (r.n.sat.newConj ls).2.toEnc.cnf⟩, true)
  | .disj ls => some (⟨{ r.n with sat := (r.n.sat.newDisj ls).2 }, r.orig ++ (r.n.sat.newDisj ls).2.toEnc.cnf⟩, true)
  | .amo ls => some (⟨{ r.n with sat := (r.n.sat.newAtMostOne ls).2 }, r.orig ++ (r.n.sat.newAtMostOne ls).2.toEnc.cnf⟩, true)
  | .exo ls => some (⟨{ r.n with sat := (r.n.sat.newExctOne ls).2 }, r.orig ++ (r.n.sat.newExctOne ls).2.toEnc.cnf⟩, true)
  | .idlNewVar => some (⟨(Net.idlNewVar r.n).2, r.orig⟩, true)
  | .rdlNewVar => some (⟨(Net.rdlNewVar r.n).2, r.orig⟩, true)
  | .lraNewVar => some (⟨(Net.lraNewVar r.n).2, r.orig⟩, true)
  | .idlNewDistance f g w => some (⟨(Net.idlNewDistance r.n f g w).2, r.orig⟩, true)
  | .rdlNewDistance f g w => some (⟨(Net.rdlNewDistance r.n f g w).2, r.orig⟩, true)
  | .bj cnfl => (r.n.backtrackAnalyzeAndBackjump cnfl fuel).map fun (b, n') => (⟨n', r.orig⟩, b)
  | .lraNewVarLin l => (Net.lraNewVarLin r.n l).map fun (_, n') => (⟨n', r.orig⟩, true)
  | .lraNewRel rel a b => (Net.lraNewRel r.n rel a b).map fun (_, n') => (⟨n', r.orig⟩, true)
  | .idlNewRel rel a b => (Net.idlNewRel r.n rel a b).map fun (_, n') => (⟨n', r.orig ++ n'.sat.toEnc.cnf⟩, true)
  | .rdlNewRel rel a b => (Net.rdlNewRel r.n rel a b).map fun (_, n') => (⟨n', r.orig ++ n'.sat.toEnc.cnf⟩, true)
  | .lraNewEq a b => (Net.lraNewEq r.n a b).map fun (_, n') => (⟨n', r.orig ++ n'.sat.toEnc.cnf⟩, true)

/-- the numeric side conditions of the difference-logic constructors: the no-overflow room of C10 (`K`
    bounds the constants, `4·(n+2)·K < inf`) for IDL; finite weights with an integer ε part for RDL -/
def NetRun.room (r : NetRun) : NetOp → Prop
  | .idlNewVar => ∃ K E, r.n.idl.Exact K E ∧ Dl.ConstrsOk K r.n.idl ∧ 4 * ((r.n.idl.nVars : Int) + 2) * K < idlInf
  | .idlNewDistance f g w => ∃ K E, r.n.idl.Exact K E ∧ Dl.ConstrsOk K r.n.idl ∧ f ≠ g ∧ -K ≤ w ∧ w + 1 ≤ K
  | .rdlNewDistance f g w => f ≠ g ∧ IR.Fin w ∧ w.inf.den = 1
  | .bj cnfl => TEntails r.n r.orig cnfl ∧ ∀ l ∈ cnfl, r.n.sat.value l = some false
  -- LRA requests: canonical expressions over existing variables (`Lra.LinOK`)
  | .lraNewVarLin l => Lra.LinOK r.n.lra l
  | .lraNewRel _ a b => Lra.LinOK r.n.lra a ∧ Lra.LinOK r.n.lra b
  | .lraNewEq a b => Lra.LinOK r.n.lra a ∧ Lra.LinOK r.n.lra b
  -- DL requests: the side conditions of `new_distance` for the constraints of the resulting theory
  | .idlNewRel rel a b => ∃ K E, r.n.idl.Exact K E ∧ Dl.ConstrsOk K r.n.idl ∧
      ∀ l n', Net.idlNewRel r.n rel a b = some (l, n') → Dl.ConstrsOk K n'.idl
  | .rdlNewRel rel a b => ∀ l n', Net.rdlNewRel r.n rel a b = some (l, n') → RdlOk n'.rdl
  | _ => True

/-- "the LRA request creates no slack variable" (the expression names an existing variable): then it creates
    no tableau row either -/
def NetRun.noSlack (r : NetRun) : NetOp → Prop
  | .lraNewVarLin l => ∀ v n', Net.lraNewVarLin r.n l = some (v, n') → n'.lra.vals.length = r.n.lra.vals.length
  | .lraNewRel rel a b => ∀ l n', Net.lraNewRel r.n rel a b = some (l, n') → n'.lra.vals.length = r.n.lra.vals.length
  | .lraNewEq a b => ∀ l n', Net.lraNewEq r.n a b = some (l, n') → n'.lra.tableau = r.n.lra.tableau
  | _ => True

/-- the side condition of a call: the conflicts of `lra.check` found above root level cite a literal
    of the current decision level -/
def NetRun.guard (fuel : Nat) (r : NetRun) : NetOp → Prop
  | .propagate => ConflictsCurrent r.n fuel
  | .assume p => ConflictsCurrent (assumeStart r.n p) fuel
  | .next => r.n.sat.rootLevel = false → ConflictsCurrent (nextStart r.n) fuel
  | .bj cnfl => BjGuard r.n cnfl fuel
  | _ => True

def NetRun.steps (fuel : Nat) (r : NetRun) : List NetOp → Option NetRun
  | [] => some r
  | op :: ops => match r.step fuel op with
    | none => none
    | some (r', _) => NetRun.steps fuel r' ops

/-- the side condition along a history -/
def NetRun.guards (fuel : Nat) (r : NetRun) : List NetOp → Prop
  | [] => True
  | op :: ops => r.guard fuel op ∧ ∀ r' b, r.step fuel op = some (r', b) → NetRun.guards fuel r' ops

/-- the numeric side conditions along a history -/
def NetRun.rooms (fuel : Nat) (r : NetRun) : List NetOp → Prop
  | [] => True
  | op :: ops => r.room op ∧ ∀ r' b, r.step fuel op = some (r', b) → NetRun.rooms fuel r' ops

/-- no LRA request of the history creates a slack variable -/
def NetRun.noSlacks (fuel : Nat) (r : NetRun) : List NetOp → Prop
  | [] => True
  | op :: ops => r.noSlack op ∧ ∀ r' b, r.step fuel op = some (r', b) → NetRun.noSlacks fuel r' ops

/-- the invariant between two calls -/
def NetOK (r : NetRun) : Prop :=
  (∃ L fr, NetInv r.n r.orig L fr) ∧ (r.n.sat.queue = [] ∨ r.n.sat.trailLim = [])

/-- the initial network satisfies the invariant -/
theorem netInv_init' : NetInv Net.init [] [] [] := by
  refine ⟨(Sat.init_invB).toS (by decide), (fun c hc => by cases hc), ?_, trivial, rfl,
    ⟨(fun e he => by cases he), (fun c hc => by cases hc), (fun c hc => by cases hc), Lra.init_good, (fun x b hb => by cases hb), (fun e he => by cases he)⟩⟩
  refine ⟨⟨C09X_init_inv.1, C09X_init_inv.2, (fun e he => by cases he), (fun e he => by cases he), ?_, ?_⟩,
    ⟨⟨10, [], C10_init_exact 10 (by decide), (fun c hc => by cases hc)⟩, C10X_init_pathinv _, Undo.sortedK_nil⟩,
    ⟨⟨[], C10R_init_exact⟩, (fun c hc => by cases hc), C10XR_init_pathinv _, Undo.sortedK_nil, C10R_epsInt_init,
      (fun c hc => by cases hc)⟩⟩
  · intro α σr σi _ _ _ _ x hx
    exact absurd hx (by show ¬ (Lra.ubIdx x < ([] : List LBound).length); simp)
  · intro x
    show Sat.init.value Lit.trueLit = some true ∧ Sat.init.value Lit.trueLit = some true
    exact ⟨by decide, by decide⟩

theorem netOK_init : NetOK ⟨Net.init, []⟩ := ⟨⟨[], [], netInv_init'⟩, Or.inl rfl⟩

theorem step_ok {fuel : Nat} {r r' : NetRun} {op : NetOp} {b : Bool} (h : NetOK r) (hg : r.guard fuel op)
    (hm : r.room op) (he : r.step fuel op = some (r', b)) :
    NetOK r' ∧ (∀ d ∈ r.orig, d ∈ r'.orig) ∧ (∀ α, TModel r'.n α → TModel r.n α) ∧
      (b = false → (op = .next ∧ r.n.sat.rootLevel = true) ∨ TUnsat r'.n r'.orig) := by
  obtain ⟨⟨L, fr, hi⟩, hqr⟩ := h
  unfold NetRun.step at he
  by_cases hpre : r.pre op = true
  · rw [if_neg (by simp [hpre])] at he
    cases op with
    | satNewVar =>
      simp only [Option.some.injEq, Prod.mk.injEq] at he
      obtain ⟨rfl, rfl⟩ := he
      exact ⟨⟨⟨L, fr, hi.satNewVar⟩, hqr⟩, fun d hd => hd, fun _ hm' => hm', fun e => by cases e⟩
    | propagate =>
      have hd : r.n.sat.dead = false := by simpa [NetRun.pre] using hpre
      cases hp : r.n.propagate fuel with
      | none => rw [hp] at he; simp at he
      | some res =>
        obtain ⟨b1, n1⟩ := res
        rw [hp] at he
        simp only [Option.map_some, Option.some.injEq, Prod.mk.injEq] at he
        obtain ⟨rfl, rfl⟩ := he
        have po := propagate_inv fuel r.n L fr hi hd hg b1 n1 hp
        obtain ⟨L', fr', hi'⟩ := po.inv
        exact ⟨⟨⟨L', fr', hi'⟩, Or.inl po.queue⟩, fun d hd => hd, fun α => (po.tm α).1, fun hb => Or.inr (hi'.sound.dead (by rw [po.dead, hb]; rfl))⟩
    | assume p =>
      simp only [NetRun.pre, Bool.and_eq_true, Bool.not_eq_true', decide_eq_true_eq, List.isEmpty_iff, beq_iff_eq] at hpre
      obtain ⟨⟨⟨hd, hp⟩, hq⟩, hv⟩ := hpre
      dsimp only at he
      cases hpa : r.n.assume p fuel with
      | none => rw [hpa] at he; simp at he
      | some res =>
        obtain ⟨b1, n1⟩ := res
        rw [hpa] at he
        simp only [Option.map_some, Option.some.injEq, Prod.mk.injEq] at he
        obtain ⟨rfl, rfl⟩ := he
        have po := hi.assume hq hd hv hp fuel hg b1 n1 hpa
        obtain ⟨L', fr', hi'⟩ := po.inv
        exact ⟨⟨⟨L', fr', hi'⟩, Or.inl po.queue⟩, fun d hd => hd, fun α => (po.tm α).1, fun hb => Or.inr (hi'.sound.dead (by rw [po.dead, hb]; rfl))⟩
    | pop =>
      simp only [NetRun.pre, Bool.and_eq_true, Bool.not_eq_true'] at hpre
      have hne : r.n.sat.trailLim ≠ [] := by
        intro e; have := hpre.2; simp [rootLevel, e] at this
      have hq : r.n.sat.queue = [] := hqr.resolve_right hne
      simp only [Option.some.injEq, Prod.mk.injEq] at he
      obtain ⟨rfl, rfl⟩ := he
      obtain ⟨fr', hi'⟩ := hi.pop hq hne
      exact ⟨⟨⟨L, fr', hi'⟩, Or.inl (by show r.n.sat.pop.queue = []; rw [(pop_frame r.n.sat).2.2.2.1]; exact hq)⟩, fun d hd => hd,
        fun α => (TModel.pop r.n α).1, fun e => by cases e⟩
    | clause c =>
      simp only [NetRun.pre, Bool.and_eq_true, Bool.not_eq_true', List.all_eq_true, decide_eq_true_eq] at hpre
      obtain ⟨⟨hd, hr⟩, hroot⟩ := hpre
      have hroot' : r.n.sat.trailLim = [] := by simpa [rootLevel] using hroot
      simp only [Option.some.injEq, Prod.mk.injEq] at he
      obtain ⟨rfl, rfl⟩ := he
      obtain ⟨k1, k2, k3⟩ := hi.clause hroot' c hr
      exact ⟨⟨⟨L, fr, k1⟩, Or.inr k2⟩, fun d hd => List.mem_append_left _ hd, fun _ hm' => hm',
        fun hb => Or.inr (k1.sound.dead (k3 hb))⟩
    | next =>
      simp only [NetRun.pre, Bool.and_eq_true, Bool.not_eq_true', List.isEmpty_iff] at hpre
      obtain ⟨hd, hq⟩ := hpre
      dsimp only at he
      cases hp : r.n.next fuel with
      | none => rw [hp] at he; simp at he
      | some res =>
        obtain ⟨b1, n1⟩ := res
        rw [hp] at he
        simp only [Option.map_some, Option.some.injEq, Prod.mk.injEq] at he
        obtain ⟨rfl, rfl⟩ := he
        by_cases hroot : r.n.sat.rootLevel = true
        · have : r.n.next fuel = some (false, r.n) := by simp [Net.next, hroot]
          rw [this] at hp
          simp only [Option.some.injEq, Prod.mk.injEq] at hp
          obtain ⟨rfl, rfl⟩ := hp
          simp only [hroot, if_true]
          exact ⟨⟨⟨L, fr, hi⟩, hqr⟩, fun d hd => hd, fun _ hm' => hm', fun _ => Or.inl ⟨trivial, trivial⟩⟩
        · have hroot' : r.n.sat.rootLevel = false := by simpa using hroot
          simp only [hroot', Bool.false_eq_true, if_false]
          have po := hi.next hq hd hroot' fuel (hg hroot') b1 n1 hp
          obtain ⟨L', fr', hi'⟩ := po.inv
          exact ⟨⟨⟨L', fr', hi'⟩, Or.inl po.queue⟩, fun d hd => List.mem_append_left _ hd, fun α => (po.tm α).1,
            fun hb => Or.inr (hi'.sound.dead (by rw [po.dead, hb]; rfl))⟩
    | eq a c =>
      simp only [NetRun.pre, Bool.and_eq_true, Bool.not_eq_true', decide_eq_true_eq] at hpre
      obtain ⟨⟨⟨hd, hroot⟩, ha⟩, hc⟩ := hpre
      have hroot' : r.n.sat.trailLim = [] := by simpa [rootLevel] using hroot
      simp only [Option.some.injEq, Prod.mk.injEq] at he
      obtain ⟨rfl, rfl⟩ := he
      obtain ⟨g1, g2, _⟩ := Sat.newEq_good goodN_closed r.n.sat ⟨⟨_, _, hi.sat⟩, hroot'⟩ a c ha hc
      exact ⟨⟨⟨L, [], hi.consSat hroot' hd g1 g2⟩, Or.inr g1.2⟩, fun d hd => List.mem_append_left _ hd,
        fun _ hm' => hm', fun e => by cases e⟩
    | conj ls =>
      simp only [NetRun.pre, Bool.and_eq_true, Bool.not_eq_true', List.all_eq_true, decide_eq_true_eq] at hpre
      obtain ⟨⟨hd, hroot⟩, hr⟩ := hpre
      have hroot' : r.n.sat.trailLim = [] := by simpa [rootLevel] using hroot
      simp only [Option.some.injEq, Prod.mk.injEq] at he
      obtain ⟨rfl, rfl⟩ := he
      obtain ⟨g1, g2, _⟩ := Sat.newConj_good goodN_closed r.n.sat ⟨⟨_, _, hi.sat⟩, hroot'⟩ ls hr
      exact ⟨⟨⟨L, [], hi.consSat hroot' hd g1 g2⟩, Or.inr g1.2⟩, fun d hd => List.mem_append_left _ hd,
        fun _ hm' => hm', fun e => by cases e⟩
    | disj ls =>
      simp only [NetRun.pre, Bool.and_eq_true, Bool.not_eq_true', List.all_eq_true, decide_eq_true_eq] at hpre
      obtain ⟨⟨hd, hroot⟩, hr⟩ := hpre
      have hroot' : r.n.sat.trailLim = [] := by simpa [rootLevel] using hroot
      simp only [Option.some.injEq, Prod.mk.injEq] at he
      obtain ⟨rfl, rfl⟩ := he
      obtain ⟨g1, g2, _⟩ := Sat.newDisj_good goodN_closed r.n.sat ⟨⟨_, _, hi.sat⟩, hroot'⟩ ls hr
      exact ⟨⟨⟨L, [], hi.consSat hroot' hd g1 g2⟩, Or.inr g1.2⟩, fun d hd => List.mem_append_left _ hd,
        fun _ hm' => hm', fun e => by cases e⟩
    | amo ls =>
      simp only [NetRun.pre, Bool.and_eq_true, Bool.not_eq_true', List.all_eq_true, decide_eq_true_eq] at hpre
      obtain ⟨⟨hd, hroot⟩, hr⟩ := hpre
      have hroot' : r.n.sat.trailLim = [] := by simpa [rootLevel] using hroot
      simp only [Option.some.injEq, Prod.mk.injEq] at he
      obtain ⟨rfl, rfl⟩ := he
      obtain ⟨g1, g2, _⟩ := Sat.newAtMostOne_good goodN_closed r.n.sat ⟨⟨_, _, hi.sat⟩, hroot'⟩ ls hr
      exact ⟨⟨⟨L, [], hi.consSat hroot' hd g1 g2⟩, Or.inr g1.2⟩, fun d hd => List.mem_append_left _ hd,
        fun _ hm' => hm', fun e => by cases e⟩
    | exo ls =>
      simp only [NetRun.pre, Bool.and_eq_true, Bool.not_eq_true', List.all_eq_true, decide_eq_true_eq] at hpre
      obtain ⟨⟨hd, hroot⟩, hr⟩ := hpre
      have hroot' : r.n.sat.trailLim = [] := by simpa [rootLevel] using hroot
      simp only [Option.some.injEq, Prod.mk.injEq] at he
      obtain ⟨rfl, rfl⟩ := he
      obtain ⟨g1, g2, _⟩ := Sat.newExctOne_good goodN_closed r.n.sat ⟨⟨_, _, hi.sat⟩, hroot'⟩ ls hr
      exact ⟨⟨⟨L, [], hi.consSat hroot' hd g1 g2⟩, Or.inr g1.2⟩, fun d hd => List.mem_append_left _ hd,
        fun _ hm' => hm', fun e => by cases e⟩
    | idlNewVar =>
      simp only [NetRun.pre, Bool.and_eq_true, Bool.not_eq_true'] at hpre
      have hroot' : r.n.sat.trailLim = [] := by simpa [rootLevel] using hpre.2
      simp only [Option.some.injEq, Prod.mk.injEq] at he
      obtain ⟨rfl, rfl⟩ := he
      obtain ⟨k1, k2⟩ := hi.at_idlNewVar hroot' hm
      exact ⟨⟨⟨L, [], k1⟩, Or.inr hroot'⟩, fun d hd => hd, fun α => (k2 α).1, fun e => by cases e⟩
    | rdlNewVar =>
      simp only [NetRun.pre, Bool.and_eq_true, Bool.not_eq_true'] at hpre
      have hroot' : r.n.sat.trailLim = [] := by simpa [rootLevel] using hpre.2
      simp only [Option.some.injEq, Prod.mk.injEq] at he
      obtain ⟨rfl, rfl⟩ := he
      obtain ⟨k1, k2⟩ := hi.at_rdlNewVar hroot'
      exact ⟨⟨⟨L, [], k1⟩, Or.inr hroot'⟩, fun d hd => hd, fun α => (k2 α).1, fun e => by cases e⟩
    | lraNewVar =>
      simp only [NetRun.pre, Bool.and_eq_true, Bool.not_eq_true'] at hpre
      have hroot' : r.n.sat.trailLim = [] := by simpa [rootLevel] using hpre.2
      simp only [Option.some.injEq, Prod.mk.injEq] at he
      obtain ⟨rfl, rfl⟩ := he
      obtain ⟨k1, k2⟩ := hi.at_lraNewVar hroot'
      exact ⟨⟨⟨L, [], k1⟩, Or.inr hroot'⟩, fun d hd => hd, fun α => (k2 α).1, fun e => by cases e⟩
    | idlNewDistance f g w =>
      simp only [NetRun.pre, Bool.and_eq_true, Bool.not_eq_true', decide_eq_true_eq] at hpre
      obtain ⟨⟨⟨hd, hroot⟩, hf⟩, hgg⟩ := hpre
      have hroot' : r.n.sat.trailLim = [] := by simpa [rootLevel] using hroot
      simp only [Option.some.injEq, Prod.mk.injEq] at he
      obtain ⟨rfl, rfl⟩ := he
      obtain ⟨K, E, m1, m2, m3, m4, m5⟩ := hm
      obtain ⟨k1, k2⟩ := hi.at_idlNewDistance hroot' f g w ⟨K, E, m1, m2, hf, hgg, m3, m4, m5⟩
      have hr2 : (Net.idlNewDistance r.n f g w).2.sat.trailLim = [] := by
        have := k1.flen; simp only [List.length_nil, decisionLevel] at this
        exact List.eq_nil_of_length_eq_zero this.symm
      exact ⟨⟨⟨L, [], k1⟩, Or.inr hr2⟩, fun d hd => hd, k2, fun e => by cases e⟩
    | rdlNewDistance f g w =>
      simp only [NetRun.pre, Bool.and_eq_true, Bool.not_eq_true', decide_eq_true_eq] at hpre
      obtain ⟨⟨⟨hd, hroot⟩, hf⟩, hgg⟩ := hpre
      have hroot' : r.n.sat.trailLim = [] := by simpa [rootLevel] using hroot
      simp only [Option.some.injEq, Prod.mk.injEq] at he
      obtain ⟨rfl, rfl⟩ := he
      obtain ⟨m3, m4, m5⟩ := hm
      obtain ⟨k1, k2⟩ := hi.at_rdlNewDistance hroot' f g w ⟨hf, hgg, m3, m4, m5⟩
      have hr2 : (Net.rdlNewDistance r.n f g w).2.sat.trailLim = [] := by
        have := k1.flen; simp only [List.length_nil, decisionLevel] at this
        exact List.eq_nil_of_length_eq_zero this.symm
      exact ⟨⟨⟨L, [], k1⟩, Or.inr hr2⟩, fun d hd => hd, k2, fun e => by cases e⟩
    | bj cnfl =>
      simp only [NetRun.pre, Bool.and_eq_true, Bool.not_eq_true', List.isEmpty_iff] at hpre
      obtain ⟨hd, hq⟩ := hpre
      dsimp only at he
      cases hp : r.n.backtrackAnalyzeAndBackjump cnfl fuel with
      | none => rw [hp] at he; simp at he
      | some res =>
        obtain ⟨b1, n1⟩ := res
        rw [hp] at he
        simp only [Option.map_some, Option.some.injEq, Prod.mk.injEq] at he
        obtain ⟨rfl, rfl⟩ := he
        obtain ⟨⟨L', fr', hi'⟩, k2, k3, k4⟩ := hi.bj hq hd cnfl hm.1 hm.2 fuel hg b1 n1 hp
        exact ⟨⟨⟨L', fr', hi'⟩, k2⟩, fun d hd => hd, fun α => (k3 α).1, fun hb => Or.inr (k4 hb)⟩
    | lraNewVarLin l =>
      simp only [NetRun.pre, Bool.and_eq_true, Bool.not_eq_true'] at hpre
      have hroot' : r.n.sat.trailLim = [] := by simpa [rootLevel] using hpre.2
      dsimp only at he
      cases hp : Net.lraNewVarLin r.n l with
      | none => rw [hp] at he; simp at he
      | some res =>
        obtain ⟨v, n1⟩ := res
        rw [hp] at he
        simp only [Option.map_some, Option.some.injEq, Prod.mk.injEq] at he
        obtain ⟨rfl, rfl⟩ := he
        obtain ⟨k1, k2, k3⟩ := hi.at_lraNewVarLinG hroot' hm hp
        exact ⟨⟨⟨L, [], k1⟩, Or.inr (by rw [k3]; exact hroot')⟩, fun d hd => hd, k2, fun e => by cases e⟩
    | lraNewRel rel a c =>
      simp only [NetRun.pre, Bool.and_eq_true, Bool.not_eq_true'] at hpre
      have hroot' : r.n.sat.trailLim = [] := by simpa [rootLevel] using hpre.2
      dsimp only at he
      cases hp : Net.lraNewRel r.n rel a c with
      | none => rw [hp] at he; simp at he
      | some res =>
        obtain ⟨v, n1⟩ := res
        rw [hp] at he
        simp only [Option.map_some, Option.some.injEq, Prod.mk.injEq] at he
        obtain ⟨rfl, rfl⟩ := he
        obtain ⟨k1, k2, k3, _⟩ := hi.at_lraNewRelG hroot' hm.1 hm.2 hp
        exact ⟨⟨⟨L, [], k1⟩, Or.inr k3⟩, fun d hd => hd, k2, fun e => by cases e⟩
    | idlNewRel rel a c =>
      simp only [NetRun.pre, Bool.and_eq_true, Bool.not_eq_true'] at hpre
      have hroot' : r.n.sat.trailLim = [] := by simpa [rootLevel] using hpre.2
      dsimp only at he
      cases hp : Net.idlNewRel r.n rel a c with
      | none => rw [hp] at he; simp at he
      | some res =>
        obtain ⟨v, n1⟩ := res
        rw [hp] at he
        simp only [Option.map_some, Option.some.injEq, Prod.mk.injEq] at he
        obtain ⟨rfl, rfl⟩ := he
        obtain ⟨K, E, m1, m2, m3⟩ := hm
        obtain ⟨k1, k2⟩ := hi.at_idlNewRel hroot' hpre.1 m1 m2 hp (m3 v n1 hp)
        exact ⟨⟨⟨L, [], k1⟩, Or.inr (root_of_inv k1)⟩, fun d hd => List.mem_append_left _ hd, k2, fun e => by cases e⟩
    | rdlNewRel rel a c =>
      simp only [NetRun.pre, Bool.and_eq_true, Bool.not_eq_true'] at hpre
      have hroot' : r.n.sat.trailLim = [] := by simpa [rootLevel] using hpre.2
      dsimp only at he
      cases hp : Net.rdlNewRel r.n rel a c with
      | none => rw [hp] at he; simp at he
      | some res =>
        obtain ⟨v, n1⟩ := res
        rw [hp] at he
        simp only [Option.map_some, Option.some.injEq, Prod.mk.injEq] at he
        obtain ⟨rfl, rfl⟩ := he
        obtain ⟨k1, k2⟩ := hi.at_rdlNewRel hroot' hpre.1 hp (hm v n1 hp)
        exact ⟨⟨⟨L, [], k1⟩, Or.inr (root_of_inv k1)⟩, fun d hd => List.mem_append_left _ hd, k2, fun e => by cases e⟩
    | lraNewEq a c =>
      simp only [NetRun.pre, Bool.and_eq_true, Bool.not_eq_true'] at hpre
      have hroot' : r.n.sat.trailLim = [] := by simpa [rootLevel] using hpre.2
      dsimp only at he
      cases hp : Net.lraNewEq r.n a c with
      | none => rw [hp] at he; simp at he
      | some res =>
        obtain ⟨v, n1⟩ := res
        rw [hp] at he
        simp only [Option.map_some, Option.some.injEq, Prod.mk.injEq] at he
        obtain ⟨rfl, rfl⟩ := he
        obtain ⟨k1, k2⟩ := hi.at_lraNewEq hroot' hpre.1 hm.1 hm.2 hp
        exact ⟨⟨⟨L, [], k1⟩, Or.inr (root_of_inv k1)⟩, fun d hd => List.mem_append_left _ hd, k2, fun e => by cases e⟩
  · rw [if_pos (by simpa using hpre)] at he
    cases he

/-- **after any history of search operations the network is sound** -/
theorem steps_ok {fuel : Nat} : ∀ (ops : List NetOp) (r r' : NetRun), NetOK r → r.guards fuel ops → r.rooms fuel ops →
    r.steps fuel ops = some r' → NetOK r' ∧ ∀ d ∈ r.orig, d ∈ r'.orig
  | [], r, r', h, _, _, he => by
    simp only [NetRun.steps, Option.some.injEq] at he; subst he; exact ⟨h, fun d hd => hd⟩
  | op :: ops, r, r', h, hg, hm, he => by
    unfold NetRun.steps at he
    cases hs : r.step fuel op with
    | none => rw [hs] at he; cases he
    | some res =>
      obtain ⟨r1, b⟩ := res
      rw [hs] at he
      obtain ⟨k1, k2, _⟩ := step_ok h hg.1 hm.1 hs
      obtain ⟨j1, j2⟩ := steps_ok ops r1 r' k1 (hg.2 r1 b hs) (hm.2 r1 b hs) he
      exact ⟨j1, fun d hd => j2 d (k2 d hd)⟩

theorem popTo_tableau (n : Net) (lvl : Nat) : (Net.popTo n lvl).lra.tableau = n.lra.tableau :=
  popTo_go_tableau lvl _ n

/-- `bj` without rows: the side condition holds and the tableau stays empty -/
theorem noRows_bj (fuel : Nat) (n : Net) (cnfl : Clause) (ht : n.lra.tableau = []) :
    BjGuard n cnfl fuel ∧ ∀ b n', backtrackAnalyzeAndBackjump n cnfl fuel = some (b, n') → n'.lra.tableau = [] := by
  unfold BjGuard backtrackAnalyzeAndBackjump
  simp only
  generalize cnfl.foldl (fun m l => max m (n.sat.level.getD l.var 0)) 0 = bt
  have ht1 : (Net.popTo n bt).lra.tableau = [] := by rw [popTo_tableau]; exact ht
  split
  · cases hnc : (Net.popTo n bt).sat.newClause cnfl with
    | mk bb s' =>
      cases bb with
      | false =>
        exact ⟨trivial, fun b n' he => by
          simp only [Option.some.injEq, Prod.mk.injEq] at he
          rw [← he.2]; exact ht1⟩
      | true =>
        exact noRows_propagate fuel { Net.popTo n bt with sat := s' } ht1
  · cases hlf : learnFrom (Net.popTo n bt) cnfl with
    | none => exact ⟨trivial, fun b n' he => by simp at he⟩
    | some n2 => exact noRows_propagate fuel n2 (by rw [learnFrom_tableau hlf]; exact ht1)

/-- without rows in the LRA tableau, and when no LRA request creates a slack variable, the side condition holds
    along every history -/
theorem guards_noRows {fuel : Nat} : ∀ (ops : List NetOp) (r : NetRun), r.n.lra.tableau = [] → r.noSlacks fuel ops →
    r.guards fuel ops
  | [], _, _, _ => trivial
  | op :: ops, r, ht, hm => by
    refine ⟨?_, fun r' b hs => guards_noRows ops r' ?_ (hm.2 r' b hs)⟩
    · cases op with
      | propagate => exact (noRows_propagate fuel r.n ht).1
      | assume p => exact (noRows_propagate fuel (assumeStart r.n p) ht).1
      | satNewVar => trivial
      | pop => trivial
      | clause c => trivial
      | eq _ _ => trivial
      | conj _ => trivial
      | disj _ => trivial
      | amo _ => trivial
      | exo _ => trivial
      | idlNewVar => trivial
      | rdlNewVar => trivial
      | lraNewVar => trivial
      | idlNewDistance _ _ _ => trivial
      | rdlNewDistance _ _ _ => trivial
      | lraNewVarLin _ => trivial
      | lraNewRel _ _ _ => trivial
      | idlNewRel _ _ _ => trivial
      | rdlNewRel _ _ _ => trivial
      | lraNewEq _ _ => trivial
      | bj cnfl => exact (noRows_bj fuel r.n cnfl ht).1
      | next => exact fun _ => (noRows_propagate fuel (nextStart r.n) (by
          show r.n.lra.pop.tableau = []
          rw [(Lra.pop_same r.n.lra).1]; exact ht)).1
    · unfold NetRun.step at hs
      split at hs
      · cases hs
      · cases op with
        | satNewVar =>
          simp only [Option.some.injEq, Prod.mk.injEq] at hs
          rw [← hs.1]; exact ht
        | propagate =>
          cases hp : r.n.propagate fuel with
          | none => rw [hp] at hs; simp at hs
          | some res =>
            rw [hp] at hs
            simp only [Option.map_some, Option.some.injEq, Prod.mk.injEq] at hs
            rw [← hs.1]
            exact (noRows_propagate fuel r.n ht).2 res.1 res.2 hp
        | assume p =>
          rename_i hpre
          have hv : r.n.sat.value p = none := by
            have hpre' : r.pre (.assume p) = true := by
              cases hx : r.pre (.assume p) with
              | true => rfl
              | false => exact absurd (by rw [hx]; rfl) hpre
            simp only [NetRun.pre, Bool.and_eq_true, Bool.not_eq_true', decide_eq_true_eq,
              List.isEmpty_iff, beq_iff_eq] at hpre'
            exact hpre'.2
          dsimp only at hs
          cases hp : r.n.assume p fuel with
          | none => rw [hp] at hs; simp at hs
          | some res =>
            rw [hp] at hs
            simp only [Option.map_some, Option.some.injEq, Prod.mk.injEq] at hs
            rw [← hs.1]
            rw [assume_eq hv] at hp
            exact (noRows_propagate fuel (assumeStart r.n p) ht).2 res.1 res.2 hp
        | pop =>
          simp only [Option.some.injEq, Prod.mk.injEq] at hs
          rw [← hs.1]
          show r.n.lra.pop.tableau = []
          rw [(Lra.pop_same r.n.lra).1]; exact ht
        | clause c =>
          simp only [Option.some.injEq, Prod.mk.injEq] at hs
          rw [← hs.1]; exact ht
        | eq _ _ | conj _ | disj _ | amo _ | exo _ | idlNewVar | rdlNewVar | lraNewVar | idlNewDistance _ _ _
          | rdlNewDistance _ _ _ =>
          simp only [Option.some.injEq, Prod.mk.injEq] at hs
          rw [← hs.1]; exact ht
        | lraNewVarLin l =>
          dsimp only at hs
          cases hp : Net.lraNewVarLin r.n l with
          | none => rw [hp] at hs; simp at hs
          | some res =>
            rw [hp] at hs
            simp only [Option.map_some, Option.some.injEq, Prod.mk.injEq] at hs
            rw [← hs.1]
            show res.2.lra.tableau = []
            rw [lraNewVarLin_tableau hp (hm.1 res.1 res.2 hp)]; exact ht
        | lraNewRel rel a c =>
          dsimp only at hs
          cases hp : Net.lraNewRel r.n rel a c with
          | none => rw [hp] at hs; simp at hs
          | some res =>
            rw [hp] at hs
            simp only [Option.map_some, Option.some.injEq, Prod.mk.injEq] at hs
            rw [← hs.1]
            show res.2.lra.tableau = []
            rw [lraNewRel_tableau hp (hm.1 res.1 res.2 hp)]; exact ht
        | idlNewRel rel a c =>
          dsimp only at hs
          cases hp : Net.idlNewRel r.n rel a c with
          | none => rw [hp] at hs; simp at hs
          | some res =>
            rw [hp] at hs
            simp only [Option.map_some, Option.some.injEq, Prod.mk.injEq] at hs
            rw [← hs.1]
            show res.2.lra.tableau = []
            rw [idlNewRel_lra hp]; exact ht
        | rdlNewRel rel a c =>
          dsimp only at hs
          cases hp : Net.rdlNewRel r.n rel a c with
          | none => rw [hp] at hs; simp at hs
          | some res =>
            rw [hp] at hs
            simp only [Option.map_some, Option.some.injEq, Prod.mk.injEq] at hs
            rw [← hs.1]
            show res.2.lra.tableau = []
            rw [rdlNewRel_lra hp]; exact ht
        | lraNewEq a c =>
          dsimp only at hs
          cases hp : Net.lraNewEq r.n a c with
          | none => rw [hp] at hs; simp at hs
          | some res =>
            rw [hp] at hs
            simp only [Option.map_some, Option.some.injEq, Prod.mk.injEq] at hs
            rw [← hs.1]
            show res.2.lra.tableau = []
            rw [hm.1 res.1 res.2 hp]; exact ht
        | bj cnfl =>
          dsimp only at hs
          cases hp : r.n.backtrackAnalyzeAndBackjump cnfl fuel with
          | none => rw [hp] at hs; simp at hs
          | some res =>
            rw [hp] at hs
            simp only [Option.map_some, Option.some.injEq, Prod.mk.injEq] at hs
            rw [← hs.1]
            exact (noRows_bj fuel r.n cnfl ht).2 res.1 res.2 hp
        | next =>
          dsimp only at hs
          cases hp : r.n.next fuel with
          | none => rw [hp] at hs; simp at hs
          | some res =>
            rw [hp] at hs
            simp only [Option.map_some, Option.some.injEq, Prod.mk.injEq] at hs
            rw [← hs.1]
            by_cases hroot : r.n.sat.rootLevel = true
            · have : r.n.next fuel = some (false, r.n) := by simp [Net.next, hroot]
              rw [this] at hp
              simp only [Option.some.injEq] at hp
              rw [← hp]; exact ht
            · have hroot' : r.n.sat.rootLevel = false := by simpa using hroot
              rw [next_eq hroot'] at hp
              exact (noRows_propagate fuel (nextStart r.n) (by
                show r.n.lra.pop.tableau = []
                rw [(Lra.pop_same r.n.lra).1]; exact ht)).2 res.1 res.2 hp

end Net
end Oratio
