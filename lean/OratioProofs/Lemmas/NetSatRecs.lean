/-
C07N: sequences of well-shaped `record`s (what the theories do to the SAT core), root-level
conflicts, and the "assigned variables keep value and level" relation used for the ghost frames.
-/
import OratioProofs.Lemmas.NetSatRecord

set_option linter.unusedSimpArgs false
set_option linter.unusedVariables false

namespace Oratio
namespace Sat

/-- a clause handed to `record` by a theory: the head is an unassigned existing variable, every
    other literal is false, and there is at least one other literal -/
def GoodRec (s : Sat) (c : Clause) : Prop :=
  ∃ l0 rest, c = l0 :: rest ∧ s.value l0 = none ∧ l0.var < s.vals.length ∧ (∀ x ∈ rest, s.value x = some false) ∧ rest ≠ []

/-- `s'` is reached from `s` by recording the clauses `new`, each well-shaped when recorded -/
inductive Recs : Sat → List Clause → Sat → Prop
  | refl (s : Sat) : Recs s [] s
  | step {s s1 : Sat} {new : List Clause} {c : Clause} : Recs s new s1 → GoodRec s1 c → Recs s (new ++ [c]) (s1.record c)

/-- every assigned variable keeps its value and its level -/
def AssignedKeep (s s' : Sat) : Prop :=
  ∀ v b, s.vals.getD v none = some b → s'.vals.getD v none = some b ∧ s'.level.getD v 0 = s.level.getD v 0

theorem AssignedKeep.refl (s : Sat) : AssignedKeep s s := fun _ _ h => ⟨h, rfl⟩

theorem AssignedKeep.trans {a b c : Sat} (h1 : AssignedKeep a b) (h2 : AssignedKeep b c) : AssignedKeep a c :=
  fun v x h => ⟨(h2 v x (h1 v x h).1).1, ((h2 v x (h1 v x h).1).2).trans (h1 v x h).2⟩

theorem AssignedKeep.le {s s' : Sat} (h : AssignedKeep s s') : Dl.SatLe s s' := fun v b hv => (h v b hv).1

theorem assignedKeep_of_trail {s s' : Sat} (hw : s.WfS) (h0 : s'.level.getD 0 0 = 0) (hle : Dl.SatLe s s')
    (hlvl : ∀ x ∈ s.trail, s'.lvl x = s.lvl x) : AssignedKeep s s' := by
  intro v b hv
  refine ⟨hle v b hv, ?_⟩
  rcases hw.a.valTrail v b hv with rfl | ht
  · rw [h0, hw.lvl0]
  · exact hlvl _ ht

/-- what a sequence of records changes -/
structure RecsRel (s s' : Sat) (new : List Clause) : Prop where
  log : s'.log = s.log ++ new
  dead : s'.dead = s.dead
  decisions : s'.decisions = s.decisions
  trailLim : s'.trailLim = s.trailLim
  lenVals : s'.vals.length = s.vals.length
  exprs : s'.exprs = s.exprs
  trail : s.trail <:+ s'.trail
  keep : AssignedKeep s s'
  queue : s.queue <+: s'.queue

theorem SInv.recs {orig K : Cnf} {s s' : Sat} {new : List Clause} (h : SInv orig K s) (hr : Recs s new s')
    (hent : ∀ c ∈ new, Ents orig c) : SInv orig K s' ∧ RecsRel s s' new := by
  induction hr with
  | refl => exact ⟨h, by simp, rfl, rfl, rfl, rfl, rfl, List.suffix_refl _, AssignedKeep.refl _, List.prefix_refl _⟩
  | @step s1 new c hr1 hg ih =>
    obtain ⟨h1, r1⟩ := ih (fun c hc => hent c (List.mem_append_left _ hc))
    obtain ⟨l0, rest, rfl, hv, hlt, hf, hne⟩ := hg
    have hrest : ∀ x ∈ rest, x.neg ∈ s1.trail ∨ x = Lit.falseLit := fun x hx => h1.wf.a.value_false.1 (hf x hx)
    have hE := hent (l0 :: rest) (List.mem_append_right _ (List.mem_singleton.2 rfl))
    have hrec := fun m => record_wfs (m := m) h1.wf h1.ent (h1.dec m) l0 rest hv hlt hrest (fun e => absurd e hne) hE
    obtain ⟨w, e, _, rr⟩ := hrec 0
    refine ⟨⟨w, e, fun m => (hrec m).2.2.1⟩, ?_, ?_, ?_, ?_, ?_, ?_, ?_, ?_, ?_⟩
    · rw [rr.log, r1.log, List.append_assoc]
    · rw [rr.dead, r1.dead]
    · rw [rr.decisions, r1.decisions]
    · rw [rr.trailLim, r1.trailLim]
    · rw [rr.lenVals, r1.lenVals]
    · rw [rr.exprs, r1.exprs]
    · rw [rr.trail]; exact r1.trail.trans (List.suffix_cons _ _)
    · exact r1.keep.trans (assignedKeep_of_trail h1.wf w.lvl0 (Dl.record_le _ _) rr.lvl)
    · rw [rr.queue]; exact r1.queue.trans (List.prefix_append _ _)

/-- a clause entailed by the base formula all of whose literals are false -/
theorem uns_of_false_clause {orig K : Cnf} {s : Sat} (h : SInv orig K s) {c : Clause} (hc : Ents orig c)
    (hf : ∀ l ∈ c, s.value l = some false) : Uns (orig ++ units s.decisions) := by
  intro α h0
  cases hF : α.cnf (orig ++ units s.decisions) with
  | false => rfl
  | true =>
    exfalso
    have hF' := hF
    rw [Asg.cnf_append] at hF'
    simp only [Bool.and_eq_true] at hF'
    have h1 := hc α h0 hF'.1
    simp only [Asg.clause, List.any_eq_true] at h1
    obtain ⟨l, hl, hv⟩ := h1
    rcases h.wf.a.value_false.1 (hf l hl) with ht | rfl
    · have := h.ent.trail _ ht α h0 (by
        rw [Asg.cnf_append]
        simp only [Bool.and_eq_true]
        refine ⟨hF'.1, ?_⟩
        have h2 := hF'.2
        rw [Asg.cnf_units, List.all_eq_true] at h2 ⊢
        exact fun d hd => h2 d (decsUpTo_sub _ _ d hd))
      simp only [Asg.clause, List.any_cons, List.any_nil, Bool.or_false] at this
      rw [Asg.lit_neg] at this
      simp [hv] at this
    · simp [Asg.lit, Lit.falseLit, h0] at hv

theorem SInv.setDead {orig K K' : Cnf} {s : Sat} (h : SInv orig K s) (hu : Uns orig) : SInv orig K' { s with dead := true } :=
  ⟨h.wf.of_eq rfl rfl rfl rfl rfl rfl rfl rfl rfl rfl rfl,
    ⟨h.ent.clauses, h.ent.trail, h.ent.log, fun _ => hu, fun hd => by cases hd⟩, h.dec⟩

/-- `pop` keeps the value and the level of every variable assigned below the current level -/
theorem pop_keeps {s : Sat} (hw : s.WfS) (hne : s.trailLim ≠ []) (v : Nat) (b : Bool)
    (hv : s.vals.getD v none = some b) (hl : s.level.getD v 0 < s.decisionLevel) :
    s.pop.vals.getD v none = some b ∧ s.pop.level.getD v 0 = s.level.getD v 0 := by
  cases hlim : s.trailLim with
  | nil => exact absurd hlim hne
  | cons lim lims =>
    obtain ⟨hp, _, _⟩ := pop_spec hlim
    obtain ⟨hm, hk, _⟩ := hw.a.pop_mem hlim
    rcases hw.a.valTrail v b hv with rfl | ht
    · have := hp.keep 0 (fun p hp' => (hw.a.trailVal p (List.mem_of_mem_take hp')).2)
      exact ⟨by rw [this.1]; exact hv, this.2.1⟩
    · have hpt : (⟨v, b⟩ : Lit) ∈ s.pop.trail := (hm _).2 ⟨ht, hl⟩
      have := hk _ (Or.inl hpt)
      refine ⟨?_, this.2⟩
      have h1 : s.value ⟨v, b⟩ = some true := value_eq_true.2 hv
      rw [← this.1] at h1
      exact value_eq_true.1 h1

end Sat
end Oratio
