import OratioModel

/-! Helper lemmas for property C20 (model: OratioModel/Par/Pivot.lean). -/

namespace Oratio.Par

variable {α : Type}

theorem Shared.run_nil (σ : Shared α) : σ.run [] = σ := rfl

theorem Shared.run_cons (σ : Shared α) (s : Step α) (l : List (Step α)) :
    σ.run (s :: l) = (σ.apply s).run l := rfl

/-- a step of another owner leaves `rows r` alone -/
theorem Shared.apply_rows_of_ne (σ : Shared α) (s : Step α) (r : Nat) (h : s.owner ≠ r) :
    (σ.apply s).rows r = σ.rows r := by
  cases s with
  | setRow r' row =>
    have h' : r ≠ r' := fun e => h e.symm
    simp [Shared.apply, h']
  | watchIns v r' => rfl
  | watchDel v r' => rfl

/-- `rows r` after a step depends only on `rows r` before it -/
theorem Shared.apply_rows_congr (σ σ' : Shared α) (s : Step α) (r : Nat) (h : σ.rows r = σ'.rows r) :
    (σ.apply s).rows r = (σ'.apply s).rows r := by
  cases s with
  | setRow r' row => simp [Shared.apply, h]
  | watchIns v r' => exact h
  | watchDel v r' => exact h

/-- a step of another owner leaves `watch v r` alone -/
theorem Shared.apply_watch_of_ne (σ : Shared α) (s : Step α) (v r : Nat) (h : s.owner ≠ r) :
    (σ.apply s).watch v r = σ.watch v r := by
  cases s with
  | setRow r' row => rfl
  | watchIns v' r' =>
    have h' : r ≠ r' := fun e => h e.symm
    simp [Shared.apply, h']
  | watchDel v' r' =>
    have h' : r ≠ r' := fun e => h e.symm
    simp [Shared.apply, h']

/-- `watch v r` after a step depends only on `watch v r` before it -/
theorem Shared.apply_watch_congr (σ σ' : Shared α) (s : Step α) (v r : Nat) (h : σ.watch v r = σ'.watch v r) :
    (σ.apply s).watch v r = (σ'.apply s).watch v r := by
  cases s with
  | setRow r' row => exact h
  | watchIns v' r' => simp [Shared.apply, h]
  | watchDel v' r' => simp [Shared.apply, h]

theorem Shared.run_rows_filter_gen (l : List (Step α)) (r : Nat) :
    ∀ (σ σ' : Shared α), σ.rows r = σ'.rows r →
      (σ.run l).rows r = (σ'.run (l.filter (fun s => s.owner == r))).rows r := by
  induction l with
  | nil => intro σ σ' h; exact h
  | cons s l ih =>
    intro σ σ' h
    by_cases hs : s.owner = r
    · have : (s :: l).filter (fun s => s.owner == r) = s :: l.filter (fun s => s.owner == r) := by
        simp [hs]
      rw [this, Shared.run_cons, Shared.run_cons]
      exact ih _ _ (Shared.apply_rows_congr σ σ' s r h)
    · have : (s :: l).filter (fun s => s.owner == r) = l.filter (fun s => s.owner == r) := by
        simp [hs]
      rw [this, Shared.run_cons]
      exact ih _ _ ((Shared.apply_rows_of_ne σ s r hs).trans h)

theorem Shared.run_watch_filter_gen (l : List (Step α)) (v r : Nat) :
    ∀ (σ σ' : Shared α), σ.watch v r = σ'.watch v r →
      (σ.run l).watch v r = (σ'.run (l.filter (fun s => s.owner == r))).watch v r := by
  induction l with
  | nil => intro σ σ' h; exact h
  | cons s l ih =>
    intro σ σ' h
    by_cases hs : s.owner = r
    · have : (s :: l).filter (fun s => s.owner == r) = s :: l.filter (fun s => s.owner == r) := by
        simp [hs]
      rw [this, Shared.run_cons, Shared.run_cons]
      exact ih _ _ (Shared.apply_watch_congr σ σ' s v r h)
    · have : (s :: l).filter (fun s => s.owner == r) = l.filter (fun s => s.owner == r) := by
        simp [hs]
      rw [this, Shared.run_cons]
      exact ih _ _ ((Shared.apply_watch_of_ne σ s v r hs).trans h)

/-- the row of `r` in the final state depends only on the steps owned by `r` -/
theorem Shared.run_rows_filter (σ : Shared α) (l : List (Step α)) (r : Nat) :
    (σ.run l).rows r = (σ.run (l.filter (fun s => s.owner == r))).rows r :=
  Shared.run_rows_filter_gen l r σ σ rfl

/-- the watch bit of `(v, r)` in the final state depends only on the steps owned by `r` -/
theorem Shared.run_watch_filter (σ : Shared α) (l : List (Step α)) (v r : Nat) :
    (σ.run l).watch v r = (σ.run (l.filter (fun s => s.owner == r))).watch v r :=
  Shared.run_watch_filter_gen l v r σ σ rfl

theorem Shared.ext' {σ σ' : Shared α} (hr : ∀ r, σ.rows r = σ'.rows r) (hw : ∀ v r, σ.watch v r = σ'.watch v r) :
    σ = σ' := by
  cases σ; cases σ'
  simp only [Shared.mk.injEq]
  exact ⟨funext hr, funext fun v => funext fun r => hw v r⟩

/-! ### projections of the sequential schedule -/

theorem filter_owner_eq_self (l : List (Step α)) (r : Nat) (h : ∀ s ∈ l, s.owner = r) :
    l.filter (fun s => s.owner == r) = l := by
  apply List.filter_eq_self.2
  intro s hs; simp [h s hs]

theorem filter_owner_eq_nil (l : List (Step α)) (r : Nat) (h : ∀ s ∈ l, s.owner ≠ r) :
    l.filter (fun s => s.owner == r) = [] := by
  apply List.filter_eq_nil_iff.2
  intro s hs; simp [h s hs]

/-- an owner that is no task's id owns nothing in the sequential schedule -/
theorem filter_flatMap_of_not_mem (tasks : List (Nat × List (Step α)))
    (hown : ∀ t ∈ tasks, ∀ s ∈ t.2, s.owner = t.1) (r : Nat) (hr : r ∉ tasks.map (·.1)) :
    (tasks.flatMap (·.2)).filter (fun s => s.owner == r) = [] := by
  apply filter_owner_eq_nil
  intro s hs e
  rcases List.mem_flatMap.1 hs with ⟨t, ht, hst⟩
  apply hr
  rw [← e, hown t ht s hst]
  exact List.mem_map.2 ⟨t, ht, rfl⟩

/-- the projection of the sequential schedule on a task's id is that task's step list -/
theorem filter_flatMap_of_mem (tasks : List (Nat × List (Step α)))
    (hown : ∀ t ∈ tasks, ∀ s ∈ t.2, s.owner = t.1) (hdist : (tasks.map (·.1)).Nodup) :
    ∀ t ∈ tasks, (tasks.flatMap (·.2)).filter (fun s => s.owner == t.1) = t.2 := by
  induction tasks with
  | nil => intro t ht; cases ht
  | cons a rest ih =>
    intro t ht
    have hown' : ∀ t ∈ rest, ∀ s ∈ t.2, s.owner = t.1 := fun t ht => hown t (List.mem_cons_of_mem _ ht)
    rw [List.map_cons, List.nodup_cons] at hdist
    rw [List.flatMap_cons, List.filter_append]
    rcases List.mem_cons.1 ht with rfl | ht'
    · rw [filter_owner_eq_self _ _ (hown t (List.mem_cons_self ..)),
        filter_flatMap_of_not_mem rest hown' t.1 hdist.1, List.append_nil]
    · have hne : a.1 ≠ t.1 := by
        intro e
        apply hdist.1
        rw [e]
        exact List.mem_map.2 ⟨t, ht', rfl⟩
      rw [filter_owner_eq_nil a.2 t.1 (fun s hs e => hne ((hown a (List.mem_cons_self ..) s hs).symm.trans e)),
        List.nil_append]
      exact ih hown' hdist.2 t ht'

/-! ### fold invariants -/

theorem foldl_invariant {β γ : Type} (P : β → Prop) (f : β → γ → β) (hf : ∀ b a, P b → P (f b a))
    (l : List γ) : ∀ init, P init → P (l.foldl f init) := by
  induction l with
  | nil => intro init h; exact h
  | cons a l ih => intro init h; exact ih _ (hf _ _ h)

/-! ### the thread pool -/

/-- the pool invariant: the enqueued tasks are exactly the queued, running and finished ones -/
def Pool.Inv (p : Pool) : Prop := List.Perm p.enqueued (p.queue ++ p.running ++ p.done)

theorem Pool.inv_init : Pool.Inv {} := List.Perm.refl _

theorem Pool.inv_step (p : Pool) (s : PoolStep) (h : p.Inv) : (p.step s).Inv := by
  unfold Pool.Inv at *
  cases s with
  | enqueue t =>
    simp only [Pool.step]
    rw [List.perm_iff_count] at *
    intro a
    have := h a
    simp only [List.count_append] at *
    omega
  | take =>
    simp only [Pool.step]
    split
    · exact h
    · rename_i t q hq
      rw [hq] at h
      rw [List.perm_iff_count] at *
      intro a
      have := h a
      simp only [List.count_append, List.count_cons, List.count_nil] at *
      omega
  | finish t =>
    simp only [Pool.step]
    split
    · rename_i hc
      have hmem : t ∈ p.running := by simpa using hc
      have hp : List.Perm p.running (t :: p.running.erase t) := List.perm_cons_erase hmem
      rw [List.perm_iff_count] at *
      intro a
      have := h a
      have := hp a
      simp only [List.count_append, List.count_cons, List.count_nil] at *
      omega
    · exact h

theorem Pool.inv_foldl (steps : List PoolStep) : ∀ p : Pool, p.Inv → (steps.foldl Pool.step p).Inv :=
  foldl_invariant Pool.Inv Pool.step (fun p s h => Pool.inv_step p s h) steps

end Oratio.Par
