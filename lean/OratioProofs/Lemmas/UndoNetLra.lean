/-
C08N, part 1: `lra_theory::push / pop` around ANY sequence of bound assertions, literal propagations
and simplex runs.  No range hypothesis on the variables the calls mention: the first-write-wins log
may contain out-of-range indices (the model's `set` ignores them, and so does `pop`).
-/
import OratioProofs.Lemmas.UndoNetDefs
import OratioProofs.Lemmas.LraExplInv

namespace Oratio
namespace Lra

/-! ### the undo log, without range hypotheses -/

/-- `u` was reached from `B.push` inside the level: the newest layer holds, for every index of
    `c_bounds` it mentions, the value `B` had; every index it does not mention still has the value of `B` -/
def PopInvW (B u : Lra) : Prop :=
  ∃ l, u.layers = l :: B.layers ∧ u.bounds.length = B.bounds.length ∧
    (∀ e ∈ l, e.1 < B.bounds.length → B.bounds[e.1]? = some e.2) ∧
    (∀ i, (∀ e ∈ l, e.1 ≠ i) → u.bounds[i]? = B.bounds[i]?)

theorem popInvW_push (B : Lra) : PopInvW B B.push :=
  ⟨[], rfl, rfl, by simp, fun _ _ => rfl⟩

theorem popInvW_congr {B t u : Lra} (h1 : u.bounds = t.bounds) (h2 : u.layers = t.layers) (h : PopInvW B t) :
    PopInvW B u := by
  obtain ⟨l, a1, a2, a3, a4⟩ := h
  exact ⟨l, by rw [h2]; exact a1, by rw [h1]; exact a2, a3, by rw [h1]; exact a4⟩

theorem popInvW_step (B u : Lra) (i : Nat) (b : LBound) (h : PopInvW B u) :
    PopInvW B ((u.saveBound i).setBound i b) := by
  obtain ⟨l, hl, hlen, h1, h2⟩ := h
  by_cases hany : l.any (fun e => e.1 == i) = true
  · have hs : u.saveBound i = u := by simp only [saveBound, hl, hany, if_true]
    rw [hs]
    refine ⟨l, hl, by simp [setBound, hlen], h1, ?_⟩
    intro j hj
    have hji : i ≠ j := by
      obtain ⟨e, he, hei⟩ := List.any_eq_true.1 hany
      have h3 := hj e he
      have h4 : e.1 = i := by simpa using hei
      omega
    simp only [setBound, List.getElem?_set, hji, if_false]
    exact h2 j hj
  · have hs : u.saveBound i = { u with layers := (l ++ [(i, u.bnd i)]) :: B.layers } := by
      simp only [saveBound, hl, hany, Bool.false_eq_true, if_false]
    rw [hs]
    have hni : ∀ e ∈ l, e.1 ≠ i := by
      intro e he hei
      exact hany (List.any_eq_true.2 ⟨e, he, by simp [hei]⟩)
    have hui : i < B.bounds.length → B.bounds[i]? = some (u.bnd i) := by
      intro hi
      rw [← h2 i hni]
      have : i < u.bounds.length := by omega
      simp [bnd, List.getD_eq_getElem?_getD, this]
    refine ⟨l ++ [(i, u.bnd i)], rfl, by simp [setBound, hlen], ?_, ?_⟩
    · intro e he hlt
      rcases List.mem_append.1 he with he | he
      · exact h1 e he hlt
      · have : e = (i, u.bnd i) := by simpa using he
        subst this
        exact hui hlt
    · intro j hj
      have hji : i ≠ j := fun h => hj (i, u.bnd i) (by simp) h
      have h3 := h2 j (fun e he => hj e (List.mem_append_left _ he))
      simp only [setBound, List.getElem?_set, hji, if_false]
      exact h3

/-- writing the saved values back, over a state that agrees with `ts` elsewhere, yields `ts` -/
theorem restoreW (ts : List LBound) : ∀ (l : List (Nat × LBound)) (u : Lra), u.bounds.length = ts.length →
    (∀ e ∈ l, e.1 < ts.length → ts[e.1]? = some e.2) → (∀ i, (∀ e ∈ l, e.1 ≠ i) → u.bounds[i]? = ts[i]?) →
    (l.foldl (fun t e => t.setBound e.1 e.2) u).bounds = ts := by
  intro l
  induction l with
  | nil =>
    intro u _ _ h2
    exact List.ext_getElem? (fun i => h2 i (by simp))
  | cons e l ih =>
    intro u hlen h1 h2
    refine ih (u.setBound e.1 e.2) (by simp [setBound, hlen]) (fun e' he' => h1 e' (List.mem_cons_of_mem _ he')) ?_
    intro i hi
    by_cases hie : e.1 = i
    · subst hie
      by_cases hlt : e.1 < ts.length
      · have he := h1 e List.mem_cons_self hlt
        simp only [setBound, List.getElem?_set, if_true, hlen, hlt]
        exact he.symm
      · have hge : ts.length ≤ e.1 := Nat.le_of_not_lt hlt
        rw [List.getElem?_eq_none hge]
        apply List.getElem?_eq_none
        simp only [setBound, List.length_set, hlen]
        exact hge
    · simp only [setBound, List.getElem?_set, hie, if_false]
      exact h2 i (by
        intro e' he'
        rcases List.mem_cons.1 he' with h | h
        · subst h; exact hie
        · exact hi e' h)

theorem pop_of_invW (B u : Lra) (h : PopInvW B u) : u.pop.bounds = B.bounds ∧ u.pop.layers = B.layers := by
  obtain ⟨l, hl, hlen, h1, h2⟩ := h
  unfold pop
  rw [hl]
  exact ⟨restoreW B.bounds l u hlen h1 h2, rfl⟩

/-! ### the fields no call touches -/

theorem saveBound_regs (t : Lra) (i : Nat) :
    (t.saveBound i).exprs = t.exprs ∧ (t.saveBound i).sAsrts = t.sAsrts := by
  unfold saveBound
  split
  · exact ⟨rfl, rfl⟩
  · split <;> exact ⟨rfl, rfl⟩

theorem alState_regs (t : Lra) (xi : Nat) (val : IR) (p : Lit) :
    (alState t xi val p).exprs = t.exprs ∧ (alState t xi val p).sAsrts = t.sAsrts := by
  have h := saveBound_regs t (lbIdx xi)
  unfold alState
  simp only
  split
  · rw [update_eq]; exact h
  · exact h

theorem auState_regs (t : Lra) (xi : Nat) (val : IR) (p : Lit) :
    (auState t xi val p).exprs = t.exprs ∧ (auState t xi val p).sAsrts = t.sAsrts := by
  have h := saveBound_regs t (ubIdx xi)
  unfold auState
  simp only
  split
  · rw [update_eq]; exact h
  · exact h

theorem popInvW_al {B t : Lra} (h : PopInvW B t) (xi : Nat) (val : IR) (p : Lit) :
    PopInvW B (alState t xi val p) := by
  have hm := popInvW_step B t (lbIdx xi) ⟨val, p⟩ h
  unfold alState
  simp only
  split
  · exact popInvW_congr (C09_update_bounds _ _ _) (update_layers _ _ _) hm
  · exact hm

theorem popInvW_au {B t : Lra} (h : PopInvW B t) (xi : Nat) (val : IR) (p : Lit) :
    PopInvW B (auState t xi val p) := by
  have hm := popInvW_step B t (ubIdx xi) ⟨val, p⟩ h
  unfold auState
  simp only
  split
  · exact popInvW_congr (C09_update_bounds _ _ _) (update_layers _ _ _) hm
  · exact hm

/-! ### the relation "inside the level opened at `B`" -/

/-- `u` was reached from `B.push` by theory calls: undo log as above, registries and assertion
    watches untouched, same number of variables, tableau pivoted at most (same solutions) -/
structure InLevel (B u : Lra) : Prop where
  pinv : PopInvW B u
  exprs : u.exprs = B.exprs
  sAsrts : u.sAsrts = B.sAsrts
  vAsrts : u.vAsrts = B.vAsrts
  aWatches : u.aWatches = B.aWatches
  nvars : u.vals.length = B.vals.length
  sol : SameSol B u

theorem inLevel_push {B : Lra} (hB : TabWF B) : InLevel B B.push :=
  ⟨popInvW_push B, rfl, rfl, rfl, rfl, rfl, ⟨tabWF_congr (t := B) (u := B.push) rfl rfl rfl hB, fun _ => Iff.rfl⟩⟩

theorem sameSol_of_tableau {B t u : Lra} (h : SameSol B t) (ht : u.tableau = t.tableau) (hw : TabWF u) : SameSol B u :=
  ⟨hw, fun σ => by rw [ht]; exact h.2 σ⟩

theorem InLevel.al {B t : Lra} (h : InLevel B t) (xi : Nat) (val : IR) (p : Lit) : InLevel B (alState t xi val p) := by
  have bs := boundSet_al t xi val p
  have rg := alState_regs t xi val p
  exact ⟨popInvW_al h.pinv xi val p, rg.1.trans h.exprs, rg.2.trans h.sAsrts, bs.vAsrts.trans h.vAsrts,
    bs.aWatches.trans h.aWatches, bs.vlen.trans h.nvars, sameSol_of_tableau h.sol bs.tableau (bs.tabWF h.sol.1)⟩

theorem InLevel.au {B t : Lra} (h : InLevel B t) (xi : Nat) (val : IR) (p : Lit) : InLevel B (auState t xi val p) := by
  have bs := boundSet_au t xi val p
  have rg := auState_regs t xi val p
  exact ⟨popInvW_au h.pinv xi val p, rg.1.trans h.exprs, rg.2.trans h.sAsrts, bs.vAsrts.trans h.vAsrts,
    bs.aWatches.trans h.aWatches, bs.vlen.trans h.nvars, sameSol_of_tableau h.sol bs.tableau (bs.tabWF h.sol.1)⟩

theorem InLevel.assertLower {B t : Lra} (h : InLevel B t) (s : Sat) (xi : Nat) (val : IR) (p : Lit) :
    InLevel B (Lra.assertLower s t xi val p).th := by
  rcases assertLower_th s t xi val p with e | e <;> rw [e]
  · exact h
  · exact h.al xi val p

theorem InLevel.assertUpper {B t : Lra} (h : InLevel B t) (s : Sat) (xi : Nat) (val : IR) (p : Lit) :
    InLevel B (Lra.assertUpper s t xi val p).th := by
  rcases assertUpper_th s t xi val p with e | e <;> rw [e]
  · exact h
  · exact h.au xi val p

theorem InLevel.propagateLit {B t : Lra} (h : InLevel B t) (s : Sat) (p : Lit) :
    InLevel B (Lra.propagateLit s t p).th := by
  unfold Lra.propagateLit
  cases hab : t.asrtOf p.var with
  | none => exact h
  | some a =>
    simp only
    rcases hsv : s.value a.b with _ | _ | _ <;> simp only
    · exact h
    · split
      · exact h.assertLower s _ _ p
      · exact h.assertUpper s _ _ p
    · split
      · exact h.assertUpper s _ _ p
      · exact h.assertLower s _ _ p

theorem check_aWatches_u {t t' : Lra} (ht : TabWF t) {fuel : Nat} {c : Option (List Lit)}
    (h : t.check fuel = some (c, t')) : t'.aWatches = t.aWatches :=
  check_induct (fun u => u.aWatches = t.aWatches)
    (fun u xi xj l v _ hP _ _ _ => by rw [pivotAndUpdate_aWatches]; exact hP) fuel t t' c ht rfl h

theorem InLevel.check {B t t' : Lra} (h : InLevel B t) {fuel : Nat} {c : Option (List Lit)}
    (hc : t.check fuel = some (c, t')) : InLevel B t' := by
  have hcore := (C09_core_iff t t').1 (C09_core_check fuel t t' c hc)
  have hss := sameSol_check fuel t t' c h.sol.1 hc
  exact ⟨popInvW_congr hcore.1 hcore.2.2.1 h.pinv, hcore.2.2.2.1.trans h.exprs, hcore.2.2.2.2.trans h.sAsrts,
    hcore.2.1.trans h.vAsrts, (check_aWatches_u h.sol.1 hc).trans h.aWatches,
    (check_vals_length h.sol.1 hc).trans h.nvars, h.sol.trans hss⟩

theorem InLevel.callStep {B t : Lra} (h : InLevel B t) (c : LCall) : InLevel B (callStep t c) := by
  cases c with
  | lower s x v p => exact h.assertLower s x v p
  | upper s x v p => exact h.assertUpper s x v p
  | lit s p => exact h.propagateLit s p
  | check fuel =>
    show InLevel B (match t.check fuel with
      | some (_, t') => t'
      | none => t)
    cases hc : t.check fuel with
    | none => exact h
    | some r =>
      obtain ⟨c, t'⟩ := r
      exact h.check hc

theorem InLevel.runCalls {B : Lra} : ∀ (cs : List LCall) {t : Lra}, InLevel B t → InLevel B (runCalls t cs) := by
  intro cs
  induction cs with
  | nil => intro t h; exact h
  | cons c cs ih => intro t h; exact ih (h.callStep c)

/-! ### `pop` -/

theorem pop_regs (t : Lra) : t.pop.exprs = t.exprs ∧ t.pop.sAsrts = t.sAsrts := by
  unfold pop
  split
  · exact ⟨rfl, rfl⟩
  · next l ls _ =>
    exact C09_foldl_inv (fun (u : Lra) => u.exprs = t.exprs ∧ u.sAsrts = t.sAsrts)
      (fun (u : Lra) (e : Nat × LBound) => u.setBound e.1 e.2) (fun u e hu => hu) l t ⟨rfl, rfl⟩

/-- the relation between the state at a `push` and the state after the matching `pop` -/
structure Restored (B u : Lra) : Prop where
  vis : SameVisible B u
  sol : SameSol B u

theorem Restored.refl {B : Lra} (hB : TabWF B) : Restored B B :=
  ⟨⟨rfl, rfl, rfl, rfl, rfl, rfl, rfl⟩, SameSol.refl hB⟩

theorem Restored.trans {A B C : Lra} (h1 : Restored A B) (h2 : Restored B C) : Restored A C :=
  ⟨⟨h2.vis.bounds.trans h1.vis.bounds, h2.vis.layers.trans h1.vis.layers, h2.vis.exprs.trans h1.vis.exprs,
    h2.vis.sAsrts.trans h1.vis.sAsrts, h2.vis.vAsrts.trans h1.vis.vAsrts, h2.vis.aWatches.trans h1.vis.aWatches,
    h2.vis.nvars.trans h1.vis.nvars⟩, h1.sol.trans h2.sol⟩

theorem InLevel.pop {B u : Lra} (h : InLevel B u) : Restored B u.pop := by
  obtain ⟨p1, p2, p3, p4, p5⟩ := pop_same u
  obtain ⟨q1, q2⟩ := pop_regs u
  obtain ⟨b1, b2⟩ := pop_of_invW B u h.pinv
  exact ⟨⟨b1, b2, q1.trans h.exprs, q2.trans h.sAsrts, p4.trans h.vAsrts, p5.trans h.aWatches, by rw [p3]; exact h.nvars⟩,
    sameSol_of_tableau h.sol p1 (tabWF_congr p1 p2 (by rw [p3]) h.sol.1)⟩

/-- `InLevel B'` only depends on the visible part and the solutions of its second argument -/
theorem InLevel.congr {B' B u : Lra} (h : InLevel B' B) (r : Restored B u) : InLevel B' u :=
  ⟨popInvW_congr r.vis.bounds r.vis.layers h.pinv, r.vis.exprs.trans h.exprs, r.vis.sAsrts.trans h.sAsrts,
    r.vis.vAsrts.trans h.vAsrts, r.vis.aWatches.trans h.aWatches, r.vis.nvars.trans h.nvars, h.sol.trans r.sol⟩

/-- target 1, one level -/
theorem push_calls_pop {B : Lra} (hB : TabWF B) (cs : List LCall) : Restored B (runCalls B.push cs).pop :=
  (InLevel.runCalls cs (inLevel_push hB)).pop

/-! ### nested levels -/

/-- the open levels, innermost first, down to the state `root` the history started from -/
def ChainTo (root : Lra) : List Lra → Lra → Prop
  | [], cur => Restored root cur
  | B :: bs, cur => InLevel B cur ∧ ChainTo root bs B

theorem ChainTo.congr {root : Lra} : ∀ {bs : List Lra} {B u : Lra}, ChainTo root bs B → Restored B u → ChainTo root bs u
  | [], _, _, h, r => Restored.trans h r
  | _ :: _, _, _, h, r => ⟨h.1.congr r, h.2⟩

theorem ChainTo.tabWF {root : Lra} : ∀ {bs : List Lra} {cur : Lra}, ChainTo root bs cur → TabWF cur
  | [], _, h => h.sol.1
  | _ :: _, _, h => h.1.sol.1

theorem events_main {root : Lra} : ∀ (evs : List LEvent) (bs : List Lra) (cur : Lra), ChainTo root bs cur →
    balanced evs bs.length = true → Restored root (runEvents cur evs) := by
  intro evs
  induction evs with
  | nil =>
    intro bs cur hc hb
    cases bs with
    | nil => exact hc
    | cons B bs => simp [balanced] at hb
  | cons e rest ih =>
    intro bs cur hc hb
    cases e with
    | push =>
      simp only [runEvents]
      exact ih (cur :: bs) cur.push ⟨inLevel_push hc.tabWF, hc⟩ (by simpa [balanced] using hb)
    | pop =>
      cases bs with
      | nil => simp [balanced] at hb
      | cons B bs =>
        simp only [runEvents]
        exact ih bs cur.pop (hc.2.congr hc.1.pop) (by simpa [balanced] using hb)
    | call c =>
      cases bs with
      | nil => simp [balanced] at hb
      | cons B bs =>
        simp only [runEvents]
        exact ih (B :: bs) _ ⟨hc.1.callStep c, hc.2⟩ (by simpa [balanced] using hb)

theorem balanced_history {t : Lra} (ht : TabWF t) (evs : List LEvent) (h : balanced evs 0 = true) :
    Restored t (runEvents t evs) :=
  events_main evs [] t (Restored.refl ht) h

end Lra
end Oratio
