/-
Lemmas for property C14, part 3: `newEq`.

The loop of `new_eq` ignores the result of `new_clause`, so the proof is semantic
(`postAll_spec` in Ov.lean): as soon as ONE model of the network satisfies all the posted
clauses, no `new_clause` can have failed, and every model of the result satisfies them all.

Two facts found on the way (both confirmed with `#eval`), which shaped the statements:
  * "requesting an equality loses no model" only holds for models in which neither variable
    takes two VALUES at once.  `((init.newVar [1,2] false).2.newVar [1,2] false).2` with
    b1,b2,b3 true, b4 false has no extension after `newEq 0 1` (`[eq,¬b1,¬b3]`, `[¬eq,¬b2,b4]`).
    The condition must be on values, not on distinct literals: a `newVarLits` domain may map
    two values to the same literal (`newVarLits [b1,b1] [1,2]`).
  * without "every cached pair has a common value" in `WF`, a state satisfying the invariant
    may cache a literal for a disjoint pair, and `newEq` then returns it instead of FALSE.
-/
import OratioProofs.Lemmas.Ov

namespace Oratio
namespace OvL
open Enc EncL

/-! ## the clauses of an equality, as a propositional formula -/

/-- the right-hand guard of a common value -/
def rv (dr : List (Nat × Lit)) (k : Nat) : Lit := (Ov.lookupVal dr k).getD Lit.falseLit

/-- the clauses posted by `new_eq` (same text as in the model) -/
def eqClauses (dl dr : List (Nat × Lit)) (eq : Lit) : List (List Lit) :=
  (dl.filter (fun e => !dr.any (fun f => f.1 == e.1))).map (fun e => [eq.neg, e.2.neg]) ++
  (dr.filter (fun e => !dl.any (fun f => f.1 == e.1))).map (fun e => [eq.neg, e.2.neg]) ++
  (dl.filter (fun e => dr.any (fun f => f.1 == e.1))).flatMap (fun e =>
    [[eq.neg, e.2.neg, rv dr e.1], [eq.neg, e.2, (rv dr e.1).neg], [eq, e.2.neg, (rv dr e.1).neg]])

theorem cnf_eqClauses (β : Asg) (dl dr : List (Nat × Lit)) (eq : Lit) :
    β.cnf (eqClauses dl dr eq) = true ↔
      (∀ e ∈ dl, (∀ f ∈ dr, f.1 ≠ e.1) → β.lit eq = true → β.lit e.2 = false) ∧
      (∀ e ∈ dr, (∀ f ∈ dl, f.1 ≠ e.1) → β.lit eq = true → β.lit e.2 = false) ∧
      (∀ e ∈ dl, (∃ f ∈ dr, f.1 = e.1) →
        (β.lit eq = true → (β.lit e.2 = true ↔ β.lit (rv dr e.1) = true)) ∧
        (β.lit e.2 = true → β.lit (rv dr e.1) = true → β.lit eq = true)) := by
  simp only [eqClauses, Asg.cnf, List.all_append, List.all_map, List.all_flatMap, Bool.and_eq_true,
    List.all_eq_true, List.mem_filter, Function.comp]
  rw [and_assoc]
  refine and_congr (forall_congr' fun e => ?_) (and_congr (forall_congr' fun e => ?_) (forall_congr' fun e => ?_))
  · have hb : (!dr.any fun f => f.fst == e.fst) = true ↔ ∀ f ∈ dr, f.1 ≠ e.1 := by simp
    rw [hb]
    cases h1 : β.lit eq <;> cases h2 : β.lit e.2 <;> simp [Asg.clause, lit_neg, h1, h2]
  · have hb : (!dl.any fun f => f.fst == e.fst) = true ↔ ∀ f ∈ dl, f.1 ≠ e.1 := by simp
    rw [hb]
    cases h1 : β.lit eq <;> cases h2 : β.lit e.2 <;> simp [Asg.clause, lit_neg, h1, h2]
  · have hb : (dr.any fun f => f.fst == e.fst) = true ↔ ∃ f ∈ dr, f.1 = e.1 := by simp
    rw [hb]
    cases h1 : β.lit eq <;> cases h2 : β.lit e.2 <;> cases h3 : β.lit (rv dr e.1) <;>
      simp [Asg.clause, lit_neg, h1, h2, h3]

/-- `Takes` on a bare domain -/
def TakesD (α : Asg) (d : List (Nat × Lit)) (k : Nat) : Prop :=
  (∃ l, Ov.lookupVal d k = some l ∧ α.lit l = true) ∧ ∀ e ∈ d, e.1 ≠ k → α.lit e.2 = false

theorem rv_mem {dr : List (Nat × Lit)} {k : Nat} (h : ∃ f ∈ dr, f.1 = k) : (k, rv dr k) ∈ dr := by
  obtain ⟨f, hf, hfk⟩ := h
  obtain ⟨l', hl'⟩ := lookupVal_isSome_of_mem hf
  rw [hfk] at hl'
  have hrv : rv dr k = l' := by simp [rv, hl']
  rw [hrv]
  exact lookupVal_some_mem hl'

/-- in a model of the clauses the equality literal says "same value" -/
theorem eq_iff_of_cnf {β : Asg} {dl dr : List (Nat × Lit)} {eq : Lit} {ka kb : Nat}
    (hc : β.cnf (eqClauses dl dr eq) = true) (ha : TakesD β dl ka) (hb : TakesD β dr kb) :
    β.lit eq = true ↔ ka = kb := by
  obtain ⟨c1, _, c3⟩ := (cnf_eqClauses β dl dr eq).1 hc
  obtain ⟨⟨la, hla, hlat⟩, _⟩ := ha
  obtain ⟨⟨lb, hlb, hlbt⟩, hb2⟩ := hb
  have hma := lookupVal_some_mem hla
  have hmb := lookupVal_some_mem hlb
  constructor
  · intro heq
    by_cases hex : ∃ f ∈ dr, f.1 = ka
    · have h3 := ((c3 (ka, la) hma hex).1 heq).1 hlat
      refine Classical.byContradiction fun hne => ?_
      have := hb2 (ka, rv dr ka) (rv_mem hex) hne
      rw [h3] at this; cases this
    · have := c1 (ka, la) hma (fun f hf hfk => hex ⟨f, hf, hfk⟩) heq
      rw [hlat] at this; cases this
  · intro hk
    subst hk
    have hrv : rv dr ka = lb := by simp [rv, hlb]
    exact (c3 (ka, la) hma ⟨(ka, lb), hmb, rfl⟩).2 hlat (by rw [hrv]; exact hlbt)

/-- an assignment in which neither variable takes two values satisfies the clauses, for the
    right value of the equality literal -/
theorem cnf_of_amo {β : Asg} {dl dr : List (Nat × Lit)} {eq : Lit} (hnd : (dl.map (·.1)).Nodup)
    (ha : ∀ e ∈ dl, ∀ f ∈ dl, β.lit e.2 = true → β.lit f.2 = true → e.1 = f.1)
    (hb : ∀ e ∈ dr, ∀ f ∈ dr, β.lit e.2 = true → β.lit f.2 = true → e.1 = f.1)
    (heq : β.lit eq = true ↔
      ∃ e ∈ dl, (∃ f ∈ dr, f.1 = e.1) ∧ β.lit e.2 = true ∧ β.lit (rv dr e.1) = true) :
    β.cnf (eqClauses dl dr eq) = true := by
  rw [cnf_eqClauses]
  refine ⟨fun e he hno ht => ?_, fun e he hno ht => ?_, fun e he hex =>
    ⟨fun ht => ⟨fun h2 => ?_, fun h3 => ?_⟩, fun h2 h3 => heq.2 ⟨e, he, hex, h2, h3⟩⟩⟩
  · obtain ⟨e0, he0, hex0, h20, _⟩ := heq.1 ht
    cases hv : β.lit e.2 with
    | false => rfl
    | true =>
      have := ha e he e0 he0 hv h20
      obtain ⟨f, hf, hfk⟩ := hex0
      exact absurd (hfk.trans this.symm) (hno f hf)
  · obtain ⟨e0, he0, hex0, _, h30⟩ := heq.1 ht
    cases hv : β.lit e.2 with
    | false => rfl
    | true =>
      have : e.1 = e0.1 := hb e he (e0.1, rv dr e0.1) (rv_mem hex0) hv h30
      exact absurd this.symm (hno e0 he0)
  · obtain ⟨e0, he0, _, h20, h30⟩ := heq.1 ht
    have := ha e he e0 he0 h2 h20
    rw [this]; exact h30
  · obtain ⟨e0, he0, hex0, h20, h30⟩ := heq.1 ht
    have h1 : e.1 = e0.1 := hb (e.1, rv dr e.1) (rv_mem hex) (e0.1, rv dr e0.1) (rv_mem hex0) h3 h30
    have : e = e0 := eq_of_nodup_map hnd he he0 h1
    rw [this]; exact h20

/-! ## `newEq` on an ordered pair -/

/-- `newEq` after the ordering of the pair (same text as in the model) -/
def eqCore (s : Ov) (l r : Nat) : Lit × Ov :=
  match (s.eqs.find? (fun e => e.1 = (l, r))).map (·.2) with
  | some x => (x, s)
  | none =>
    if ((s.dom l).filter (fun e => (s.dom r).any (fun f => f.1 == e.1))).isEmpty then (Lit.falseLit, s)
    else
      (⟨s.enc.nvars, true⟩,
        { s with
          enc := (eqClauses (s.dom l) (s.dom r) ⟨s.enc.nvars, true⟩).foldl
            (fun e c => (e.newClause c).2) s.enc.newVar.2
          eqs := s.eqs ++ [((l, r), ⟨s.enc.nvars, true⟩)] })

theorem newEq_eq (s : Ov) (a b : Nat) :
    s.newEq a b = if a = b then (Lit.trueLit, s) else if a > b then eqCore s b a else eqCore s a b := by
  unfold Ov.newEq
  by_cases hab : a = b
  · simp only [if_pos hab]
  · simp only [if_neg hab]
    by_cases hgt : a > b
    · simp only [if_pos hgt]; rfl
    · simp only [if_neg hgt]; rfl

theorem dom_mem {s : Ov} {v : Nat} (hv : v < s.doms.length) : s.dom v ∈ s.doms := by
  unfold Ov.dom
  rw [List.getD_eq_getElem?_getD, List.getElem?_eq_getElem hv]
  exact List.getElem_mem hv

theorem eqClauses_range {dl dr : List (Nat × Lit)} {eq : Lit} {n : Nat} (hq : eq.var < n) (h0 : 0 < n)
    (hl : ∀ e ∈ dl, e.2.var < n) (hr : ∀ e ∈ dr, e.2.var < n) :
    ∀ c ∈ eqClauses dl dr eq, ∀ x ∈ c, x.var < n := by
  have hrv : ∀ k, (rv dr k).var < n := by
    intro k
    unfold rv
    cases hlk : Ov.lookupVal dr k with
    | none => exact h0
    | some l => exact hr _ (lookupVal_some_mem hlk)
  intro c hc x hx
  simp only [eqClauses, List.mem_append, List.mem_map, List.mem_flatMap, List.mem_filter] at hc
  rcases hc with (⟨e, ⟨he, _⟩, rfl⟩ | ⟨e, ⟨he, _⟩, rfl⟩) | ⟨e, ⟨he, _⟩, hc⟩
  · simp only [List.mem_cons, List.not_mem_nil, or_false] at hx
    rcases hx with rfl | rfl
    · exact hq
    · exact hl e he
  · simp only [List.mem_cons, List.not_mem_nil, or_false] at hx
    rcases hx with rfl | rfl
    · exact hq
    · exact hr e he
  · simp only [List.mem_cons, List.not_mem_nil, or_false] at hc
    rcases hc with rfl | rfl | rfl <;>
      simp only [List.mem_cons, List.not_mem_nil, or_false] at hx <;>
      rcases hx with rfl | rfl | rfl <;>
      first | exact hq | exact hl e he | exact hrv e.1

/-- "takes at most one value" on a bare domain -/
def AmoD (α : Asg) (d : List (Nat × Lit)) : Prop :=
  ∀ e ∈ d, ∀ f ∈ d, α.lit e.2 = true → α.lit f.2 = true → e.1 = f.1

def AtMostOneValue (α : Asg) (s : Ov) (v : Nat) : Prop :=
  ∀ e ∈ s.dom v, ∀ f ∈ s.dom v, α.lit e.2 = true → α.lit f.2 = true → e.1 = f.1

theorem amoD_of_takes {α : Asg} {d : List (Nat × Lit)} {k : Nat} (h : TakesD α d k) : AmoD α d := by
  intro e he f hf h1 h2
  have he1 : e.1 = k := Classical.byContradiction fun hne => by
    have := h.2 e he hne; rw [h1] at this; cases this
  have hf1 : f.1 = k := Classical.byContradiction fun hne => by
    have := h.2 f hf hne; rw [h2] at this; cases this
  rw [he1, hf1]

theorem eqCore_some {s : Ov} {l r : Nat} {x : Lit}
    (hf : (s.eqs.find? (fun e => e.1 = (l, r))).map (·.2) = some x) : eqCore s l r = (x, s) := by
  unfold eqCore; rw [hf]

theorem eqCore_empty {s : Ov} {l r : Nat}
    (hf : (s.eqs.find? (fun e => e.1 = (l, r))).map (·.2) = none)
    (he : ((s.dom l).filter (fun e => (s.dom r).any (fun f => f.1 == e.1))).isEmpty = true) :
    eqCore s l r = (Lit.falseLit, s) := by
  unfold eqCore; rw [hf]; simp only [he, if_true]

theorem eqCore_fresh {s : Ov} {l r : Nat}
    (hf : (s.eqs.find? (fun e => e.1 = (l, r))).map (·.2) = none)
    (he : ((s.dom l).filter (fun e => (s.dom r).any (fun f => f.1 == e.1))).isEmpty = false) :
    eqCore s l r = (⟨s.enc.nvars, true⟩,
        { s with
          enc := (eqClauses (s.dom l) (s.dom r) ⟨s.enc.nvars, true⟩).foldl
            (fun e c => (e.newClause c).2) s.enc.newVar.2
          eqs := s.eqs ++ [((l, r), ⟨s.enc.nvars, true⟩)] }) := by
  unfold eqCore; rw [hf]; simp only [he, Bool.false_eq_true, if_false]

/-- a repeated request is answered from the cache (or by the same shortcut) -/
theorem eqCore_idem (s : Ov) (l r : Nat) : eqCore (eqCore s l r).2 l r = eqCore s l r := by
  cases hf : (s.eqs.find? (fun e => e.1 = (l, r))).map (·.2) with
  | some x => rw [eqCore_some hf]; exact eqCore_some hf
  | none =>
    cases he : ((s.dom l).filter (fun e => (s.dom r).any (fun f => f.1 == e.1))).isEmpty with
    | true => rw [eqCore_empty hf he]; exact eqCore_empty hf he
    | false =>
      rw [eqCore_fresh hf he]
      refine eqCore_some ?_
      simp only [Option.map_eq_none_iff] at hf
      simp only [List.find?_append, hf, Option.none_or]
      simp

theorem common_of_inter {dl dr : List (Nat × Lit)}
    (he : (dl.filter (fun e => dr.any (fun f => f.1 == e.1))).isEmpty = false) :
    ∃ e ∈ dl, ∃ f ∈ dr, f.1 = e.1 := by
  cases hfl : dl.filter (fun e => dr.any (fun f => f.1 == e.1)) with
  | nil => rw [hfl] at he; cases he
  | cons e t =>
    have : e ∈ dl.filter (fun e => dr.any (fun f => f.1 == e.1)) := by rw [hfl]; simp
    simp only [List.mem_filter, List.any_eq_true, beq_iff_eq] at this
    exact ⟨e, this.1, this.2⟩

theorem inter_of_disjoint {dl dr : List (Nat × Lit)} (hd : ∀ e ∈ dl, ∀ f ∈ dr, e.1 ≠ f.1) :
    (dl.filter (fun e => dr.any (fun f => f.1 == e.1))).isEmpty = true := by
  cases he : (dl.filter (fun e => dr.any (fun f => f.1 == e.1))).isEmpty with
  | true => rfl
  | false =>
    obtain ⟨e, he, f, hf, hfe⟩ := common_of_inter he
    exact absurd hfe.symm (hd e he f hf)

theorem find_entry {s : Ov} {l r : Nat} {x : Lit}
    (hf : (s.eqs.find? (fun e => e.1 = (l, r))).map (·.2) = some x) : ((l, r), x) ∈ s.eqs := by
  cases hq : s.eqs.find? (fun e => e.1 = (l, r)) with
  | none => rw [hq] at hf; cases hf
  | some e =>
    rw [hq] at hf
    simp only [Option.map_some, Option.some.injEq] at hf
    have h1 : e.1 = (l, r) := by simpa using List.find?_some hq
    have h2 := List.mem_of_find?_eq_some hq
    rw [← h1, ← hf]; exact h2

/-- adding a cache entry -/
theorem inv_push_eq {e : Enc} {doms : List (List (Nat × Lit))} {eqs : List ((Nat × Nat) × Lit)}
    (h : Inv ⟨e, doms, eqs⟩) {l r : Nat} {x : Lit} (hlr : l < r) (hr : r < doms.length)
    (hx : x.var < e.nvars)
    (hk : ∃ k, (Ov.lookupVal ((Ov.mk e doms eqs).dom l) k).isSome ∧
      (Ov.lookupVal ((Ov.mk e doms eqs).dom r) k).isSome)
    (hm : EqMeans ⟨e, doms, eqs⟩ l r x) : Inv ⟨e, doms, eqs ++ [((l, r), x)]⟩ := by
  obtain ⟨⟨w1, w2, w3⟩, h2⟩ := h
  refine ⟨⟨w1, w2, fun y hy => ?_⟩, fun y hy => ?_⟩
  · simp only [List.mem_append, List.mem_singleton] at hy
    rcases hy with hy | rfl
    · exact w3 y hy
    · exact ⟨hlr, hr, hx, hk⟩
  · simp only [List.mem_append, List.mem_singleton] at hy
    rcases hy with hy | rfl
    · exact h2 y hy
    · exact hm

theorem eqCore_spec {s : Ov} (h : Inv s) {l r : Nat} (hlr : l < r) (hr : r < s.doms.length) :
    Inv (eqCore s l r).2 ∧ (eqCore s l r).1.var < (eqCore s l r).2.enc.nvars ∧
    (eqCore s l r).2.doms = s.doms ∧
    EqMeans (eqCore s l r).2 l r (eqCore s l r).1 ∧
    (∀ α, EncL.Sat α s.enc → AtMostOneValue α s l → AtMostOneValue α s r →
      ∃ α', EncL.Sat α' (eqCore s l r).2.enc ∧ ∀ v, v < s.enc.nvars → α' v = α v) ∧
    Refines s.enc (eqCore s l r).2.enc := by
  have hpos : 0 < s.enc.nvars := nvars_pos h.1.1.1
  cases hf : (s.eqs.find? (fun e => e.1 = (l, r))).map (·.2) with
  | some x =>
    rw [eqCore_some hf]
    have hmem := find_entry hf
    refine ⟨h, (h.1.2.2 _ hmem).2.2.1, rfl, h.2 _ hmem, fun α hα _ _ => ⟨α, hα, fun _ _ => rfl⟩,
      Refines.refl _⟩
  | none =>
    cases he : ((s.dom l).filter (fun e => (s.dom r).any (fun f => f.1 == e.1))).isEmpty with
    | true =>
      rw [eqCore_empty hf he]
      refine ⟨h, hpos, rfl, fun α hα ka kb hka hkb => ?_, fun α hα _ _ => ⟨α, hα, fun _ _ => rfl⟩,
        Refines.refl _⟩
      have hfl : α.lit Lit.falseLit = false := lit_falseLit hα.1
      constructor
      · intro ht; rw [hfl] at ht; cases ht
      · intro hk
        subst hk
        obtain ⟨la, hla, _⟩ := takes_mem hka
        obtain ⟨lb, hlb, _⟩ := takes_mem hkb
        have : (ka, la) ∈ (s.dom l).filter (fun e => (s.dom r).any (fun f => f.1 == e.1)) := by
          simp only [List.mem_filter, List.any_eq_true, beq_iff_eq]
          exact ⟨hla, (ka, lb), hlb, rfl⟩
        rw [List.isEmpty_iff] at he
        rw [he] at this
        cases this
    | false =>
      rw [eqCore_fresh hf he]
      have hll : l < s.doms.length := Nat.lt_trans hlr hr
      obtain ⟨dl1, _, dl3⟩ := h.1.2.1 _ (dom_mem hll)
      obtain ⟨_, _, dr3⟩ := h.1.2.1 _ (dom_mem hr)
      have hE1 : EncL.Inv s.enc.newVar.2 := inv_addVars h.1.1 1
      have hn1 : s.enc.newVar.2.nvars = s.enc.nvars + 1 := nvars_addVars s.enc 1
      have hrange : ∀ c ∈ eqClauses (s.dom l) (s.dom r) ⟨s.enc.nvars, true⟩, InRange s.enc.newVar.2 c := by
        intro c hc x hx
        rw [hn1]
        exact eqClauses_range (n := s.enc.nvars + 1) (Nat.lt_succ_self _) (Nat.succ_pos _)
          (fun e he => Nat.lt_succ_of_lt (dl3 e he)) (fun e he => Nat.lt_succ_of_lt (dr3 e he)) c hc x hx
      obtain ⟨p1, p2, p3, p4, p5⟩ := postAll_spec _ hE1 hrange
      generalize (eqClauses (s.dom l) (s.dom r) ⟨s.enc.nvars, true⟩).foldl
        (fun e c => (e.newClause c).2) s.enc.newVar.2 = E2 at p1 p2 p3 p4 p5 ⊢
      have href : Refines s.enc E2 :=
        ⟨by rw [p2, hn1]; exact Nat.le_succ _, fun α hα => (sat_addVars α s.enc 1).1 (p3 α hα)⟩
      -- every model in which neither variable takes two values extends to the clauses
      have hC : ∀ α, EncL.Sat α s.enc → AmoD α (s.dom l) → AmoD α (s.dom r) →
          ∃ b, EncL.Sat (upd α s.enc.nvars b) s.enc.newVar.2 ∧
            (upd α s.enc.nvars b).cnf (eqClauses (s.dom l) (s.dom r) ⟨s.enc.nvars, true⟩) = true := by
        intro α hα ha hb
        have hag : ∀ x : Lit, x.var < s.enc.nvars → ∀ b, (upd α s.enc.nvars b).lit x = α.lit x :=
          fun x hx b => lit_congr (upd_lt α b hx)
        have hsat : ∀ b, EncL.Sat (upd α s.enc.nvars b) s.enc.newVar.2 := fun b =>
          sat_addVars_of_agree h.1.1.1 1 hα (fun x hx => upd_lt α _ hx)
        have key : ∀ b, (b = true ↔ ∃ e ∈ s.dom l, (∃ f ∈ s.dom r, f.1 = e.1) ∧ α.lit e.2 = true ∧
            α.lit (rv (s.dom r) e.1) = true) →
            (upd α s.enc.nvars b).cnf (eqClauses (s.dom l) (s.dom r) ⟨s.enc.nvars, true⟩) = true := by
          intro b hb'
          refine cnf_of_amo dl1 ?_ ?_ ?_
          · intro e he f hf h1 h2
            rw [hag _ (dl3 e he)] at h1
            rw [hag _ (dl3 f hf)] at h2
            exact ha e he f hf h1 h2
          · intro e he f hf h1 h2
            rw [hag _ (dr3 e he)] at h1
            rw [hag _ (dr3 f hf)] at h2
            exact hb e he f hf h1 h2
          · rw [lit_pos, upd_same, hb']
            constructor
            · rintro ⟨e, he, hex, h2, h3⟩
              have hx : (rv (s.dom r) e.1).var < s.enc.nvars := dr3 _ (rv_mem hex)
              exact ⟨e, he, hex, by rw [hag _ (dl3 e he)]; exact h2, by rw [hag _ hx]; exact h3⟩
            · rintro ⟨e, he, hex, h2, h3⟩
              have hx : (rv (s.dom r) e.1).var < s.enc.nvars := dr3 _ (rv_mem hex)
              rw [hag _ (dl3 e he)] at h2
              rw [hag _ hx] at h3
              exact ⟨e, he, hex, h2, h3⟩
        by_cases hP : ∃ e ∈ s.dom l, (∃ f ∈ s.dom r, f.1 = e.1) ∧ α.lit e.2 = true ∧
            α.lit (rv (s.dom r) e.1) = true
        · exact ⟨true, hsat true, key true ⟨fun _ => hP, fun _ => rfl⟩⟩
        · exact ⟨false, hsat false, key false ⟨fun hh => (by cases hh), fun hh => absurd hh hP⟩⟩
      have hmeans : EqMeans ⟨E2, s.doms, s.eqs⟩ l r ⟨s.enc.nvars, true⟩ := by
        intro α hα ka kb hka hkb
        have ha : AmoD α (s.dom l) := amoD_of_takes (d := s.dom l) hka
        have hb : AmoD α (s.dom r) := amoD_of_takes (d := s.dom r) hkb
        obtain ⟨b, hb1, hb2⟩ := hC α (href.2 α hα) ha hb
        have hcnf := p5 ⟨_, hb1, hb2⟩ α hα
        exact eq_iff_of_cnf (dl := s.dom l) (dr := s.dom r) hcnf hka hkb
      have hnv : s.enc.nvars < E2.nvars := by rw [p2, hn1]; exact Nat.lt_succ_self _
      refine ⟨?_, hnv, rfl, hmeans, fun α hα ha hb => ?_, href⟩
      · refine inv_push_eq (inv_update_nil h p1 href) hlr hr hnv ?_ hmeans
        obtain ⟨e, he', f, hf', hfe⟩ := common_of_inter he
        obtain ⟨l1, hl1⟩ := lookupVal_isSome_of_mem he'
        obtain ⟨l2, hl2⟩ := lookupVal_isSome_of_mem hf'
        rw [hfe] at hl2
        refine ⟨e.1, ?_, ?_⟩
        · show (Ov.lookupVal (s.dom l) e.1).isSome = true
          rw [hl1]; rfl
        · show (Ov.lookupVal (s.dom r) e.1).isSome = true
          rw [hl2]; rfl
      · obtain ⟨b, hb1, hb2⟩ := hC α hα ha hb
        exact ⟨_, p4 _ hb1 hb2, fun x hx => upd_lt α b hx⟩

theorem eqCore_disjoint {s : Ov} (h : Inv s) {l r : Nat}
    (hd : ∀ e ∈ s.dom l, ∀ f ∈ s.dom r, e.1 ≠ f.1) : eqCore s l r = (Lit.falseLit, s) := by
  cases hf : (s.eqs.find? (fun e => e.1 = (l, r))).map (·.2) with
  | some x =>
    obtain ⟨_, _, _, k, hk1, hk2⟩ := h.1.2.2 _ (find_entry hf)
    obtain ⟨l1, hl1⟩ := Option.isSome_iff_exists.1 hk1
    obtain ⟨l2, hl2⟩ := Option.isSome_iff_exists.1 hk2
    exact absurd rfl (hd (k, l1) (lookupVal_some_mem hl1) (k, l2) (lookupVal_some_mem hl2))
  | none => exact eqCore_empty hf (inter_of_disjoint hd)

/-! ## `newEq` -/

theorem eqMeans_symm {s : Ov} {a b : Nat} {x : Lit} (h : EqMeans s a b x) : EqMeans s b a x :=
  fun α hα ka kb hka hkb => (h α hα kb ka hkb hka).trans ⟨Eq.symm, Eq.symm⟩

theorem eq_iff_same_aux (s : Ov) (a b : Nat) (h : Inv s) (ha : a < s.doms.length) (hb : b < s.doms.length)
    (r : Lit × Ov) (hr : s.newEq a b = r) :
    Inv r.2 ∧ r.1.var < r.2.enc.nvars ∧ r.2.doms = s.doms ∧
    EqMeans r.2 a b r.1 ∧
    (∀ α, EncL.Sat α s.enc → AtMostOneValue α s a → AtMostOneValue α s b →
       ∃ α', EncL.Sat α' r.2.enc ∧ ∀ v, v < s.enc.nvars → α' v = α v) ∧
    Refines s.enc r.2.enc := by
  rw [newEq_eq] at hr
  by_cases hab : a = b
  · rw [if_pos hab] at hr
    subst hr
    subst hab
    exact ⟨h, nvars_pos h.1.1.1, rfl,
      fun α hα ka kb hka hkb => ⟨fun _ => takes_unique hka hkb, fun _ => lit_trueLit hα.1⟩,
      fun α hα _ _ => ⟨α, hα, fun _ _ => rfl⟩, Refines.refl _⟩
  · rw [if_neg hab] at hr
    by_cases hgt : a > b
    · rw [if_pos hgt] at hr
      subst hr
      obtain ⟨s1, s2, s3, s4, s5, s6⟩ := eqCore_spec h hgt ha
      exact ⟨s1, s2, s3, eqMeans_symm s4, fun α hα h1 h2 => s5 α hα h2 h1, s6⟩
    · rw [if_neg hgt] at hr
      subst hr
      exact eqCore_spec h (by omega) hb

theorem eq_iff_same (s : Ov) (a b : Nat) (h : Inv s) (ha : a < s.doms.length) (hb : b < s.doms.length) :
    let r := s.newEq a b
    Inv r.2 ∧ r.1.var < r.2.enc.nvars ∧ r.2.doms = s.doms ∧
    EqMeans r.2 a b r.1 ∧
    (∀ α, EncL.Sat α s.enc → AtMostOneValue α s a → AtMostOneValue α s b →
       ∃ α', EncL.Sat α' r.2.enc ∧ ∀ v, v < s.enc.nvars → α' v = α v) ∧
    Refines s.enc r.2.enc :=
  eq_iff_same_aux s a b h ha hb _ rfl

theorem disjoint_never_equal (s : Ov) (a b : Nat) (h : Inv s) (hab : a ≠ b)
    (hd : ∀ e ∈ s.dom a, ∀ f ∈ s.dom b, e.1 ≠ f.1) : s.newEq a b = (Lit.falseLit, s) := by
  rw [newEq_eq, if_neg hab]
  split
  · exact eqCore_disjoint h (fun e he f hf => (hd f hf e he).symm)
  · exact eqCore_disjoint h hd

theorem eq_cache_aux (s : Ov) (a b : Nat) (r : Lit × Ov) (hr : s.newEq a b = r) :
    r.2.newEq a b = r ∧ r.2.newEq b a = r := by
  rw [newEq_eq] at hr
  by_cases hab : a = b
  · rw [if_pos hab] at hr
    subst hr
    subst hab
    rw [newEq_eq, if_pos rfl]
    exact ⟨rfl, rfl⟩
  · rw [if_neg hab] at hr
    by_cases hgt : a > b
    · rw [if_pos hgt] at hr
      subst hr
      constructor
      · rw [newEq_eq, if_neg hab, if_pos hgt]; exact eqCore_idem s b a
      · rw [newEq_eq, if_neg (Ne.symm hab), if_neg (by omega)]; exact eqCore_idem s b a
    · rw [if_neg hgt] at hr
      subst hr
      constructor
      · rw [newEq_eq, if_neg hab, if_neg hgt]; exact eqCore_idem s a b
      · rw [newEq_eq, if_neg (Ne.symm hab), if_pos (by omega)]; exact eqCore_idem s a b

theorem eq_cache (s : Ov) (a b : Nat) :
    s.newEq a a = (Lit.trueLit, s) ∧
    (let r := s.newEq a b; r.2.newEq a b = (r.1, r.2) ∧ r.2.newEq b a = (r.1, r.2)) := by
  refine ⟨by rw [newEq_eq, if_pos rfl], ?_⟩
  exact eq_cache_aux s a b _ rfl

end OvL
end Oratio
