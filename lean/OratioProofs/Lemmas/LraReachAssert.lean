/-
Helper lemmas for `Properties/C09Reach.lean`, part 8: `assert_lower`, `assert_upper` (hence
`set_lb`, `set_ub`, `set`, `propagate`), `push` and `pop` keep the invariant `Lra.GoodState`.
-/
import OratioModel
import OratioProofs.Lemmas.LraReachCheck
import OratioProofs.Lemmas.LraReachLayers

namespace Oratio
namespace Lra
open Lin

/-! ### transfer of the invariant -/

theorem isBasic_congr {t u : Lra} (h : u.tableau = t.tableau) (x : Nat) : u.isBasic x = t.isBasic x := by
  unfold isBasic; rw [rowOf_eq, rowOf_eq, h]

/-- a state that differs from a good one in the bounds and the undo log only -/
theorem GoodCore.transfer {t u : Lra} (g : GoodCore t) (h1 : u.tableau = t.tableau) (h2 : u.tWatches = t.tWatches)
    (h3 : u.vals = t.vals) (h4 : u.vAsrts = t.vAsrts) (h5 : u.exprs = t.exprs) (hbl : u.bounds.length = t.bounds.length)
    (hbwf : ∀ x, x < u.vals.length → LowerOK (u.lb x) ∧ UpperOK (u.ub x) ∧ IR.le (u.lb x) (u.ub x) = true)
    (hlay : LayersOK u.bounds u.layers) : GoodCore u := by
  have hrat : u.ratAssign = t.ratAssign := by funext x; unfold ratAssign; rw [value_congr_r h3]
  have hinf : u.infAssign = t.infAssign := by funext x; unfold infAssign; rw [value_congr_r h3]
  refine ⟨tabWF_congr h1 h2 (by rw [h3]) g.tab, by rw [h1]; exact g.nz, by rw [h3]; exact g.vfin,
    by rw [h1, hrat]; exact g.rowsRat, by rw [h1, hinf]; exact g.rowsInf, by rw [hbl, h3]; exact g.blen,
    hbwf, by rw [h4, h3]; exact g.asrts, hlay, by rw [h5, h3]; exact g.exprs⟩

/-- `update(x_i, v)` of a non-basic variable to a finite value -/
theorem GoodCore.update {t : Lra} (g : GoodCore t) {xi : Nat} (hnb : t.isBasic xi = false) (hxi : xi < t.vals.length)
    {v : IR} (hv : FinIR v) :
    GoodCore (t.update xi v) ∧ (t.update xi v).value xi = v ∧
    (∀ x, t.isBasic x = false → x ≠ xi → (t.update xi v).value x = t.value x) ∧
    (t.update xi v).tableau = t.tableau ∧ (t.update xi v).vals.length = t.vals.length ∧
    (t.update xi v).bounds = t.bounds := by
  have hfin := value_fin_of_vals g.vfin
  have hnb' := (isBasic_false_iff t xi).1 hnb
  obtain ⟨r1, r2, r3, r4, r5, r6, r7⟩ := update_holds isComp_rat g.tab hnb' hxi (fun x => (hfin x).1) hv.1
    (fun _ => 0) (fun e he => by rw [sub_zero]; exact g.rowsRat e he)
  obtain ⟨-, -, -, -, -, i6, i7⟩ := update_holds isComp_inf g.tab hnb' hxi (fun x => (hfin x).2) hv.2
    (fun l => l.known.toRat) (fun e he => by rw [← evalS_homog]; exact g.rowsInf e he)
  obtain ⟨hb, hva, hly, hex, -⟩ := (C09_core_iff t (t.update xi v)).1 (C09_core_update t xi v)
  refine ⟨⟨tabWF_congr r1 r2 r3 g.tab, by rw [r1]; exact g.nz, ?_, ?_, ?_, by rw [hb, r3]; exact g.blen, ?_, ?_, ?_,
    by rw [hex, r3]; exact g.exprs⟩,
    r4, fun x hx hne => r5 x ((isBasic_false_iff t x).1 hx) hne, r1, r3, hb⟩
  · exact vals_fin_of_value (fun x => ⟨r6 x, i6 x⟩)
  · intro e he
    have := r7 e he
    rw [sub_zero] at this
    exact this
  · intro e he
    rw [evalS_homog]
    exact i7 e he
  · intro x hx
    rw [lb_congr_r hb, ub_congr_r hb]
    exact g.bwf x (r3 ▸ hx)
  · intro e he
    rw [hva] at he
    rw [r3]
    exact g.asrts e he
  · rw [hb, hly]; exact g.lay

/-! ### one bound is overwritten -/

theorem lbIdx_ne {x y : Nat} (h : x ≠ y) : lbIdx x ≠ lbIdx y := by unfold lbIdx; omega
theorem ubIdx_ne {x y : Nat} (h : x ≠ y) : ubIdx x ≠ ubIdx y := by unfold ubIdx; omega
theorem lbIdx_ne_ubIdx (x y : Nat) : lbIdx x ≠ ubIdx y := by unfold lbIdx ubIdx; omega

theorem boundOK_lb (x : Nat) (a : IR) : BoundOK (lbIdx x) a ↔ LowerOK a := by
  unfold BoundOK lbIdx
  rw [if_pos (by omega)]
theorem boundOK_ub (x : Nat) (a : IR) : BoundOK (ubIdx x) a ↔ UpperOK a := by
  unfold BoundOK ubIdx
  rw [if_neg (by omega)]
theorem looser_lb (x : Nat) (a b : IR) : Looser (lbIdx x) a b ↔ IR.le a b = true := by
  unfold Looser lbIdx
  rw [if_pos (by omega)]
theorem looser_ub (x : Nat) (a b : IR) : Looser (ubIdx x) a b ↔ IR.le b a = true := by
  unfold Looser ubIdx
  rw [if_neg (by omega)]

/-- the state after `saveBound` and the write of a tighter bound -/
theorem GoodCore.setBound {t : Lra} (g : GoodCore t) (i : Nat) (b : LBound) (hi : i < t.bounds.length)
    (hold : BoundOK i (t.bnd i).value) (hnew : BoundOK i b.value) (hl : Looser i (t.bnd i).value b.value)
    (hbwf : ∀ x, x < t.vals.length →
      LowerOK (((t.saveBound i).setBound i b).lb x) ∧ UpperOK (((t.saveBound i).setBound i b).ub x) ∧
      IR.le (((t.saveBound i).setBound i b).lb x) (((t.saveBound i).setBound i b).ub x) = true) :
    GoodCore ((t.saveBound i).setBound i b) := by
  have e : (t.saveBound i).setBound i b =
      { t with layers := saveL t.bounds i t.layers, bounds := t.bounds.set i b } := by
    rw [saveBound_eq]; rfl
  rw [e] at hbwf ⊢
  exact g.transfer rfl rfl rfl rfl rfl (by show (t.bounds.set i b).length = _; rw [List.length_set]) hbwf
    (layersOK_tighten g.lay hi hold hnew hl)

theorem setBound_fields (t : Lra) (i : Nat) (b : LBound) :
    ((t.saveBound i).setBound i b).tableau = t.tableau ∧ ((t.saveBound i).setBound i b).vals = t.vals ∧
    ((t.saveBound i).setBound i b).bounds = t.bounds.set i b := by
  rw [saveBound_eq]
  exact ⟨rfl, rfl, rfl⟩

/-! ### `assert_lower` -/

theorem assertLower_th_r (s : Sat) (t : Lra) (xi : Nat) (val : IR) (p : Lit)
    (h1 : IR.le val (t.lb xi) = false) (h2 : IR.gt val (t.ub xi) = false) :
    (assertLower s t xi val p).th =
      if (IR.lt (((t.saveBound (lbIdx xi)).setBound (lbIdx xi) ⟨val, p⟩).value xi) val &&
          !((t.saveBound (lbIdx xi)).setBound (lbIdx xi) ⟨val, p⟩).isBasic xi) = true
      then ((t.saveBound (lbIdx xi)).setBound (lbIdx xi) ⟨val, p⟩).update xi val
      else (t.saveBound (lbIdx xi)).setBound (lbIdx xi) ⟨val, p⟩ := by
  unfold assertLower
  simp only [h1, h2, Bool.false_eq_true, if_false]
  split <;> rfl

theorem assertLower_good {s : Sat} {t : Lra} {xi : Nat} {val : IR} {p : Lit} (g : GoodState t)
    (hxi : xi < t.vals.length) (hval : LowerOK val) :
    GoodState (assertLower s t xi val p).th ∧ (assertLower s t xi val p).th.vals.length = t.vals.length := by
  obtain ⟨e1, e2, -⟩ := C09_assertLower_effect s t xi val p
  by_cases h1 : IR.le val (t.lb xi) = true
  · rw [(e1 h1).2.1]; exact ⟨g, rfl⟩
  have h1' : IR.le val (t.lb xi) = false := by simpa using h1
  by_cases h2 : IR.gt val (t.ub xi) = true
  · rw [(e2 h1' h2).2.1]; exact ⟨g, rfl⟩
  have h2' : IR.gt val (t.ub xi) = false := by simpa using h2
  obtain ⟨hlo, hup, hle⟩ := g.bwf xi hxi
  have hi : lbIdx xi < t.bounds.length := by rw [g.blen]; unfold lbIdx; omega
  obtain ⟨f1, f2, f3⟩ := setBound_fields t (lbIdx xi) ⟨val, p⟩
  obtain ⟨b1, b2⟩ := C09_bnd_of_bounds_set t _ _ _ f3 hi
  -- bounds of the state after the write
  have hlbxi : ((t.saveBound (lbIdx xi)).setBound (lbIdx xi) ⟨val, p⟩).lb xi = val := by
    unfold lb; rw [b1]
  have hlbx : ∀ x, x ≠ xi → ((t.saveBound (lbIdx xi)).setBound (lbIdx xi) ⟨val, p⟩).lb x = t.lb x := by
    intro x hx; unfold lb; rw [b2 _ (lbIdx_ne hx)]
  have hubx : ∀ x, ((t.saveBound (lbIdx xi)).setBound (lbIdx xi) ⟨val, p⟩).ub x = t.ub x := by
    intro x; unfold ub; rw [b2 _ (lbIdx_ne_ubIdx xi x).symm]
  have hvu : IR.le val (t.ub xi) = true := by
    rw [IR.gt_eq_lt_r] at h2'
    exact IR.le_of_not_lt hup.wf hval.wf h2'
  have hlv : IR.le (t.lb xi) val = true :=
    IR.le_of_lt hlo.wf hval.wf (IR.lt_of_not_le hval.wf hlo.wf h1')
  have core2 : GoodCore ((t.saveBound (lbIdx xi)).setBound (lbIdx xi) ⟨val, p⟩) := by
    refine g.toGoodCore.setBound _ _ hi ((boundOK_lb _ _).2 hlo) ((boundOK_lb _ _).2 hval) ((looser_lb _ _ _).2 hlv) ?_
    intro x hx
    by_cases hxx : x = xi
    · subst hxx
      rw [hlbxi, hubx]
      exact ⟨hval, hup, hvu⟩
    · rw [hlbx x hxx, hubx]
      exact g.bwf x hx
  have hval2 : ∀ x, ((t.saveBound (lbIdx xi)).setBound (lbIdx xi) ⟨val, p⟩).value x = t.value x :=
    fun x => value_congr_r f2 x
  have hbas2 : ∀ x, ((t.saveBound (lbIdx xi)).setBound (lbIdx xi) ⟨val, p⟩).isBasic x = t.isBasic x :=
    fun x => isBasic_congr f1 x
  rw [assertLower_th_r s t xi val p h1' h2']
  split
  · next hc =>
    rw [hval2, hbas2] at hc
    simp only [Bool.and_eq_true, Bool.not_eq_true', ] at hc
    obtain ⟨hlt, hnb⟩ := hc
    have hvfin : FinIR val := lower_fin_of_lt (value_fin_of_vals g.vfin xi) hval hlt
    obtain ⟨u1, u2, u3, u4, u5, u6⟩ := core2.update (by rw [hbas2]; exact hnb) (by rw [f2]; exact hxi) hvfin
    refine ⟨⟨u1, ?_⟩, by rw [u5, f2]⟩
    intro x hx hxb
    rw [u5, f2] at hx
    rw [isBasic_congr u4, hbas2] at hxb
    unfold InB
    rw [lb_congr_r u6, ub_congr_r u6, hubx]
    by_cases hxx : x = xi
    · subst hxx
      rw [u2, hlbxi]
      exact ⟨IR.not_lt_of_le hval.wf hval.wf (IR.le_refl' hval.wf), h2'⟩
    · rw [u3 x (by rw [hbas2]; exact hxb) hxx, hval2, hlbx x hxx]
      exact g.nbin x hx hxb
  · next hc =>
    rw [hval2, hbas2] at hc
    refine ⟨⟨core2, ?_⟩, by rw [f2]⟩
    intro x hx hxb
    rw [f2] at hx
    rw [hbas2] at hxb
    unfold InB
    rw [hval2, hubx]
    by_cases hxx : x = xi
    · subst hxx
      rw [hlbxi]
      refine ⟨?_, (g.nbin x hx hxb).2⟩
      cases hlt : IR.lt (t.value x) val
      · rfl
      · exact absurd (by rw [hlt, hxb]; rfl) hc
    · rw [hlbx x hxx]
      exact g.nbin x hx hxb

/-! ### `assert_upper` -/

theorem assertUpper_th_r (s : Sat) (t : Lra) (xi : Nat) (val : IR) (p : Lit)
    (h1 : IR.ge val (t.ub xi) = false) (h2 : IR.lt val (t.lb xi) = false) :
    (assertUpper s t xi val p).th =
      if (IR.gt (((t.saveBound (ubIdx xi)).setBound (ubIdx xi) ⟨val, p⟩).value xi) val &&
          !((t.saveBound (ubIdx xi)).setBound (ubIdx xi) ⟨val, p⟩).isBasic xi) = true
      then ((t.saveBound (ubIdx xi)).setBound (ubIdx xi) ⟨val, p⟩).update xi val
      else (t.saveBound (ubIdx xi)).setBound (ubIdx xi) ⟨val, p⟩ := by
  unfold assertUpper
  simp only [h1, h2, Bool.false_eq_true, if_false]
  split <;> rfl

theorem assertUpper_good {s : Sat} {t : Lra} {xi : Nat} {val : IR} {p : Lit} (g : GoodState t)
    (hxi : xi < t.vals.length) (hval : UpperOK val) :
    GoodState (assertUpper s t xi val p).th ∧ (assertUpper s t xi val p).th.vals.length = t.vals.length := by
  obtain ⟨e1, e2, -⟩ := C09_assertUpper_effect s t xi val p
  by_cases h1 : IR.ge val (t.ub xi) = true
  · rw [(e1 h1).2.1]; exact ⟨g, rfl⟩
  have h1' : IR.ge val (t.ub xi) = false := by simpa using h1
  by_cases h2 : IR.lt val (t.lb xi) = true
  · rw [(e2 h1' h2).2.1]; exact ⟨g, rfl⟩
  have h2' : IR.lt val (t.lb xi) = false := by simpa using h2
  obtain ⟨hlo, hup, hle⟩ := g.bwf xi hxi
  have hi : ubIdx xi < t.bounds.length := by rw [g.blen]; unfold ubIdx; omega
  obtain ⟨f1, f2, f3⟩ := setBound_fields t (ubIdx xi) ⟨val, p⟩
  obtain ⟨b1, b2⟩ := C09_bnd_of_bounds_set t _ _ _ f3 hi
  have hubxi : ((t.saveBound (ubIdx xi)).setBound (ubIdx xi) ⟨val, p⟩).ub xi = val := by
    unfold ub; rw [b1]
  have hubx : ∀ x, x ≠ xi → ((t.saveBound (ubIdx xi)).setBound (ubIdx xi) ⟨val, p⟩).ub x = t.ub x := by
    intro x hx; unfold ub; rw [b2 _ (ubIdx_ne hx)]
  have hlbx : ∀ x, ((t.saveBound (ubIdx xi)).setBound (ubIdx xi) ⟨val, p⟩).lb x = t.lb x := by
    intro x; unfold lb; rw [b2 _ (lbIdx_ne_ubIdx x xi)]
  have hlv : IR.le (t.lb xi) val = true := IR.le_of_not_lt hval.wf hlo.wf h2'
  have hvu : IR.le val (t.ub xi) = true := by
    rw [IR.ge_eq_le_r] at h1'
    exact IR.le_of_lt hval.wf hup.wf (IR.lt_of_not_le hup.wf hval.wf h1')
  have core2 : GoodCore ((t.saveBound (ubIdx xi)).setBound (ubIdx xi) ⟨val, p⟩) := by
    refine g.toGoodCore.setBound _ _ hi ((boundOK_ub _ _).2 hup) ((boundOK_ub _ _).2 hval) ((looser_ub _ _ _).2 hvu) ?_
    intro x hx
    by_cases hxx : x = xi
    · subst hxx
      rw [hubxi, hlbx]
      exact ⟨hlo, hval, hlv⟩
    · rw [hubx x hxx, hlbx]
      exact g.bwf x hx
  have hval2 : ∀ x, ((t.saveBound (ubIdx xi)).setBound (ubIdx xi) ⟨val, p⟩).value x = t.value x :=
    fun x => value_congr_r f2 x
  have hbas2 : ∀ x, ((t.saveBound (ubIdx xi)).setBound (ubIdx xi) ⟨val, p⟩).isBasic x = t.isBasic x :=
    fun x => isBasic_congr f1 x
  rw [assertUpper_th_r s t xi val p h1' h2']
  split
  · next hc =>
    rw [hval2, hbas2] at hc
    simp only [Bool.and_eq_true, Bool.not_eq_true', ] at hc
    obtain ⟨hgt, hnb⟩ := hc
    have hvfin : FinIR val := upper_fin_of_gt (value_fin_of_vals g.vfin xi) hval hgt
    obtain ⟨u1, u2, u3, u4, u5, u6⟩ := core2.update (by rw [hbas2]; exact hnb) (by rw [f2]; exact hxi) hvfin
    refine ⟨⟨u1, ?_⟩, by rw [u5, f2]⟩
    intro x hx hxb
    rw [u5, f2] at hx
    rw [isBasic_congr u4, hbas2] at hxb
    unfold InB
    rw [lb_congr_r u6, ub_congr_r u6, hlbx]
    by_cases hxx : x = xi
    · subst hxx
      rw [u2, hubxi]
      refine ⟨h2', ?_⟩
      rw [IR.gt_eq_lt_r]
      exact IR.not_lt_of_le hval.wf hval.wf (IR.le_refl' hval.wf)
    · rw [u3 x (by rw [hbas2]; exact hxb) hxx, hval2, hubx x hxx]
      exact g.nbin x hx hxb
  · next hc =>
    rw [hval2, hbas2] at hc
    refine ⟨⟨core2, ?_⟩, by rw [f2]⟩
    intro x hx hxb
    rw [f2] at hx
    rw [hbas2] at hxb
    unfold InB
    rw [hval2, hlbx]
    by_cases hxx : x = xi
    · subst hxx
      rw [hubxi]
      refine ⟨(g.nbin x hx hxb).1, ?_⟩
      cases hgt : IR.gt (t.value x) val
      · rfl
      · exact absurd (by rw [hgt, hxb]; rfl) hc
    · rw [hubx x hxx]
      exact g.nbin x hx hxb

/-! ### `set`, `propagate` -/

theorem setEq_good {s : Sat} {t : Lra} {xi : Nat} {val : IR} {p : Lit} (g : GoodState t)
    (hxi : xi < t.vals.length) (hval : FinIR val) : GoodState (setEq s t xi val p).th := by
  obtain ⟨g1, l1⟩ := assertLower_good (s := s) (p := p) g hxi hval.lower
  unfold setEq setLb setUb
  generalize assertLower s t xi val p = o at g1 l1
  obtain ⟨c, s', t'⟩ := o
  cases c with
  | some c => exact g1
  | none => exact (assertUpper_good g1 (l1 ▸ hxi) hval.upper).1

theorem finIR_eps : FinIR (⟨R.zero, R.one⟩ : IR) := ⟨R.finWF_zero, finWF_one⟩

theorem finIR_add {a b : IR} (ha : FinIR a) (hb : FinIR b) : FinIR (IR.add a b) := by
  refine ⟨?_, ?_⟩
  · show R.FinWF (R.add a.rat b.rat)
    rw [← R.addAssign_eq_add]; exact R.finWF_addAssign ha.1 hb.1
  · show R.FinWF (R.add a.inf b.inf)
    rw [← R.addAssign_eq_add]; exact R.finWF_addAssign ha.2 hb.2

theorem finIR_sub {a b : IR} (ha : FinIR a) (hb : FinIR b) : FinIR (IR.sub a b) :=
  ⟨(toRat_sub ha.1 hb.1).1, (toRat_sub ha.2 hb.2).1⟩

theorem asrtOf_mem_r {t : Lra} {b : Nat} {a : LAsrt} (h : t.asrtOf b = some a) : ∃ e ∈ t.vAsrts, e.2 = a := by
  unfold asrtOf at h
  rw [Option.map_eq_some_iff] at h
  obtain ⟨e, he, hv⟩ := h
  exact ⟨e, List.mem_of_find?_eq_some he, hv⟩

theorem propagateLit_good {s : Sat} {t : Lra} {p : Lit} (g : GoodState t) : GoodState (propagateLit s t p).th := by
  unfold propagateLit
  cases ha : t.asrtOf p.var with
  | none => exact g
  | some a =>
    obtain ⟨e, he, rfl⟩ := asrtOf_mem_r ha
    obtain ⟨hx, hv⟩ := g.asrts e he
    simp only
    cases hsv : s.value e.2.b with
    | none => exact g
    | some bv =>
      cases bv with
      | true =>
        simp only
        split
        · exact (assertUpper_good g hx hv.upper).1
        · exact (assertLower_good g hx hv.lower).1
      | false =>
        simp only
        split
        · exact (assertLower_good g hx (finIR_add hv finIR_eps).lower).1
        · exact (assertUpper_good g hx (finIR_sub hv finIR_eps).upper).1

/-! ### `push`, `pop` -/

theorem push_good {t : Lra} (g : GoodState t) : GoodState t.push := by
  refine ⟨g.toGoodCore.transfer rfl rfl rfl rfl rfl rfl g.bwf ?_, g.nbin⟩
  exact (layersOK_cons _ _ _).2 ⟨fun e he => (by cases he), g.lay⟩

/-- `pop()` restores older, looser bounds: the values (which are not restored) stay within them -/
theorem pop_good {t : Lra} (g : GoodState t) : GoodState t.pop := by
  rw [pop_eq]
  cases hl : t.layers with
  | nil => exact g
  | cons l ls =>
    simp only
    have hlay := g.lay
    rw [hl] at hlay
    obtain ⟨h1, h2⟩ := (layersOK_cons _ _ _).1 hlay
    -- every bound after the pop is the old one or a looser saved one of the same kind
    have hlb : ∀ x, x < t.vals.length →
        LowerOK (({ t with bounds := restoreB t.bounds l, layers := ls } : Lra).lb x) ∧
        IR.le (({ t with bounds := restoreB t.bounds l, layers := ls } : Lra).lb x) (t.lb x) = true := by
      intro x hx
      have hlo := (g.bwf x hx).1
      show LowerOK ((restoreB t.bounds l).getD (lbIdx x) bndD).value ∧
        IR.le ((restoreB t.bounds l).getD (lbIdx x) bndD).value (t.lb x) = true
      rcases restoreB_getD l t.bounds (lbIdx x) with h | ⟨e, he, hk, h⟩
      · rw [h]; exact ⟨hlo, IR.le_refl' hlo.wf⟩
      · rw [h]
        obtain ⟨-, a2, a3⟩ := h1 e he
        rw [hk] at a2 a3
        exact ⟨(boundOK_lb _ _).1 a2, (looser_lb _ _ _).1 a3⟩
    have hub : ∀ x, x < t.vals.length →
        UpperOK (({ t with bounds := restoreB t.bounds l, layers := ls } : Lra).ub x) ∧
        IR.le (t.ub x) (({ t with bounds := restoreB t.bounds l, layers := ls } : Lra).ub x) = true := by
      intro x hx
      have hup := (g.bwf x hx).2.1
      show UpperOK ((restoreB t.bounds l).getD (ubIdx x) bndD).value ∧
        IR.le (t.ub x) ((restoreB t.bounds l).getD (ubIdx x) bndD).value = true
      rcases restoreB_getD l t.bounds (ubIdx x) with h | ⟨e, he, hk, h⟩
      · rw [h]; exact ⟨hup, IR.le_refl' hup.wf⟩
      · rw [h]
        obtain ⟨-, a2, a3⟩ := h1 e he
        rw [hk] at a2 a3
        exact ⟨(boundOK_ub _ _).1 a2, (looser_ub _ _ _).1 a3⟩
    refine ⟨g.toGoodCore.transfer rfl rfl rfl rfl rfl (restoreB_length _ _) ?_ h2, ?_⟩
    · intro x hx
      obtain ⟨l1, l2⟩ := hlb x hx
      obtain ⟨u1, u2⟩ := hub x hx
      obtain ⟨hlo, hup, hle⟩ := g.bwf x hx
      exact ⟨l1, u1, IR.le_trans' l1.wf hlo.wf u1.wf l2 (IR.le_trans' hlo.wf hup.wf u1.wf hle u2)⟩
    · intro x hx hxb
      obtain ⟨l1, l2⟩ := hlb x hx
      obtain ⟨u1, u2⟩ := hub x hx
      obtain ⟨hlo, hup, -⟩ := g.bwf x hx
      have hv := (value_fin_of_vals g.vfin x).wf
      obtain ⟨n1, n2⟩ := g.nbin x hx hxb
      rw [IR.gt_eq_lt_r] at n2
      have c1 : IR.le (t.lb x) (t.value x) = true := IR.le_of_not_lt hv hlo.wf n1
      have c2 : IR.le (t.value x) (t.ub x) = true := IR.le_of_not_lt hup.wf hv n2
      refine ⟨IR.not_lt_of_le hv l1.wf (IR.le_trans' l1.wf hlo.wf hv l2 c1), ?_⟩
      rw [IR.gt_eq_lt_r]
      exact IR.not_lt_of_le u1.wf hv (IR.le_trans' hv hup.wf u1.wf c2 u2)

end Lra
end Oratio
