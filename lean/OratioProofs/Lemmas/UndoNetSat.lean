/-
C08N, part 2 (SAT side): every step of propagation inside a decision level only ASSIGNS unassigned
variables on top of the trail and grows / permutes the clause database; `pop()` then gives back
values, levels, reasons, trail, level marks and decisions literally.  No well-formedness invariant of
C07 is needed for this (only `Sat.Clean` for the `level` / `reason` vectors, `Sat.IdsOK` for the
statement about clauses).
-/
import OratioProofs.Lemmas.UndoNetDefs
import OratioProofs.Lemmas.NetSatVisit
import OratioProofs.Lemmas.SatCoreOps

set_option linter.unusedSimpArgs false
set_option linter.unusedVariables false

namespace Oratio
namespace Sat

/-! ### the assignment part -/

/-- `s'` is `s` with literals `add` assigned on top of the trail (each on a variable that was
    unassigned in `s`), same level marks, everything about the other variables untouched -/
structure Grow (s s' : Sat) : Prop where
  trailLim : s'.trailLim = s.trailLim
  decisions : s'.decisions = s.decisions
  exprs : s'.exprs = s.exprs
  dead : s'.dead = s.dead
  lenV : s'.vals.length = s.vals.length
  lenL : s'.level.length = s.level.length
  lenR : s'.reason.length = s.reason.length
  added : ∃ add, s'.trail = add ++ s.trail ∧ (∀ l ∈ add, s.vals.getD l.var none = none) ∧
    ∀ v, (∀ l ∈ add, l.var ≠ v) → s'.vals.getD v none = s.vals.getD v none ∧
      s'.level.getD v 0 = s.level.getD v 0 ∧ s'.reason.getD v none = s.reason.getD v none

theorem Grow.of_same {s t : Sat} (hv : t.vals = s.vals) (hl : t.level = s.level) (hr : t.reason = s.reason)
    (ht : t.trail = s.trail) (hlim : t.trailLim = s.trailLim) (hd : t.decisions = s.decisions)
    (he : t.exprs = s.exprs) (hdd : t.dead = s.dead) : Grow s t :=
  ⟨hlim, hd, he, hdd, by rw [hv], by rw [hl], by rw [hr], [], by simpa using ht, by simp, fun v _ => by rw [hv, hl, hr]; exact ⟨rfl, rfl, rfl⟩⟩

theorem Grow.refl (s : Sat) : Grow s s := Grow.of_same rfl rfl rfl rfl rfl rfl rfl rfl

theorem Grow.trans {a b c : Sat} (h1 : Grow a b) (h2 : Grow b c) : Grow a c := by
  obtain ⟨add1, t1, f1, k1⟩ := h1.added
  obtain ⟨add2, t2, f2, k2⟩ := h2.added
  refine ⟨h2.trailLim.trans h1.trailLim, h2.decisions.trans h1.decisions, h2.exprs.trans h1.exprs,
    h2.dead.trans h1.dead, h2.lenV.trans h1.lenV, h2.lenL.trans h1.lenL, h2.lenR.trans h1.lenR, add2 ++ add1, ?_, ?_, ?_⟩
  · rw [t2, t1, List.append_assoc]
  · intro l hl
    rcases List.mem_append.1 hl with hl | hl
    · by_cases hex : ∃ l' ∈ add1, l'.var = l.var
      · obtain ⟨l', hl', e⟩ := hex
        rw [← e]; exact f1 l' hl'
      · have hk := k1 l.var (fun l' hl' e => hex ⟨l', hl', e⟩)
        rw [← hk.1]; exact f2 l hl
    · exact f1 l hl
  · intro v hv
    have a1 := k1 v (fun l hl => hv l (List.mem_append_right _ hl))
    have a2 := k2 v (fun l hl => hv l (List.mem_append_left _ hl))
    exact ⟨a2.1.trans a1.1, a2.2.1.trans a1.2.1, a2.2.2.trans a1.2.2⟩

theorem grow_enq (s : Sat) (p : Lit) (c : Option Nat) (h : s.value p = none) : Grow s (s.enq p c) := by
  refine ⟨rfl, rfl, rfl, rfl, by simp [enq], by simp [enq], by simp [enq], [p], rfl, ?_, ?_⟩
  · intro l hl
    have : l = p := by simpa using hl
    subst this
    unfold Sat.value litValue at h
    split at h
    · assumption
    · cases h
  · intro v hv
    have hne : p.var ≠ v := hv p (by simp)
    simp only [enq]
    exact ⟨getD_set_ne _ _ _ _ _ hne, getD_set_ne _ _ _ _ _ hne, getD_set_ne _ _ _ _ _ hne⟩

theorem grow_enqueue (s : Sat) (p : Lit) (c : Option Nat) : Grow s (s.enqueue p c).2 := by
  cases h : s.value p with
  | none => rw [enqueue_none c h]; exact grow_enq s p c h
  | some b => rw [enqueue_some c h]; exact Grow.refl s

/-! ### the clause part -/

theorem ClsKept.refl (s : Sat) : ClsKept s s := fun e he => ⟨e.2, he, List.Perm.refl _⟩

theorem ClsKept.trans {a b c : Sat} (h1 : ClsKept a b) (h2 : ClsKept b c) : ClsKept a c := by
  intro e he
  obtain ⟨c1, m1, p1⟩ := h1 e he
  obtain ⟨c2, m2, p2⟩ := h2 (e.1, c1) m1
  exact ⟨c2, m2, p2.trans p1⟩

theorem ClsKept.of_eq {s t : Sat} (h : t.cls = s.cls) : ClsKept s t := fun e he => ⟨e.2, by rw [h]; exact he, List.Perm.refl _⟩

theorem mem_setClause_elim {s : Sat} {id : Nat} {c' : Clause} {e : Nat × Clause} (he : e ∈ (s.setClause id c').cls) :
    (e ∈ s.cls ∧ e.1 ≠ id) ∨ e = (id, c') := by
  simp only [setClause, List.mem_map] at he
  obtain ⟨x, hx, rfl⟩ := he
  by_cases hid : x.1 = id
  · right; simp [hid]
  · left; simp [hid, hx]

theorem clsKept_setClause {s : Sat} (hi : IdsOK s) {id : Nat} {c' : Clause} (hp : ∀ c, (id, c) ∈ s.cls → c'.Perm c) :
    IdsOK (s.setClause id c') ∧ ClsKept s (s.setClause id c') := by
  refine ⟨⟨?_, by rw [setClause_ids]; exact hi.2⟩, ?_⟩
  · intro e he
    rcases mem_setClause_elim he with ⟨h, _⟩ | rfl
    · exact hi.1 e h
    · -- the id occurs in `s.cls`, otherwise the map creates no such entry
      have : id ∈ (s.setClause id c').cls.map (·.1) := List.mem_map.2 ⟨_, he, rfl⟩
      rw [setClause_ids] at this
      obtain ⟨x, hx, e'⟩ := List.mem_map.1 this
      have := hi.1 x hx
      have e'' : x.1 = id := e'
      show id < s.nextId
      omega
  · intro e he
    by_cases hid : e.1 = id
    · have hm : (id, e.2) ∈ s.cls := by rw [← hid]; exact he
      refine ⟨c', ?_, hp _ hm⟩
      rw [hid]
      exact (mem_setClause' hm).2 (Or.inr rfl)
    · refine ⟨e.2, ?_, List.Perm.refl _⟩
      simp only [setClause, List.mem_map]
      exact ⟨e, he, by simp [hid]⟩

/-! ### `Clean` -/

theorem clean_of_same {s t : Sat} (h : Clean s) (hv : t.vals = s.vals) (hl : t.level = s.level) (hr : t.reason = s.reason) :
    Clean t := by
  unfold Clean; rw [hv, hl, hr]; exact h

theorem clean_enq {s : Sat} (h : Clean s) (p : Lit) (c : Option Nat) : Clean (s.enq p c) := by
  refine ⟨by simp [enq, h.1], by simp [enq, h.2.1], ?_⟩
  intro v hv
  by_cases e : p.var = v
  · subst e
    by_cases hlt : p.var < s.vals.length
    · simp only [enq] at hv
      rw [getD_set_eq _ _ _ _ hlt] at hv
      cases hv
    · have h1 : ¬ p.var < s.level.length := by rw [h.1]; exact hlt
      have h2 : ¬ p.var < s.reason.length := by rw [h.2.1]; exact hlt
      simp only [enq]
      constructor
      · rw [List.getD_eq_getElem?_getD, List.getElem?_eq_none (by rw [List.length_set]; omega)]; rfl
      · rw [List.getD_eq_getElem?_getD, List.getElem?_eq_none (by rw [List.length_set]; omega)]; rfl
  · simp only [enq] at hv ⊢
    rw [getD_set_ne _ _ _ _ _ e] at hv
    rw [getD_set_ne _ _ _ _ _ e, getD_set_ne _ _ _ _ _ e]
    exact h.2.2 v hv

theorem clean_enqueue {s : Sat} (h : Clean s) (p : Lit) (c : Option Nat) : Clean (s.enqueue p c).2 := by
  cases hv : s.value p with
  | none => rw [enqueue_none c hv]; exact clean_enq h p c
  | some b => rw [enqueue_some c hv]; exact h

/-! ### steps -/

/-- one step of propagation inside a level -/
structure Step (s s' : Sat) : Prop where
  grow : Grow s s'
  cls : IdsOK s → IdsOK s' ∧ ClsKept s s'
  clean : Clean s → Clean s'

theorem Step.refl (s : Sat) : Step s s := ⟨Grow.refl s, fun h => ⟨h, ClsKept.refl s⟩, fun h => h⟩

theorem Step.trans {a b c : Sat} (h1 : Step a b) (h2 : Step b c) : Step a c :=
  ⟨h1.grow.trans h2.grow, fun h => ⟨(h2.cls (h1.cls h).1).1, (h1.cls h).2.trans (h2.cls (h1.cls h).1).2⟩,
    fun h => h2.clean (h1.clean h)⟩

/-- changes to queue, watches, log, `dead` only -/
theorem Step.of_same {s t : Sat} (hv : t.vals = s.vals) (hl : t.level = s.level) (hr : t.reason = s.reason)
    (ht : t.trail = s.trail) (hlim : t.trailLim = s.trailLim) (hd : t.decisions = s.decisions)
    (he : t.exprs = s.exprs) (hdd : t.dead = s.dead) (hc : t.cls = s.cls) (hn : t.nextId = s.nextId) : Step s t :=
  ⟨Grow.of_same hv hl hr ht hlim hd he hdd, fun h => ⟨by unfold IdsOK; rw [hc, hn]; exact h, ClsKept.of_eq hc⟩,
    fun h => clean_of_same h hv hl hr⟩

theorem step_enqueue (s : Sat) (p : Lit) (c : Option Nat) : Step s (s.enqueue p c).2 := by
  refine ⟨grow_enqueue s p c, fun h => ?_, fun h => clean_enqueue h p c⟩
  have hc : (s.enqueue p c).2.cls = s.cls ∧ (s.enqueue p c).2.nextId = s.nextId := by
    cases hv : s.value p with
    | none => rw [enqueue_none c hv]; exact ⟨rfl, rfl⟩
    | some b => rw [enqueue_some c hv]; exact ⟨rfl, rfl⟩
  exact ⟨by unfold IdsOK; rw [hc.1, hc.2]; exact h, ClsKept.of_eq hc.1⟩

theorem step_watch (s : Sat) (l : Lit) (id : Nat) : Step s (s.watch l id) :=
  Step.of_same rfl rfl rfl rfl rfl rfl rfl rfl rfl rfl

theorem step_addClause (s : Sat) (lits : Clause) : Step s (s.addClause lits).2 := by
  have base : Step s { s with cls := s.cls ++ [(s.nextId, lits)], nextId := s.nextId + 1 } := by
    refine ⟨Grow.of_same rfl rfl rfl rfl rfl rfl rfl rfl, fun h => ⟨⟨?_, ?_⟩, ?_⟩, fun h => clean_of_same h rfl rfl rfl⟩
    · intro e he
      rcases List.mem_append.1 he with he | he
      · have := h.1 e he; show e.1 < s.nextId + 1; omega
      · have : e = (s.nextId, lits) := by simpa using he
        subst this
        show s.nextId < s.nextId + 1
        omega
    · show ((s.cls ++ [(s.nextId, lits)]).map (·.1)).Nodup
      rw [List.map_append, List.nodup_append]
      refine ⟨h.2, by simp, ?_⟩
      intro a ha b hb
      obtain ⟨x, hx, rfl⟩ := List.mem_map.1 ha
      have hb' : b = s.nextId := by simpa using hb
      have := h.1 x hx
      omega
    · intro e he
      exact ⟨e.2, List.mem_append_left _ he, List.Perm.refl _⟩
  unfold addClause
  simp only
  split
  · exact base.trans ((step_watch _ _ _).trans (step_watch _ _ _))
  · exact base

theorem step_record (s : Sat) (lits : List Lit) : Step s (s.record lits) := by
  have h0 : Step s { s with log := s.log ++ [lits] } := Step.of_same rfl rfl rfl rfl rfl rfl rfl rfl rfl rfl
  unfold record
  simp only
  split
  · exact h0
  · exact h0.trans (step_enqueue _ _ _)
  · exact h0.trans ((step_addClause _ _).trans (step_enqueue _ _ _))

/-- `setClause` with a permutation of the clause stored under that id -/
theorem step_setClause (s : Sat) (id : Nat) (c' : Clause) (hp : IdsOK s → ∀ c, (id, c) ∈ s.cls → c'.Perm c) :
    Step s (s.setClause id c') :=
  ⟨Grow.of_same rfl rfl rfl rfl rfl rfl rfl rfl, fun h => clsKept_setClause h (hp h), fun h => clean_of_same h rfl rfl rfl⟩

theorem step_cpTail (s : Sat) (id : Nat) (p : Lit) (c : Clause) (hp : IdsOK s → ∀ d, (id, d) ∈ s.cls → c.Perm d) :
    Step s (cpTail s id p c).2 := by
  have h1 : Step s (s.setClause id c) := step_setClause s id c hp
  unfold cpTail
  simp only
  split
  · exact h1.trans (step_watch _ _ _)
  · split
    · next k _ =>
      refine h1.trans ((step_setClause _ id (swap1 c k) ?_).trans (step_watch _ _ _))
      intro _ d hd
      rcases mem_setClause_elim hd with ⟨_, hne⟩ | e
      · exact absurd rfl hne
      · have : d = c := by simpa using e
        rw [this]; exact swap1_perm c k
    · exact h1.trans ((step_watch _ _ _).trans (step_enqueue _ _ _))

theorem step_clausePropagate (s : Sat) (id : Nat) (p : Lit) : Step s (s.clausePropagate id p).2 := by
  rw [clausePropagate_eq_norm]
  apply step_cpTail
  intro hi d hd
  rw [clauseOf_of_mem' hi.2 hd]
  exact normCl_perm d p

theorem step_visitWatchers (p : Lit) : ∀ (ws : List Nat) (s : Sat), Step s (s.visitWatchers p ws).1 := by
  intro ws
  induction ws with
  | nil => intro s; exact Step.refl s
  | cons id rest ih =>
    intro s
    have h1 := step_clausePropagate s id p
    unfold visitWatchers
    cases hcp : s.clausePropagate id p with
    | mk b s' =>
      rw [hcp] at h1
      cases b with
      | true => exact h1.trans (ih s')
      | false => exact h1.trans (Step.of_same rfl rfl rfl rfl rfl rfl rfl rfl rfl rfl)

/-! ### any number of recorded clauses -/

/-- `s'` is reached from `s` by calls of `record` (what the theories do to the SAT core) -/
inductive RecTo : Sat → Sat → Prop
  | refl (s : Sat) : RecTo s s
  | step {s s1 : Sat} (c : Clause) : RecTo s s1 → RecTo s (s1.record c)

theorem RecTo.trans {a b c : Sat} (h1 : RecTo a b) (h2 : RecTo b c) : RecTo a c := by
  induction h2 with
  | refl => exact h1
  | step c _ ih => exact RecTo.step c ih

theorem RecTo.one (s : Sat) (c : Clause) : RecTo s (s.record c) := RecTo.step c (RecTo.refl s)

theorem RecTo.toStep {s s' : Sat} (h : RecTo s s') : Step s s' := by
  induction h with
  | refl => exact Step.refl _
  | step c _ ih => exact ih.trans (step_record _ c)

/-! ### `pop` -/

/-- popping the added literals one by one gives the base state back -/
theorem popN_restore (B : Sat) (hB : Clean B) : ∀ (add : List Lit) (c : Sat),
    c.vals.length = B.vals.length → c.level.length = B.level.length → c.reason.length = B.reason.length →
    c.trail = add ++ B.trail → (∀ l ∈ add, B.vals.getD l.var none = none) →
    (∀ v, (∀ l ∈ add, l.var ≠ v) → c.vals.getD v none = B.vals.getD v none ∧
      c.level.getD v 0 = B.level.getD v 0 ∧ c.reason.getD v none = B.reason.getD v none) →
    (c.popN add.length).vals = B.vals ∧ (c.popN add.length).level = B.level ∧
    (c.popN add.length).reason = B.reason ∧ (c.popN add.length).trail = B.trail := by
  intro add
  induction add with
  | nil =>
    intro c hv hl hr ht _ hk
    have ext : ∀ {α : Type} (l1 l2 : List α) (d : α), l1.length = l2.length → (∀ v, l1.getD v d = l2.getD v d) → l1 = l2 := by
      intro α l1 l2 d hlen hget
      apply List.ext_getElem hlen
      intro i h1 h2
      have := hget i
      rw [List.getD_eq_getElem?_getD, List.getD_eq_getElem?_getD, List.getElem?_eq_getElem h1, List.getElem?_eq_getElem h2] at this
      simpa using this
    refine ⟨ext _ _ none hv (fun v => (hk v (by simp)).1), ext _ _ 0 hl (fun v => (hk v (by simp)).2.1),
      ext _ _ none hr (fun v => (hk v (by simp)).2.2), by show c.trail = B.trail; simpa using ht⟩
  | cons l add ih =>
    intro c hv hl hr ht hf hk
    have hpo : c.popOne = { c with vals := c.vals.set l.var none, level := c.level.set l.var 0, reason := c.reason.set l.var none, trail := add ++ B.trail } := by
      unfold popOne; rw [ht]; rfl
    have e : c.popN (l :: add).length = (c.popOne).popN add.length := rfl
    rw [e, hpo]
    refine ih { c with vals := c.vals.set l.var none, level := c.level.set l.var 0, reason := c.reason.set l.var none, trail := add ++ B.trail } (by show (c.vals.set _ _).length = _; rw [List.length_set]; exact hv) (by show (c.level.set _ _).length = _; rw [List.length_set]; exact hl) (by show (c.reason.set _ _).length = _; rw [List.length_set]; exact hr) rfl (fun l' hl' => hf l' (List.mem_cons_of_mem _ hl')) ?_
    intro v hvn
    by_cases hlv : l.var = v
    · subst hlv
      have hnone := hf l List.mem_cons_self
      have hc := hB.2.2 l.var hnone
      refine ⟨?_, ?_, ?_⟩
      · show (c.vals.set l.var none).getD l.var none = _
        rw [hnone, getD_set]; split
        · rfl
        · next h =>
          have : ¬ l.var < c.vals.length := fun h' => h ⟨rfl, h'⟩
          rw [List.getD_eq_getElem?_getD, List.getElem?_eq_none (by omega)]; rfl
      · show (c.level.set l.var 0).getD l.var 0 = _
        rw [hc.1, getD_set]; split
        · rfl
        · next h =>
          have : ¬ l.var < c.level.length := fun h' => h ⟨rfl, h'⟩
          rw [List.getD_eq_getElem?_getD, List.getElem?_eq_none (by omega)]; rfl
      · show (c.reason.set l.var none).getD l.var none = _
        rw [hc.2, getD_set]; split
        · rfl
        · next h =>
          have : ¬ l.var < c.reason.length := fun h' => h ⟨rfl, h'⟩
          rw [List.getD_eq_getElem?_getD, List.getElem?_eq_none (by omega)]; rfl
    · have hk' := hk v (by
        intro l' hl'
        rcases List.mem_cons.1 hl' with rfl | h
        · exact hlv
        · exact hvn l' h)
      exact ⟨(getD_set_ne _ _ _ _ _ hlv).trans hk'.1, (getD_set_ne _ _ _ _ _ hlv).trans hk'.2.1,
        (getD_set_ne _ _ _ _ _ hlv).trans hk'.2.2⟩

/-- `pop()` of a state reached inside the level opened on top of `B` gives `B` back -/
theorem pop_of_grow {B c : Sat} (hB : Clean B) (p : Lit) (h : Grow (B.pushLevel p) c) : SameAssignment B c.pop := by
  obtain ⟨add, ht, hf, hk⟩ := h.added
  have hlim : c.trailLim = B.trail.length :: B.trailLim := h.trailLim
  have hlen : c.trail.length - B.trail.length = add.length := by
    rw [ht]; show (add ++ B.trail).length - B.trail.length = add.length
    rw [List.length_append]; omega
  have r := popN_restore B hB add c h.lenV h.lenL h.lenR ht hf hk
  rw [pop_eq hlim, hlen]
  obtain ⟨_, _, _, _, _, _, a7, _, _, _, _, _⟩ := popN_frame add.length c
  refine ⟨r.1, r.2.1, r.2.2.1, r.2.2.2, rfl, ?_, a7.trans h.exprs⟩
  show c.decisions.drop 1 = B.decisions
  rw [h.decisions]; rfl

theorem clean_init : Clean Sat.init := by
  refine ⟨rfl, rfl, ?_⟩
  intro v hv
  match v with
  | 0 => simp [Sat.init] at hv
  | v + 1 => simp [Sat.init]

theorem clean_newVar {s : Sat} (h : Clean s) : Clean s.newVar.2 := by
  refine ⟨by simp [newVar, h.1], by simp [newVar, h.2.1], ?_⟩
  intro v hv
  simp only [newVar] at hv ⊢
  by_cases hlt : v < s.vals.length
  · rw [List.getD_eq_getElem?_getD, List.getElem?_append_left hlt, ← List.getD_eq_getElem?_getD] at hv
    have := h.2.2 v hv
    rw [List.getD_eq_getElem?_getD, List.getElem?_append_left (by rw [h.1]; exact hlt), ← List.getD_eq_getElem?_getD,
      List.getD_eq_getElem?_getD (l := s.reason ++ [none]), List.getElem?_append_left (by rw [h.2.1]; exact hlt),
      ← List.getD_eq_getElem?_getD]
    exact this
  · have hge : s.vals.length ≤ v := Nat.le_of_not_lt hlt
    constructor
    · rw [List.getD_eq_getElem?_getD, List.getElem?_append_right (by rw [h.1]; exact hge)]
      cases hk : v - s.level.length with
      | zero => rfl
      | succ k => rfl
    · rw [List.getD_eq_getElem?_getD, List.getElem?_append_right (by rw [h.2.1]; exact hge)]
      cases hk : v - s.reason.length with
      | zero => rfl
      | succ k => rfl

theorem clean_popOne {s : Sat} (h : Clean s) : Clean s.popOne := by
  unfold popOne
  cases ht : s.trail with
  | nil => exact h
  | cons p rest =>
    refine ⟨by simp [h.1], by simp [h.2.1], ?_⟩
    intro v hv
    simp only at hv ⊢
    by_cases e : p.var = v
    · subst e
      constructor
      · rw [getD_set]; split
        · rfl
        · next hn =>
          have : ¬ p.var < s.level.length := fun h' => hn ⟨rfl, h'⟩
          rw [List.getD_eq_getElem?_getD, List.getElem?_eq_none (by omega)]; rfl
      · rw [getD_set]; split
        · rfl
        · next hn =>
          have : ¬ p.var < s.reason.length := fun h' => hn ⟨rfl, h'⟩
          rw [List.getD_eq_getElem?_getD, List.getElem?_eq_none (by omega)]; rfl
    · rw [getD_set_ne _ _ _ _ _ e] at hv
      rw [getD_set_ne _ _ _ _ _ e, getD_set_ne _ _ _ _ _ e]
      exact h.2.2 v hv

theorem clean_popN {s : Sat} (h : Clean s) : ∀ k, Clean (s.popN k) := by
  intro k
  induction k generalizing s with
  | zero => exact h
  | succ k ih => exact ih (clean_popOne h)

/-- `pop()` keeps `Clean`, from any state -/
theorem clean_pop {s : Sat} (h : Clean s) : Clean s.pop := by
  cases hl : s.trailLim with
  | nil => rw [pop_root hl]; exact h
  | cons lim lims =>
    rw [pop_eq hl]
    exact clean_of_same (clean_popN h _) rfl rfl rfl

end Sat
end Oratio
