/-
Helper lemmas for `Properties/C09Reach.lean`, part 7: the undo log of the LRA model only holds
bounds that are looser than the ones they will replace (`Lra.LayersOK`): kept when a bound is
tightened after `saveBound`, when variables are added, by `push`; what `pop` restores.
-/
import OratioModel
import OratioProofs.Lemmas.LraReachOrd

namespace Oratio
namespace Lra

/-! ### `restoreB` -/

theorem restoreB_cons (bs : List LBound) (e : Nat × LBound) (l : List (Nat × LBound)) :
    restoreB bs (e :: l) = restoreB (bs.set e.1 e.2) l := rfl

theorem restoreB_length : ∀ (l : List (Nat × LBound)) (bs : List LBound), (restoreB bs l).length = bs.length := by
  intro l
  induction l with
  | nil => intro bs; rfl
  | cons e l ih => intro bs; rw [restoreB_cons, ih, List.length_set]

theorem restoreB_append (bs : List LBound) (l l' : List (Nat × LBound)) :
    restoreB bs (l ++ l') = restoreB (restoreB bs l) l' := by
  unfold restoreB; rw [List.foldl_append]

theorem set_set_comm (bs : List LBound) {i j : Nat} (h : i ≠ j) (a b : LBound) :
    (bs.set i a).set j b = (bs.set j b).set i a := by
  apply List.ext_getElem?
  intro k
  simp only [List.getElem?_set, List.length_set]
  by_cases h1 : j = k <;> by_cases h2 : i = k
  · exact absurd (h2.trans h1.symm) h
  · simp [h1, h2]
  · simp [h1, h2]
  · simp [h1, h2]

/-- an index saved in the layer gets its saved value whatever it held -/
theorem restoreB_set_mem : ∀ (l : List (Nat × LBound)) (bs : List LBound) (i : Nat) (b : LBound),
    (∃ e ∈ l, e.1 = i) → restoreB (bs.set i b) l = restoreB bs l := by
  intro l
  induction l with
  | nil => intro bs i b h; obtain ⟨e, he, -⟩ := h; cases he
  | cons e l ih =>
    intro bs i b h
    rw [restoreB_cons, restoreB_cons]
    by_cases hei : e.1 = i
    · rw [← hei, List.set_set]
    · rw [set_set_comm bs (fun h => hei h.symm)]
      apply ih
      obtain ⟨e', he', h'⟩ := h
      rcases List.mem_cons.1 he' with rfl | he'
      · exact absurd h' hei
      · exact ⟨e', he', h'⟩

/-- an index not saved in the layer keeps what it holds -/
theorem restoreB_set_not_mem : ∀ (l : List (Nat × LBound)) (bs : List LBound) (i : Nat) (b : LBound),
    (∀ e ∈ l, e.1 ≠ i) → restoreB (bs.set i b) l = (restoreB bs l).set i b := by
  intro l
  induction l with
  | nil => intro bs i b _; rfl
  | cons e l ih =>
    intro bs i b h
    rw [restoreB_cons, restoreB_cons, set_set_comm bs (fun h' => h e List.mem_cons_self h'.symm),
      ih _ _ _ (fun e' he' => h e' (List.mem_cons_of_mem _ he'))]

theorem restoreB_getD_not_mem : ∀ (l : List (Nat × LBound)) (bs : List LBound) (i : Nat),
    (∀ e ∈ l, e.1 ≠ i) → (restoreB bs l).getD i bndD = bs.getD i bndD := by
  intro l
  induction l with
  | nil => intro bs i _; rfl
  | cons e l ih =>
    intro bs i h
    rw [restoreB_cons, ih _ _ (fun e' he' => h e' (List.mem_cons_of_mem _ he')),
      getD_set_ne _ _ _ _ _ (h e List.mem_cons_self)]

/-- every entry after `pop` is the old one or one saved in the layer -/
theorem restoreB_getD : ∀ (l : List (Nat × LBound)) (bs : List LBound) (i : Nat),
    (restoreB bs l).getD i bndD = bs.getD i bndD ∨ ∃ e ∈ l, e.1 = i ∧ (restoreB bs l).getD i bndD = e.2 := by
  intro l
  induction l with
  | nil => intro bs i; exact Or.inl rfl
  | cons e l ih =>
    intro bs i
    rw [restoreB_cons]
    rcases ih (bs.set e.1 e.2) i with h | ⟨e', he', h1, h2⟩
    · rw [h, getD_set]
      by_cases hc : e.1 = i ∧ e.1 < bs.length
      · rw [if_pos hc]
        exact Or.inr ⟨e, List.mem_cons_self, hc.1, rfl⟩
      · rw [if_neg hc]
        exact Or.inl rfl
    · exact Or.inr ⟨e', List.mem_cons_of_mem _ he', h1, h2⟩

theorem restoreB_append_right : ∀ (l : List (Nat × LBound)) (bs ext : List LBound),
    (∀ e ∈ l, e.1 < bs.length) → restoreB (bs ++ ext) l = restoreB bs l ++ ext := by
  intro l
  induction l with
  | nil => intro bs ext _; rfl
  | cons e l ih =>
    intro bs ext h
    rw [restoreB_cons, restoreB_cons, List.set_append_left _ _ (h e List.mem_cons_self)]
    exact ih _ _ (fun e' he' => by rw [List.length_set]; exact h e' (List.mem_cons_of_mem _ he'))

/-! ### `Looser` -/

theorem BoundOK.wf {i : Nat} {a : IR} (h : BoundOK i a) : a.WF := by
  unfold BoundOK at h
  split at h <;> exact h.wf

theorem Looser.trans {i : Nat} {a b c : IR} (ha : a.WF) (hb : b.WF) (hc : c.WF) (h1 : Looser i a b) (h2 : Looser i b c) :
    Looser i a c := by
  unfold Looser at *
  split
  · next h => rw [if_pos h] at h1 h2; exact IR.le_trans' ha hb hc h1 h2
  · next h => rw [if_neg h] at h1 h2; exact IR.le_trans' hc hb ha h2 h1

/-! ### `LayersOK` -/

theorem layersOK_cons (bs : List LBound) (l : List (Nat × LBound)) (ls : List (List (Nat × LBound))) :
    LayersOK bs (l :: ls) ↔
      (∀ e ∈ l, e.1 < bs.length ∧ BoundOK e.1 e.2.value ∧ Looser e.1 e.2.value (bs.getD e.1 bndD).value) ∧
      LayersOK (restoreB bs l) ls := Iff.rfl

/-- `saveBound` on the undo log -/
def saveL (bs : List LBound) (i : Nat) : List (List (Nat × LBound)) → List (List (Nat × LBound))
  | [] => []
  | l :: ls => if l.any (fun e => e.1 == i) then l :: ls else (l ++ [(i, bs.getD i bndD)]) :: ls

theorem saveBound_eq (t : Lra) (i : Nat) : t.saveBound i = { t with layers := saveL t.bounds i t.layers } := by
  unfold saveBound saveL
  cases h : t.layers with
  | nil => simp only; rw [← h]
  | cons l ls =>
    simp only
    split
    · rw [← h]
    · rfl

/-- a bound is overwritten, after `saveBound`, by a tighter one -/
theorem layersOK_tighten {bs : List LBound} {ls : List (List (Nat × LBound))} {i : Nat} {b : LBound}
    (h : LayersOK bs ls) (hi : i < bs.length) (hold : BoundOK i (bs.getD i bndD).value) (hnew : BoundOK i b.value)
    (hl : Looser i (bs.getD i bndD).value b.value) : LayersOK (bs.set i b) (saveL bs i ls) := by
  cases ls with
  | nil => trivial
  | cons l ls =>
    obtain ⟨h1, h2⟩ := (layersOK_cons _ _ _).1 h
    by_cases hany : l.any (fun e => e.1 == i) = true
    · rw [show saveL bs i (l :: ls) = l :: ls from if_pos hany]
      obtain ⟨e0, he0, hk0⟩ := List.any_eq_true.1 hany
      have hk0' : e0.1 = i := by simpa using hk0
      refine (layersOK_cons _ _ _).2 ⟨?_, ?_⟩
      · intro e he
        obtain ⟨a1, a2, a3⟩ := h1 e he
        refine ⟨by rw [List.length_set]; exact a1, a2, ?_⟩
        by_cases hei : e.1 = i
        · rw [hei, getD_set_self _ _ _ _ hi]
          rw [hei] at a2 a3
          exact Looser.trans a2.wf hold.wf hnew.wf a3 hl
        · rw [getD_set_ne _ _ _ _ _ (fun h => hei h.symm)]
          exact a3
      · rw [restoreB_set_mem _ _ _ _ ⟨e0, he0, hk0'⟩]
        exact h2
    · rw [show saveL bs i (l :: ls) = (l ++ [(i, bs.getD i bndD)]) :: ls from if_neg hany]
      have hni : ∀ e ∈ l, e.1 ≠ i := by
        intro e he hei
        exact hany (List.any_eq_true.2 ⟨e, he, by simp [hei]⟩)
      refine (layersOK_cons _ _ _).2 ⟨?_, ?_⟩
      · intro e he
        rcases List.mem_append.1 he with he | he
        · obtain ⟨a1, a2, a3⟩ := h1 e he
          refine ⟨by rw [List.length_set]; exact a1, a2, ?_⟩
          rw [getD_set_ne _ _ _ _ _ (fun h => hni e he h.symm)]
          exact a3
        · have : e = (i, bs.getD i bndD) := by simpa using he
          subst this
          refine ⟨by rw [List.length_set]; exact hi, hold, ?_⟩
          show Looser i _ ((bs.set i b).getD i bndD).value
          rw [getD_set_self _ _ _ _ hi]
          exact hl
      · rw [restoreB_append, restoreB_set_not_mem _ _ _ _ hni]
        show LayersOK (((restoreB bs l).set i b).set i (bs.getD i bndD)) ls
        rw [List.set_set]
        have hlen : i < (restoreB bs l).length := by rw [restoreB_length]; exact hi
        have hget : bs.getD i bndD = (restoreB bs l)[i] := by
          have := restoreB_getD_not_mem l bs i hni
          rw [← this, List.getD_eq_getElem?_getD, List.getElem?_eq_getElem hlen]
          rfl
        rw [hget, List.set_getElem_self]
        exact h2

/-- every index in the undo log is an index of `c_bounds` -/
theorem layersOK_keys_lt : ∀ (ls : List (List (Nat × LBound))) (bs : List LBound), LayersOK bs ls →
    ∀ l ∈ ls, ∀ e ∈ l, e.1 < bs.length := by
  intro ls
  induction ls with
  | nil => intro bs _ l hl; cases hl
  | cons l0 ls ih =>
    intro bs h l hl e he
    obtain ⟨h1, h2⟩ := (layersOK_cons _ _ _).1 h
    rcases List.mem_cons.1 hl with rfl | hl
    · exact (h1 e he).1
    · have := ih _ h2 l hl e he
      rw [restoreB_length] at this
      exact this

/-- new variables -/
theorem layersOK_append : ∀ (ls : List (List (Nat × LBound))) (bs ext : List LBound), LayersOK bs ls →
    LayersOK (bs ++ ext) ls := by
  intro ls
  induction ls with
  | nil => intro _ _ _; trivial
  | cons l ls ih =>
    intro bs ext h
    obtain ⟨h1, h2⟩ := (layersOK_cons _ _ _).1 h
    refine (layersOK_cons _ _ _).2 ⟨?_, ?_⟩
    · intro e he
      obtain ⟨a1, a2, a3⟩ := h1 e he
      refine ⟨by rw [List.length_append]; omega, a2, ?_⟩
      rw [getD_append_left _ _ _ _ a1]
      exact a3
    · rw [restoreB_append_right _ _ _ (fun e he => (h1 e he).1)]
      exact ih _ _ h2

/-- an entry that the undo log does not mention is written -/
theorem layersOK_set_fresh : ∀ (ls : List (List (Nat × LBound))) (bs : List LBound) (k : Nat) (b : LBound),
    (∀ l ∈ ls, ∀ e ∈ l, e.1 ≠ k) → LayersOK bs ls → LayersOK (bs.set k b) ls := by
  intro ls
  induction ls with
  | nil => intro _ _ _ _ _; trivial
  | cons l ls ih =>
    intro bs k b hk h
    obtain ⟨h1, h2⟩ := (layersOK_cons _ _ _).1 h
    have hkl : ∀ e ∈ l, e.1 ≠ k := hk l List.mem_cons_self
    refine (layersOK_cons _ _ _).2 ⟨?_, ?_⟩
    · intro e he
      obtain ⟨a1, a2, a3⟩ := h1 e he
      refine ⟨by rw [List.length_set]; exact a1, a2, ?_⟩
      rw [getD_set_ne _ _ _ _ _ (fun h => hkl e he h.symm)]
      exact a3
    · rw [restoreB_set_not_mem _ _ _ _ hkl]
      exact ih _ _ _ (fun l' hl' => hk l' (List.mem_cons_of_mem _ hl')) h2

/-! ### `pop` -/

theorem restore_fold : ∀ (l : List (Nat × LBound)) (t : Lra),
    l.foldl (fun t e => t.setBound e.1 e.2) t = { t with bounds := restoreB t.bounds l } := by
  intro l
  induction l with
  | nil => intro t; rfl
  | cons e l ih =>
    intro t
    rw [List.foldl_cons, ih]
    rfl

theorem pop_eq (t : Lra) : t.pop = match t.layers with
    | [] => t
    | l :: ls => { t with bounds := restoreB t.bounds l, layers := ls } := by
  unfold pop
  cases h : t.layers with
  | nil => rfl
  | cons l ls =>
    simp only
    rw [restore_fold]

end Lra
end Oratio
