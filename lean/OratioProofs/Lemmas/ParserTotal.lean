/-
Totality of the parser model (property C16, parser part): with the fuel the entry points pass,
no parsing function ever returns the out-of-fuel result, and every successful call consumes
tokens (`Lt`: strictly fewer tokens remain; `Le`: not more).

`Spec P res` : `res` is neither `error fuel` nor `error (ub _)`, and `P v` holds if `res = ok v`.  Every function of
the model gets one `…_spec` lemma; the lemmas are chained with `Spec_bind` along the
`do`-blocks.  The three mutually recursive groups (expressions, statements, class members)
are handled by induction on the fuel with an invariant `3 * (remaining tokens) + c ≤ fuel`,
one constant `c` per function.
-/
import OratioProofs.Lemmas.ParserBasic

namespace Oratio.Riddle

/-- a result that is neither "out of fuel" nor "undefined behaviour", with a postcondition on successful results -/
def Spec {β : Type} (P : β → Prop) (res : Except PErr β) : Prop :=
  match res with
  | .ok v => P v
  | .error e => e ≠ .fuel ∧ ∀ w, e ≠ .ub w

@[simp] theorem Spec_ok {β : Type} {P : β → Prop} {v : β} : Spec P (.ok v) ↔ P v := Iff.rfl
@[simp] theorem Spec_error {β : Type} {P : β → Prop} {e : PErr} : Spec P (.error e : Except PErr β) ↔ (e ≠ .fuel ∧ ∀ w, e ≠ .ub w) := Iff.rfl
@[simp] theorem Spec_pure {β : Type} {P : β → Prop} {v : β} : Spec P (pure v : Except PErr β) ↔ P v := Iff.rfl

theorem Spec_bind {β γ : Type} {m : Except PErr β} {f : β → Except PErr γ} {P : β → Prop} {Q : γ → Prop}
    (hm : Spec P m) (hf : ∀ v, P v → Spec Q (f v)) : Spec Q (m >>= f) := by
  cases m with
  | error e => exact hm
  | ok v => exact hf v hm

theorem Spec_mono {β : Type} {P Q : β → Prop} {m : Except PErr β} (hm : Spec P m) (h : ∀ v, P v → Q v) : Spec Q m := by
  cases m with
  | error e => exact hm
  | ok v => exact h v hm

theorem Spec_ne_fuel {β : Type} {P : β → Prop} {m : Except PErr β} (hm : Spec P m) : m ≠ .error .fuel := by
  cases m with
  | error e => intro h; cases h; exact hm.1 rfl
  | ok v => intro h; cases h

theorem Spec_ne_ub {β : Type} {P : β → Prop} {m : Except PErr β} (hm : Spec P m) (w : String) : m ≠ .error (.ub w) := by
  cases m with
  | error e => intro h; cases h; exact hm.2 w rfl
  | ok v => intro h; cases h

syntax "spec_leaf" : tactic
macro "spec_bind" : tactic => `(tactic| (apply Spec_bind; spec_leaf))

theorem adv_spec (toks : List Tok) : Spec (fun r => r.length + 1 = toks.length) (adv toks) := by
  unfold adv
  split <;> simp
macro_rules | `(tactic| spec_leaf) => `(tactic| exact adv_spec _)

theorem matchSym_spec (s : Sym) (toks : List Tok) :
    Spec (fun v => v.2.length ≤ toks.length ∧ (v.1 = true → v.2.length + 1 = toks.length) ∧ (v.1 = false → v.2 = toks)) (matchSym s toks) := by
  unfold matchSym
  split
  · spec_bind
    intro t ht
    simp at ht ⊢
    omega
  · simp
macro_rules | `(tactic| spec_leaf) => `(tactic| exact matchSym_spec _ _)

theorem expectSym_spec (s : Sym) (m : String) (toks : List Tok) : Spec (fun r => r.length + 1 = toks.length) (expectSym s m toks) := by
  unfold expectSym
  split
  · exact adv_spec _
  · simp
macro_rules | `(tactic| spec_leaf) => `(tactic| exact expectSym_spec _ _ _)

theorem expectId_spec (toks : List Tok) : Spec (fun v => v.2.length + 1 = toks.length) (expectId toks) := by
  unfold expectId
  split
  · spec_bind
    intro t ht
    simpa using ht
  · simp
  · simp [eId]
macro_rules | `(tactic| spec_leaf) => `(tactic| exact expectId_spec _)


theorem dotIds_spec (toks : List Tok) : Spec (fun v => v.2.length ≤ toks.length) (dotIds toks) := by
  fun_induction dotIds toks with
  | case1 n t r ih =>
    apply Spec_bind ih
    rintro ⟨ns, r'⟩ h
    simp at h ⊢
    omega
  | case2 => simp
  | case3 => simp
  | case4 => simp [eId]
  | case5 => simp
macro_rules | `(tactic| spec_leaf) => `(tactic| exact dotIds_spec _)

theorem castLook_spec (toks : List Tok) : Spec (fun _ => True) (castLook toks) := by
  fun_induction castLook toks <;> simp_all

macro_rules | `(tactic| spec_leaf) => `(tactic| exact castLook_spec _)

theorem qid_spec (toks : List Tok) : Spec (fun v => v.2.length < toks.length) (qid toks) := by
  unfold qid
  spec_bind; rintro ⟨n, t1⟩ h1
  spec_bind; rintro ⟨ns, t2⟩ h2
  simp at *
  omega
macro_rules | `(tactic| spec_leaf) => `(tactic| exact qid_spec _)

theorem parType_spec (toks : List Tok) : Spec (fun v => v.2.length < toks.length) (parType toks) := by
  unfold parType
  split
  · split
    · spec_bind; intro t ht
      simp at *; omega
    · simp [eType]
  · spec_bind; intro t ht
    spec_bind; rintro ⟨ns, t'⟩ h2
    simp at *; omega
  · simp
  · simp [eType]
macro_rules | `(tactic| spec_leaf) => `(tactic| exact parType_spec _)


abbrev Lt {α : Type} (toks : List Tok) : α × List Tok → Prop := fun v => v.2.length < toks.length
abbrev Le {α : Type} (toks : List Tok) : α × List Tok → Prop := fun v => v.2.length ≤ toks.length

theorem sepBy1_spec {α : Type} (item : List Tok → Except PErr (α × List Tok)) (sep : Sym)
    (hitem : ∀ toks, Spec (Lt toks) (item toks)) :
    ∀ (F : Nat) (toks : List Tok), toks.length + 1 ≤ F → Spec (Lt toks) (sepBy1 item sep F toks) := by
  intro F
  induction F with
  | zero => intro toks h; omega
  | succ f ih =>
    intro toks h
    rw [sepBy1]
    apply Spec_bind (hitem toks); rintro ⟨x, t1⟩ h1
    spec_bind; rintro ⟨b, t2⟩ h2
    cases b with
    | true =>
      simp at h1 h2 ⊢
      apply Spec_bind (ih t2 (by omega)); rintro ⟨xs, t3⟩ h3
      simp at h3 ⊢; omega
    | false => simpa using h1

theorem untilSym_spec {α : Type} (item : List Tok → Except PErr (α × List Tok)) (close : Sym)
    (hitem : ∀ toks, Spec (Lt toks) (item toks)) :
    ∀ (F : Nat) (toks : List Tok), toks.length + 1 ≤ F → Spec (Lt toks) (untilSym item close F toks) := by
  intro F
  induction F with
  | zero => intro toks h; omega
  | succ f ih =>
    intro toks h
    rw [untilSym]
    spec_bind; rintro ⟨b, t1⟩ h1
    cases b with
    | true => simp at h1 ⊢; omega
    | false =>
      simp at h1 ⊢
      apply Spec_bind (hitem toks); rintro ⟨x, t2⟩ h2
      simp at h2 ⊢
      apply Spec_bind (ih t2 (by omega)); rintro ⟨xs, t3⟩ h3
      simp at h3 ⊢; omega

macro_rules | `(tactic| spec_leaf) => `(tactic| (refine sepBy1_spec _ _ ?_ _ _ (Nat.le_refl _); intro _; spec_leaf))
macro_rules | `(tactic| spec_leaf) => `(tactic| (refine untilSym_spec _ _ ?_ _ _ (Nat.le_refl _); intro _; spec_leaf))


def ExprInv (F : Nat) : Prop := ∀ toks : List Tok,
  (3 * toks.length + 2 ≤ F → ∀ pr, Spec (Lt toks) (pExpr F pr toks)) ∧
  (3 * toks.length + 1 ≤ F → Spec (Lt toks) (pPrimary F toks)) ∧
  (3 * toks.length + 2 ≤ F → ∀ pr e, Spec (Le toks) (pLoop F pr e toks)) ∧
  (3 * toks.length + 1 ≤ F → ∀ s lvl acc,
      Spec (fun v => v.2.length ≤ toks.length ∧ (isSym s toks = true → v.2.length < toks.length)) (pNary F s lvl acc toks)) ∧
  (3 * toks.length + 3 ≤ F → Spec (Lt toks) (pArgs F toks)) ∧
  (3 * toks.length + 4 ≤ F → Spec (Lt toks) (pCallArgs F toks))

theorem pExpr_step {f : Nat} (ih : ExprInv f) (toks : List Tok) (h : 3 * toks.length + 2 ≤ f + 1) (pr : Nat) :
    Spec (Lt toks) (pExpr (f + 1) pr toks) := by
  rw [pExpr.eq_2]
  apply Spec_bind ((ih toks).2.1 (by omega)); rintro ⟨e, t1⟩ h1
  simp at h1
  refine Spec_mono ((ih t1).2.2.1 (by omega) pr e) ?_; rintro ⟨e', t2⟩ h2
  simp at h2 ⊢; omega

/-- `sb v h`: peel one `>>=` whose first component has a registered spec -/
macro "sb" x:ident h:ident : tactic =>
  `(tactic| (apply Spec_bind; spec_leaf; intro $x:ident $h:ident; try dsimp only at $h:ident))
/-- `sbx spec v h`: peel one `>>=` with an explicit spec of the first component -/
macro "sbx" e:term:max x:ident h:ident : tactic =>
  `(tactic| (apply Spec_bind $e; intro $x:ident $h:ident; try dsimp only at $h:ident))
/-- close a leaf: the postcondition is arithmetic on lengths -/
macro "fin" : tactic => `(tactic| ((try simp_all only [Lt, Le, Spec_ok, Spec_pure, Spec_error, List.length_cons, ne_eq, reduceCtorEq, not_false_eq_true,
  Bool.not_eq_true, Bool.false_eq_true, Bool.true_eq_false, true_and, false_and, and_true, and_false, or_false, false_or, true_implies, false_implies, implies_true]); first | done | omega))

theorem pPrimary_step {f : Nat} (ih : ExprInv f) (toks : List Tok) (h : 3 * toks.length + 1 ≤ f + 1) :
    Spec (Lt toks) (pPrimary (f + 1) toks) := by
  have hE : ∀ t pr, 3 * t.length + 2 ≤ f → Spec (Lt t) (pExpr f pr t) := fun t pr h => (ih t).1 h pr
  have hC : ∀ t, 3 * t.length + 4 ≤ f → Spec (Lt t) (pCallArgs f t) := fun t h => (ih t).2.2.2.2.2 h
  rw [pPrimary.eq_def]
  simp only []
  split
  · fin
  · sb t ht; fin
  · sb t ht; fin
  · sb t ht; fin
  · sb t ht; fin
  · sb t1 h1; sb c hc
    split
    · sb q hq; sb t3 h3
      sbx (hE t3 0 (by fin)) x hx; fin
    · sbx (hE t1 0 (by fin)) x hx
      sb t3 h3; fin
  · sb t1 h1; sbx (hE t1 4 (by fin)) x hx; fin
  · sb t1 h1; sbx (hE t1 4 (by fin)) x hx; fin
  · sb t1 h1; sbx (hE t1 4 (by fin)) x hx; fin
  · sb t1 h1; sb q hq; sb t3 h3
    sbx (hC t3 (by fin)) x hx; fin
  · sb t1 h1; sb q hq; sb m hm
    split
    · sbx (hC m.2 (by fin)) x hx; fin
    · fin
  · fin


theorem pLoop_step {f : Nat} (ih : ExprInv f) (toks : List Tok) (h : 3 * toks.length + 2 ≤ f + 1) (pr : Nat) (e : Expr) :
    Spec (Le toks) (pLoop (f + 1) pr e toks) := by
  have hE : ∀ t pr, 3 * t.length + 2 ≤ f → Spec (Lt t) (pExpr f pr t) := fun t pr h => (ih t).1 h pr
  have hL : ∀ t pr e, 3 * t.length + 2 ≤ f → Spec (Le t) (pLoop f pr e t) := fun t pr e h => (ih t).2.2.1 h pr e
  have hN := fun t h s lvl acc => (ih t).2.2.2.1 h s lvl acc
  rw [pLoop.eq_def]
  simp only []
  split
  · rename_i s tail
    split
    · split
      · sb t1 h1
        sbx (hE t1 _ (by fin)) x hx
        refine Spec_mono (hL x.2 _ _ (by fin)) ?_
        intro v hv; fin
      · fin
    · split
      · sbx (hN (.sym s :: tail) (by fin) s _ _) x hx
        have hx' := hx.2 (by simp [isSym])
        refine Spec_mono (hL x.2 _ _ (by fin)) ?_
        intro v hv; fin
      · fin
    · fin
  · fin
  · fin

theorem pNary_step {f : Nat} (ih : ExprInv f) (toks : List Tok) (h : 3 * toks.length + 1 ≤ f + 1) (s : Sym) (lvl : Nat) (acc : List Expr) :
    Spec (fun v => v.2.length ≤ toks.length ∧ (isSym s toks = true → v.2.length < toks.length)) (pNary (f + 1) s lvl acc toks) := by
  have hE : ∀ t pr, 3 * t.length + 2 ≤ f → Spec (Lt t) (pExpr f pr t) := fun t pr h => (ih t).1 h pr
  have hN := fun t h s lvl acc => (ih t).2.2.2.1 h s lvl acc
  rw [pNary.eq_2]
  simp only []
  split
  · sb t1 h1
    sbx (hE t1 _ (by fin)) x hx
    refine Spec_mono (hN x.2 (by fin) s lvl _) ?_
    intro v hv; fin
  · fin

theorem pArgs_step {f : Nat} (ih : ExprInv f) (toks : List Tok) (h : 3 * toks.length + 3 ≤ f + 1) :
    Spec (Lt toks) (pArgs (f + 1) toks) := by
  have hE : ∀ t pr, 3 * t.length + 2 ≤ f → Spec (Lt t) (pExpr f pr t) := fun t pr h => (ih t).1 h pr
  have hA := fun t h => (ih t).2.2.2.2.1 h
  rw [pArgs.eq_2]
  simp only []
  sbx (hE toks 0 (by fin)) x hx
  sb m hm
  split
  · sbx (hA m.2 (by fin)) y hy; fin
  · fin

theorem pCallArgs_step {f : Nat} (ih : ExprInv f) (toks : List Tok) (h : 3 * toks.length + 4 ≤ f + 1) :
    Spec (Lt toks) (pCallArgs (f + 1) toks) := by
  have hA := fun t h => (ih t).2.2.2.2.1 h
  rw [pCallArgs.eq_2]
  simp only []
  sb m hm
  split
  · fin
  · sbx (hA toks (by fin)) y hy
    sb t3 h3; fin

theorem exprInv : ∀ F, ExprInv F := by
  intro F
  induction F with
  | zero =>
    intro toks
    refine ⟨?_, ?_, ?_, ?_, ?_, ?_⟩ <;> (intro h; omega)
  | succ f ih =>
    intro toks
    exact ⟨fun h pr => pExpr_step ih toks h pr, fun h => pPrimary_step ih toks h, fun h pr e => pLoop_step ih toks h pr e,
      fun h s lvl acc => pNary_step ih toks h s lvl acc, fun h => pArgs_step ih toks h, fun h => pCallArgs_step ih toks h⟩

theorem parseExpr_spec (toks : List Tok) : Spec (Lt toks) (parseExpr toks) :=
  (exprInv _ toks).1 (Nat.le_refl _) 0
macro_rules | `(tactic| spec_leaf) => `(tactic| exact parseExpr_spec _)


/-! ### statements -/

theorem optInit_spec (toks : List Tok) : Spec (Le toks) (optInit toks) := by
  unfold optInit; try simp only []
  split
  · sb t1 h1; sb x hx; fin
  · fin
macro_rules | `(tactic| spec_leaf) => `(tactic| exact optInit_spec _)

theorem localVar_spec (toks : List Tok) : Spec (Lt toks) (localVar toks) := by
  unfold localVar; try simp only []
  sb x hx; sb y hy; fin
macro_rules | `(tactic| spec_leaf) => `(tactic| exact localVar_spec _)

theorem localVarU_spec (toks : List Tok) : Spec (Lt toks) (localVarU toks) := by
  unfold localVarU; try simp only []
  split
  · sb x hx; sb y hy; fin
  · fin
  · fin
macro_rules | `(tactic| spec_leaf) => `(tactic| exact localVarU_spec _)

theorem optCost_spec (toks : List Tok) : Spec (Le toks) (optCost toks) := by
  unfold optCost; try simp only []
  sb m hm
  split
  · sb x hx; sb t3 h3; fin
  · fin
macro_rules | `(tactic| spec_leaf) => `(tactic| exact optCost_spec _)

theorem formulaArg_spec (toks : List Tok) : Spec (Lt toks) (formulaArg toks) := by
  unfold formulaArg; try simp only []
  sb x hx; sb t2 h2; sb y hy; fin
macro_rules | `(tactic| spec_leaf) => `(tactic| exact formulaArg_spec _)

theorem formulaBody_spec (isFact : Bool) (toks : List Tok) : Spec (Lt toks) (formulaBody isFact toks) := by
  unfold formulaBody; try simp only []
  sb x hx; sb t2 h2; sb t3 h3; sb q hq; sb t5 h5; sb m hm
  apply Spec_bind (P := fun v => v.2.length ≤ m.2.length)
  · split
    · fin
    · sb as has; sb u2 hu2; fin
  · intro v hv
    sb t8 h8; fin
macro_rules | `(tactic| spec_leaf) => `(tactic| exact formulaBody_spec _ _)


def StmtInv (F : Nat) : Prop := ∀ toks : List Tok,
  (3 * toks.length + 1 ≤ F → Spec (Lt toks) (pStmt F toks)) ∧
  (3 * toks.length + 2 ≤ F → Spec (Lt toks) (pBlockBody F toks)) ∧
  (3 * toks.length + 2 ≤ F → Spec (Lt toks) (pStmts F toks)) ∧
  (3 * toks.length + 1 ≤ F → Spec (Le toks) (pDisjRest F toks))

theorem pStmt_step {f : Nat} (ih : StmtInv f) (toks : List Tok) (h : 3 * toks.length + 1 ≤ f + 1) :
    Spec (Lt toks) (pStmt (f + 1) toks) := by
  have hB := fun t h => (ih t).2.1 h
  have hD := fun t h => (ih t).2.2.2 h
  rw [pStmt.eq_def]
  simp only []
  split
  · fin
  · sb t1 h1; sb q hq
    split
    · sb vs hvs; sb t4 h4; fin
    · sb t3 h3; sb e he; sb t5 h5; fin
    · split
      · sb e he; sb t4 h4; fin
      · fin
    · fin
    · fin
  · sb t1 h1
    sbx (hB t1 (by fin)) ss hss
    split
    · sb e he
      sbx (hD e.2 (by fin)) cs hcs; fin
    · fin
  · sb t1 h1
    refine Spec_mono (formulaBody_spec true t1) ?_
    intro v hv; fin
  · sb t1 h1
    refine Spec_mono (formulaBody_spec false t1) ?_
    intro v hv; fin
  · sb t1 h1; sb e he; sb t3 h3; fin
  · split
    · sb t1 h1; sb vs hvs; sb t3 h3; fin
    · sb e he; sb t2 h2; fin
  · sb e he; sb t2 h2; fin


theorem pBlockBody_step {f : Nat} (ih : StmtInv f) (toks : List Tok) (h : 3 * toks.length + 2 ≤ f + 1) :
    Spec (Lt toks) (pBlockBody (f + 1) toks) := by
  have hS := fun t h => (ih t).1 h
  have hB := fun t h => (ih t).2.1 h
  rw [pBlockBody.eq_2]
  simp only []
  sbx (hS toks (by fin)) s hs
  sb m hm
  split
  · fin
  · sbx (hB s.2 (by fin)) ss hss; fin

theorem pStmts_step {f : Nat} (ih : StmtInv f) (toks : List Tok) (h : 3 * toks.length + 2 ≤ f + 1) :
    Spec (Lt toks) (pStmts (f + 1) toks) := by
  have hS := fun t h => (ih t).1 h
  have hU := fun t h => (ih t).2.2.1 h
  rw [pStmts.eq_2]
  simp only []
  sb m hm
  split
  · fin
  · sbx (hS toks (by fin)) s hs
    sbx (hU s.2 (by fin)) ss hss; fin

theorem pDisjRest_step {f : Nat} (ih : StmtInv f) (toks : List Tok) (h : 3 * toks.length + 1 ≤ f + 1) :
    Spec (Le toks) (pDisjRest (f + 1) toks) := by
  have hU := fun t h => (ih t).2.2.1 h
  have hD := fun t h => (ih t).2.2.2 h
  rw [pDisjRest.eq_2]
  simp only []
  sb m hm
  split
  · sb t2 h2
    sbx (hU t2 (by fin)) ss hss
    sb e he
    sbx (hD e.2 (by fin)) cs hcs; fin
  · fin

theorem stmtInv : ∀ F, StmtInv F := by
  intro F
  induction F with
  | zero =>
    intro toks
    refine ⟨?_, ?_, ?_, ?_⟩ <;> (intro h; omega)
  | succ f ih =>
    intro toks
    exact ⟨fun h => pStmt_step ih toks h, fun h => pBlockBody_step ih toks h, fun h => pStmts_step ih toks h,
      fun h => pDisjRest_step ih toks h⟩

theorem parseStmt_spec (toks : List Tok) : Spec (Lt toks) (parseStmt toks) :=
  (stmtInv _ toks).1 (by unfold stmtFuel; omega)
macro_rules | `(tactic| spec_leaf) => `(tactic| exact parseStmt_spec _)

/-! ### declarations -/

theorem body_spec (toks : List Tok) : Spec (Lt toks) (body toks) := by
  unfold body; try simp only []
  sb t1 h1
  apply Spec_mono (P := Lt t1)
  · spec_leaf
  · intro v hv; fin
macro_rules | `(tactic| spec_leaf) => `(tactic| exact body_spec _)

theorem param_spec (toks : List Tok) : Spec (Lt toks) (param toks) := by
  unfold param; try simp only []
  sb x hx; sb y hy; fin
macro_rules | `(tactic| spec_leaf) => `(tactic| exact param_spec _)

theorem params_spec (toks : List Tok) : Spec (Lt toks) (params toks) := by
  unfold params; try simp only []
  sb t1 h1; sb m hm
  split
  · fin
  · sb ps hps; sb t4 h4; fin
macro_rules | `(tactic| spec_leaf) => `(tactic| exact params_spec _)

theorem parseTypedef_spec (toks : List Tok) : Spec (Lt toks) (parseTypedef toks) := by
  unfold parseTypedef; try simp only []
  sb t1 h1
  split
  · split
    · sb t2 h2; sb e he; sb n hn; sb t5 h5; fin
    · fin
  · fin
  · fin
macro_rules | `(tactic| spec_leaf) => `(tactic| exact parseTypedef_spec _)


theorem enumAlt_spec (toks : List Tok) : Spec (Lt toks) (enumAlt toks) := by
  unfold enumAlt; try simp only []
  split
  · sb t1 h1
    apply Spec_bind (P := Lt t1)
    · refine sepBy1_spec _ _ ?_ _ _ (Nat.le_refl _)
      intro ts
      split
      · sb u hu; fin
      · fin
      · fin
    · intro ss hss
      sb t3 h3; fin
  · sb t1 h1; sb q hq; fin
  · fin
  · fin
macro_rules | `(tactic| spec_leaf) => `(tactic| exact enumAlt_spec _)

theorem parseEnum_spec (toks : List Tok) : Spec (Lt toks) (parseEnum toks) := by
  unfold parseEnum; try simp only []
  sb t1 h1; sb n hn; sb alts halts; sb t4 h4; fin
macro_rules | `(tactic| spec_leaf) => `(tactic| exact parseEnum_spec _)

theorem varDecl_spec (toks : List Tok) : Spec (Lt toks) (varDecl toks) := by
  unfold varDecl; try simp only []
  sb n hn; sb m hm
  split
  · sb e he; fin
  · fin
macro_rules | `(tactic| spec_leaf) => `(tactic| exact varDecl_spec _)

theorem parseField_spec (toks : List Tok) : Spec (Lt toks) (parseField toks) := by
  unfold parseField; try simp only []
  sb tp htp; sb vs hvs; sb t3 h3; fin
macro_rules | `(tactic| spec_leaf) => `(tactic| exact parseField_spec _)

theorem retType_spec (toks : List Tok) : Spec (Lt toks) (retType toks) := by
  unfold retType; try simp only []
  split
  · split
    · sb t ht; fin
    · exact qid_spec _
  · exact qid_spec _
macro_rules | `(tactic| spec_leaf) => `(tactic| exact retType_spec _)

theorem parseMethod_spec (toks : List Tok) : Spec (Lt toks) (parseMethod toks) := by
  unfold parseMethod; try simp only []
  sb m hm
  apply Spec_bind (P := Le toks)
  · split
    · fin
    · refine Spec_mono (retType_spec toks) ?_
      intro v hv; fin
  · intro rt hrt
    sb n hn; sb ps hps; sb ss hss; fin
macro_rules | `(tactic| spec_leaf) => `(tactic| exact parseMethod_spec _)

theorem initItem_spec (toks : List Tok) : Spec (Lt toks) (initItem toks) := by
  unfold initItem; try simp only []
  sb n hn; sb t2 h2; sb m hm
  split
  · fin
  · sb xs hxs; sb t5 h5; fin
macro_rules | `(tactic| spec_leaf) => `(tactic| exact initItem_spec _)

theorem parseCtor_spec (toks : List Tok) : Spec (Lt toks) (parseCtor toks) := by
  unfold parseCtor; try simp only []
  sb n hn; sb ps hps; sb m hm
  apply Spec_bind (P := Le ps.2)
  · split
    · refine Spec_mono (P := Lt m.2) (by spec_leaf) ?_
      intro v hv; fin
    · fin
  · intro il hil
    sb ss hss; fin
macro_rules | `(tactic| spec_leaf) => `(tactic| exact parseCtor_spec _)

theorem parsePredicate_spec (toks : List Tok) : Spec (Lt toks) (parsePredicate toks) := by
  unfold parsePredicate; try simp only []
  sb t1 h1; sb n hn; sb ps hps; sb m hm
  apply Spec_bind (P := Le ps.2)
  · split
    · refine Spec_mono (P := Lt m.2) (by spec_leaf) ?_
      intro v hv; fin
    · fin
  · intro pl hpl
    sb ss hss; fin
macro_rules | `(tactic| spec_leaf) => `(tactic| exact parsePredicate_spec _)

theorem memberTail_spec (toks : List Tok) : Spec (fun _ => True) (memberTail toks) := by
  unfold memberTail; try simp only []
  split <;> fin
macro_rules | `(tactic| spec_leaf) => `(tactic| exact memberTail_spec _)

theorem lookPrimMember_spec (toks : List Tok) : Spec (fun _ => True) (lookPrimMember toks) := by
  unfold lookPrimMember; try simp only []
  sb t1 h1; sb n hn
  split <;> fin
macro_rules | `(tactic| spec_leaf) => `(tactic| exact lookPrimMember_spec _)

theorem lookIdMember_spec (toks : List Tok) : Spec (fun _ => True) (lookIdMember toks) := by
  unfold lookIdMember; try simp only []
  sb t1 h1
  split
  · fin
  · sb q hq; sb n hn
    exact memberTail_spec _
  · sb t2 h2
    exact memberTail_spec _
  · fin
  · fin
macro_rules | `(tactic| spec_leaf) => `(tactic| exact lookIdMember_spec _)


def ClassInv (F : Nat) : Prop := ∀ toks : List Tok,
  (3 * toks.length + 1 ≤ F → Spec (Lt toks) (pClass F toks)) ∧
  (3 * toks.length + 3 ≤ F → Spec (Lt toks) (pMembers F toks)) ∧
  (3 * toks.length + 2 ≤ F → Spec (Lt toks) (pMember F toks))

theorem pClass_step {f : Nat} (ih : ClassInv f) (toks : List Tok) (h : 3 * toks.length + 1 ≤ f + 1) :
    Spec (Lt toks) (pClass (f + 1) toks) := by
  have hM := fun t h => (ih t).2.1 h
  rw [pClass.eq_2]
  simp only []
  sb t1 h1; sb n hn; sb m hm
  apply Spec_bind (P := Le n.2)
  · split
    · refine Spec_mono (P := Lt m.2) (by spec_leaf) ?_
      intro v hv; fin
    · fin
  · intro bcs hbcs
    sb t5 h5
    sbx (hM t5 (by fin)) ms hms; fin

theorem pMembers_step {f : Nat} (ih : ClassInv f) (toks : List Tok) (h : 3 * toks.length + 3 ≤ f + 1) :
    Spec (Lt toks) (pMembers (f + 1) toks) := by
  have hM := fun t h => (ih t).2.1 h
  have hK := fun t h => (ih t).2.2 h
  rw [pMembers.eq_2]
  simp only []
  sb m hm
  split
  · fin
  · sbx (hK toks (by fin)) x hx
    sbx (hM x.2 (by fin)) xs hxs; fin

theorem pMember_step {f : Nat} (ih : ClassInv f) (toks : List Tok) (h : 3 * toks.length + 2 ≤ f + 1) :
    Spec (Lt toks) (pMember (f + 1) toks) := by
  have hC := fun t h => (ih t).1 h
  rw [pMember.eq_def]
  simp only []
  split
  · fin
  · sb d hd; fin
  · sb d hd; fin
  · sbx (hC _ (by fin)) d hd; fin
  · sb d hd; fin
  · sb d hd; fin
  · sb k hk
    split
    · sb d hd; fin
    · sb d hd; fin
    · sb d hd; fin
  · split
    · sb k hk
      split
      · sb d hd; fin
      · sb d hd; fin
    · fin
  · fin

theorem classInv : ∀ F, ClassInv F := by
  intro F
  induction F with
  | zero =>
    intro toks
    refine ⟨?_, ?_, ?_⟩ <;> (intro h; omega)
  | succ f ih =>
    intro toks
    exact ⟨fun h => pClass_step ih toks h, fun h => pMembers_step ih toks h, fun h => pMember_step ih toks h⟩

theorem parseClass_spec (toks : List Tok) : Spec (Lt toks) (parseClass toks) :=
  (classInv _ toks).1 (by unfold classFuel; omega)
macro_rules | `(tactic| spec_leaf) => `(tactic| exact parseClass_spec _)

/-! ### compilation unit -/

theorem lookTopMethod_spec (toks : List Tok) : Spec (fun _ => True) (lookTopMethod toks) := by
  unfold lookTopMethod; try simp only []
  sb t1 h1; sb q hq
  split
  · sb t3 h3
    split
    · sb u hu; fin
    · fin
  · fin
macro_rules | `(tactic| spec_leaf) => `(tactic| exact lookTopMethod_spec _)

theorem lookTopPrimMethod_spec (toks : List Tok) : Spec (fun _ => True) (lookTopPrimMethod toks) := by
  unfold lookTopPrimMethod; try simp only []
  sb t1 h1
  split
  · sb t2 h2; fin
  · fin
macro_rules | `(tactic| spec_leaf) => `(tactic| exact lookTopPrimMethod_spec _)

theorem topItem_spec (toks : List Tok) : Spec (Lt toks) (topItem toks) := by
  unfold topItem; try simp only []
  split
  · fin
  · sb d hd; fin
  · sb d hd; fin
  · sb d hd; fin
  · sb d hd; fin
  · sb d hd; fin
  · sb d hd; fin
  · sb d hd; fin
  · sb d hd; fin
  · sb d hd; fin
  · sb d hd; fin
  · sb d hd; fin
  · sb d hd; fin
  · sb d hd; fin
  · sb d hd; fin
  · sb d hd; fin
  · sb d hd; fin
  · sb d hd; fin
  · sb b hb
    split
    · sb d hd; fin
    · sb d hd; fin
  · split
    · sb b hb
      split
      · sb d hd; fin
      · sb d hd; fin
    · fin

theorem topLoop_spec : ∀ (F : Nat) (toks : List Tok), toks.length + 1 ≤ F → Spec (fun _ => True) (topLoop F toks) := by
  intro F
  induction F with
  | zero => intro toks h; omega
  | succ f ih =>
    intro toks h
    rw [topLoop]
    split
    · fin
    · sbx (topItem_spec toks) x hx
      sbx (ih x.2 (by fin)) xs hxs; fin

theorem parseUnit_spec (toks : List Tok) : Spec (fun _ => True) (parseUnit toks) := by
  unfold parseUnit
  sbx (topLoop_spec _ toks (Nat.le_refl _)) items hitems
  fin


end Oratio.Riddle
