/-
C09X, part 9: the invariants are established by `lra_theory()` and kept by `new_var()`,
`assert_lower / assert_upper`, `push`, `pop`; backtracking restores `BoundsJust`; real solutions
embed into ε-rational ones.
-/
import OratioProofs.Lemmas.LraExplFalse
import OratioProofs.Lemmas.LraExplCheckMain
import OratioProofs.Lemmas.DlRdlExact

namespace Oratio
namespace Lra
open IR Lin

/-! ### `ValsOK` only reads `vals` and `tableau` -/

theorem value_congr {t u : Lra} (h : u.vals = t.vals) (x : Nat) : u.value x = t.value x := by
  unfold Lra.value; rw [h]

theorem valsOK_congr {t u : Lra} (h1 : u.vals = t.vals) (h2 : u.tableau = t.tableau) (hv : ValsOK t) : ValsOK u := by
  have hra : u.ratAssign = t.ratAssign := by funext x; unfold ratAssign; rw [value_congr h1]
  have hia : u.infAssign = t.infAssign := by funext x; unfold infAssign; rw [value_congr h1]
  refine ⟨fun x => by rw [value_congr h1]; exact hv.1 x, ?_⟩
  unfold Solves
  rw [hra, hia, h2]
  exact hv.2

/-- `update(x_i, v)` on a non-basic existing variable keeps `ValsOK` -/
theorem valsOK_update {t : Lra} (ht : TabWF t) (hv : ValsOK t) {xi : Nat} (hnb : t.isBasic xi = false)
    (hxi : xi < t.vals.length) {v : IR} (hvf : IR.Fin v) : ValsOK (t.update xi v) := by
  obtain ⟨r1, _, _, _, _, r6⟩ := update_rat ht hnb hxi hvf.1 (fun x => (hv.1 x).1) hv.2.1
  obtain ⟨i1, i2⟩ := update_inf ht hnb hxi hvf.2 (fun x => (hv.1 x).2) hv.2.2
  exact ⟨fun x => ⟨r6 x, i2 x⟩, r1, i1⟩

theorem mid_same (t : Lra) (i : Nat) (b : LBound) :
    ((t.saveBound i).setBound i b).vals = t.vals ∧ ((t.saveBound i).setBound i b).tableau = t.tableau ∧
    ((t.saveBound i).setBound i b).tWatches = t.tWatches := by
  obtain ⟨_, h2, h3, _, _, h6⟩ := saveBound_same t i
  exact ⟨h6, h2, h3⟩

theorem valsOK_al {t : Lra} (ht : TabWF t) (hv : ValsOK t) {xi : Nat} (hxi : xi < t.vals.length) {val : IR}
    (hval : IR.Fin val) (p : Lit) : ValsOK (alState t xi val p) := by
  obtain ⟨m1, m2, m3⟩ := mid_same t (lbIdx xi) ⟨val, p⟩
  have hvm := valsOK_congr m1 m2 hv
  have htm : TabWF ((t.saveBound (lbIdx xi)).setBound (lbIdx xi) ⟨val, p⟩) :=
    tabWF_congr m2 m3 (by rw [m1]) ht
  unfold alState
  simp only
  split
  · next hc =>
    simp only [Bool.and_eq_true, Bool.not_eq_true'] at hc
    exact valsOK_update htm hvm hc.2 (by rw [m1]; exact hxi) hval
  · exact hvm

theorem valsOK_au {t : Lra} (ht : TabWF t) (hv : ValsOK t) {xi : Nat} (hxi : xi < t.vals.length) {val : IR}
    (hval : IR.Fin val) (p : Lit) : ValsOK (auState t xi val p) := by
  obtain ⟨m1, m2, m3⟩ := mid_same t (ubIdx xi) ⟨val, p⟩
  have hvm := valsOK_congr m1 m2 hv
  have htm : TabWF ((t.saveBound (ubIdx xi)).setBound (ubIdx xi) ⟨val, p⟩) :=
    tabWF_congr m2 m3 (by rw [m1]) ht
  unfold auState
  simp only
  split
  · next hc =>
    simp only [Bool.and_eq_true, Bool.not_eq_true'] at hc
    exact valsOK_update htm hvm hc.2 (by rw [m1]; exact hxi) hval
  · exact hvm

theorem assertLower_th (s : Sat) (t : Lra) (xi : Nat) (val : IR) (p : Lit) :
    (assertLower s t xi val p).th = t ∨ (assertLower s t xi val p).th = alState t xi val p := by
  rcases assertLower_cases s t xi val p with ⟨_, e⟩ | ⟨_, _, e⟩ | ⟨_, _, r1, r2, _, _, ⟨c, _, e⟩ | ⟨_, e⟩⟩ <;>
    rw [e] <;> simp

theorem assertUpper_th (s : Sat) (t : Lra) (xi : Nat) (val : IR) (p : Lit) :
    (assertUpper s t xi val p).th = t ∨ (assertUpper s t xi val p).th = auState t xi val p := by
  rcases assertUpper_cases s t xi val p with ⟨_, e⟩ | ⟨_, _, e⟩ | ⟨_, _, r1, r2, _, _, ⟨c, _, e⟩ | ⟨_, e⟩⟩ <;>
    rw [e] <;> simp

theorem valsOK_assertLower {t : Lra} (ht : TabWF t) (hv : ValsOK t) (s : Sat) {xi : Nat} (hxi : xi < t.vals.length)
    {val : IR} (hval : IR.Fin val) (p : Lit) : ValsOK (assertLower s t xi val p).th := by
  rcases assertLower_th s t xi val p with e | e <;> rw [e]
  · exact hv
  · exact valsOK_al ht hv hxi hval p

theorem valsOK_assertUpper {t : Lra} (ht : TabWF t) (hv : ValsOK t) (s : Sat) {xi : Nat} (hxi : xi < t.vals.length)
    {val : IR} (hval : IR.Fin val) (p : Lit) : ValsOK (assertUpper s t xi val p).th := by
  rcases assertUpper_th s t xi val p with e | e <;> rw [e]
  · exact hv
  · exact valsOK_au ht hv hxi hval p

theorem valsOK_propagateLit {t : Lra} (ht : TabWF t) (hv : ValsOK t) (hao : AsrtOK t) (hvars : AsrtVars t)
    (s : Sat) (p : Lit) : ValsOK (propagateLit s t p).th := by
  unfold propagateLit
  cases hab : t.asrtOf p.var with
  | none => exact hv
  | some a =>
    have hm := asrtOf_mem hab
    have hfin : IR.Fin a.v := hao _ hm
    have hx : a.x < t.vals.length := hvars _ hm
    simp only
    rcases hsv : s.value a.b with _ | _ | _ <;> simp only
    · exact hv
    · split
      · exact valsOK_assertLower ht hv s hx (fin_add_eps hfin).1 p
      · exact valsOK_assertUpper ht hv s hx (fin_sub_eps hfin).1 p
    · split
      · exact valsOK_assertUpper ht hv s hx hfin p
      · exact valsOK_assertLower ht hv s hx hfin p

theorem explInv_assertLower {t : Lra} (inv : ExplInv t) (s : Sat) {xi : Nat} (hxi : ubIdx xi < t.bounds.length)
    {val : IR} (hval : IR.Fin val) (p : Lit) : ExplInv (assertLower s t xi val p).th := by
  rcases assertLower_th s t xi val p with e | e <;> rw [e]
  · exact inv
  · exact explInv_setLb (boundSet_al t xi val p) hxi hval inv

theorem explInv_assertUpper {t : Lra} (inv : ExplInv t) (s : Sat) {xi : Nat} (hxi : ubIdx xi < t.bounds.length)
    {val : IR} (hval : IR.Fin val) (p : Lit) : ExplInv (assertUpper s t xi val p).th := by
  rcases assertUpper_th s t xi val p with e | e <;> rw [e]
  · exact inv
  · exact explInv_setUb (boundSet_au t xi val p) hxi hval inv

theorem asrt_inrange {t : Lra} (hl : BoundsLen t) (hvars : AsrtVars t) {e : Nat × LAsrt} (he : e ∈ t.vAsrts) :
    ubIdx e.2.x < t.bounds.length := by
  have := hvars e he
  unfold BoundsLen at hl
  unfold ubIdx
  omega

theorem explInv_propagateLit {t : Lra} (inv : ExplInv t) (hvars : AsrtVars t) (s : Sat) (p : Lit) :
    ExplInv (propagateLit s t p).th := by
  unfold propagateLit
  cases hab : t.asrtOf p.var with
  | none => exact inv
  | some a =>
    have hm := asrtOf_mem hab
    have hfin : IR.Fin a.v := inv.aok _ hm
    have hx := asrt_inrange inv.blen hvars hm
    simp only
    rcases hsv : s.value a.b with _ | _ | _ <;> simp only
    · exact inv
    · split
      · exact explInv_assertLower inv s hx (fin_add_eps hfin).1 p
      · exact explInv_assertUpper inv s hx (fin_sub_eps hfin).1 p
    · split
      · exact explInv_assertUpper inv s hx hfin p
      · exact explInv_assertLower inv s hx hfin p

/-- the registry and the assertion watches are not touched by the bound assertions -/
theorem assertLower_registry (s : Sat) (t : Lra) (xi : Nat) (val : IR) (p : Lit) :
    (assertLower s t xi val p).th.vAsrts = t.vAsrts ∧ (assertLower s t xi val p).th.vals.length = t.vals.length := by
  rcases assertLower_th s t xi val p with e | e <;> rw [e]
  · exact ⟨rfl, rfl⟩
  · exact ⟨(boundSet_al t xi val p).vAsrts, (boundSet_al t xi val p).vlen⟩

theorem assertUpper_registry (s : Sat) (t : Lra) (xi : Nat) (val : IR) (p : Lit) :
    (assertUpper s t xi val p).th.vAsrts = t.vAsrts ∧ (assertUpper s t xi val p).th.vals.length = t.vals.length := by
  rcases assertUpper_th s t xi val p with e | e <;> rw [e]
  · exact ⟨rfl, rfl⟩
  · exact ⟨(boundSet_au t xi val p).vAsrts, (boundSet_au t xi val p).vlen⟩

theorem propagateLit_registry (s : Sat) (t : Lra) (p : Lit) :
    (propagateLit s t p).th.vAsrts = t.vAsrts ∧ (propagateLit s t p).th.vals.length = t.vals.length := by
  unfold propagateLit
  cases hab : t.asrtOf p.var with
  | none => exact ⟨rfl, rfl⟩
  | some a =>
    simp only
    rcases hsv : s.value a.b with _ | _ | _
    · exact ⟨rfl, rfl⟩
    · simp only
      split
      · exact assertLower_registry _ _ _ _ _
      · exact assertUpper_registry _ _ _ _ _
    · simp only
      split
      · exact assertUpper_registry _ _ _ _ _
      · exact assertLower_registry _ _ _ _ _

/-! ### `check` and the assertion watches -/

theorem tabSet_aWatches (t : Lra) (x : Nat) (l : Lin) : (t.tabSet x l).aWatches = t.aWatches := rfl

theorem pivotRow_aWatches (t : Lra) (xj : Nat) (expr : Lin) (r : Nat) : (t.pivotRow xj expr r).aWatches = t.aWatches := by
  unfold pivotRow
  refine (tabSet_aWatches _ _ _).trans ?_
  refine C09_foldl_inv (fun (acc : Lin × Lra) => acc.2.aWatches = t.aWatches) _ ?_ _ _ rfl
  intro acc e hacc
  obtain ⟨rl, u⟩ := acc
  dsimp only at hacc ⊢
  split
  · exact hacc
  · split
    · exact hacc
    · exact hacc

theorem pivot_aWatches (t : Lra) (xi xj : Nat) : (t.pivot xi xj).aWatches = t.aWatches := by
  unfold pivot
  simp only [newRow_aWatches]
  refine C09_foldl_inv (fun u => u.aWatches = t.aWatches) _ (fun u r hu => (pivotRow_aWatches u xj _ r).trans hu) _ _ ?_
  show (List.foldl (fun t e => unwatchRow t e.1 xi)
    { t with tableau := t.tableau.filter (fun e => e.1 != xi) } ((t.rowOf xi).getD Lin.empty).vars).aWatches = t.aWatches
  exact C09_foldl_inv (fun (u : Lra) => u.aWatches = t.aWatches) (fun (u : Lra) (e : Nat × R) => unwatchRow u e.1 xi)
    (fun _ _ hu => hu) _ _ rfl

theorem pivotAndUpdate_aWatches (t : Lra) (xi xj : Nat) (v : IR) : (t.pivotAndUpdate xi xj v).aWatches = t.aWatches := by
  rw [pivotAndUpdate_def, pivot_aWatches, pauPre_eq]

theorem explInv_check {t t' : Lra} (inv : ExplInv t) {fuel : Nat} {c : Option (List Lit)}
    (h : t.check fuel = some (c, t')) : ExplInv t' := by
  have hss := sameSol_check fuel t t' c inv.tab h
  have hcore := (C09_core_iff t t').1 (C09_core_check fuel t t' c h)
  have haw : t'.aWatches = t.aWatches :=
    check_induct (fun u => u.aWatches = t.aWatches)
      (fun u xi xj l v _ hP _ _ _ => by rw [pivotAndUpdate_aWatches]; exact hP) fuel t t' c inv.tab rfl h
  refine ⟨hss.1, boundsOK_congr hcore.1 inv.bok, ?_, ?_, ?_⟩
  · unfold BoundsLen
    rw [hcore.1, check_vals_length inv.tab h]
    exact inv.blen
  · unfold AsrtOK; rw [hcore.2.1]; exact inv.aok
  · intro x k hk a hka
    rw [haw] at hk
    have : t'.asrtOf k = t.asrtOf k := by unfold Lra.asrtOf; rw [hcore.2.1]
    rw [this] at hka
    exact inv.awatch x k hk a hka

/-! ### `lra_theory()`, `new_var()` -/

theorem fin_default : IR.Fin (IR.ofR R.zero) := (fin_ofR R.finWF_zero).1

theorem explInv_init : ExplInv Lra.init := by
  refine ⟨tabWF_init, fun x => ⟨Or.inl fin_default, Or.inl fin_default⟩, rfl, fun e he => (by cases he), ?_⟩
  intro x b hb
  cases hb

theorem valsOK_init : ValsOK Lra.init :=
  ⟨fun _ => fin_default, fun e he => (by cases he), fun e he => (by cases he)⟩

theorem explInv_newVar {t : Lra} (inv : ExplInv t) : ExplInv t.newVar.2 := by
  have hl := inv.blen
  unfold BoundsLen at hl
  refine ⟨tabWF_newVar inv.tab, ?_, ?_, inv.aok, ?_⟩
  · intro x
    have hbnd : ∀ i, t.newVar.2.bnd i =
        if i < t.bounds.length then t.bnd i
        else if i = t.bounds.length then ⟨IR.ofR R.ninf, Lit.trueLit⟩
        else if i = t.bounds.length + 1 then ⟨IR.ofR R.pinf, Lit.trueLit⟩
        else ⟨IR.ofR R.zero, Lit.trueLit⟩ := by
      intro i
      show (t.bounds ++ [_, _]).getD i _ = _
      rw [List.getD_eq_getElem?_getD]
      by_cases h1 : i < t.bounds.length
      · rw [List.getElem?_append_left h1, if_pos h1]
        unfold Lra.bnd; rw [List.getD_eq_getElem?_getD]
      · rw [List.getElem?_append_right (by omega), if_neg h1]
        by_cases h2 : i = t.bounds.length
        · rw [if_pos h2, h2]; simp
        · rw [if_neg h2]
          by_cases h3 : i = t.bounds.length + 1
          · rw [if_pos h3, h3]; simp
          · rw [if_neg h3]
            have : i - t.bounds.length ≥ 2 := by omega
            rw [List.getElem?_eq_none (by simp; omega)]
            rfl
    constructor
    · unfold Lra.lb; rw [hbnd]
      split
      · exact (inv.bok x).1
      · split
        · exact Or.inr rfl
        · split
          · next h1 h2 h3 => exfalso; unfold lbIdx at h3; omega
          · exact Or.inl fin_default
    · unfold Lra.ub; rw [hbnd]
      split
      · exact (inv.bok x).2
      · split
        · next h1 h2 => exfalso; unfold ubIdx at h2; omega
        · split
          · exact Or.inr rfl
          · exact Or.inl fin_default
  · show (t.bounds ++ [_, _]).length = 2 * (t.vals ++ [_]).length
    rw [List.length_append, List.length_append, hl]; rfl
  · intro x b hb a hab
    have hw : t.newVar.2.aWatches.getD x [] = t.aWatches.getD x [] := getD_append_nil t.aWatches x
    rw [hw] at hb
    exact inv.awatch x b hb a hab

theorem valsOK_newVar {t : Lra} (hv : ValsOK t) : ValsOK t.newVar.2 := by
  have hval : ∀ x, t.newVar.2.value x = t.value x := by
    intro x
    show (t.vals ++ [IR.ofR R.zero]).getD x (IR.ofR R.zero) = t.vals.getD x (IR.ofR R.zero)
    by_cases h : x < t.vals.length
    · exact getD_append_left _ _ _ _ h
    · have h' : t.vals.length ≤ x := Nat.le_of_not_lt h
      rw [List.getD_eq_getElem?_getD, List.getD_eq_getElem?_getD, List.getElem?_append_right h',
        List.getElem?_eq_none h']
      cases hv : x - t.vals.length with
      | zero => rfl
      | succ n => rfl
  have hra : t.newVar.2.ratAssign = t.ratAssign := by funext x; unfold ratAssign; rw [hval]
  have hia : t.newVar.2.infAssign = t.infAssign := by funext x; unfold infAssign; rw [hval]
  refine ⟨fun x => by rw [hval]; exact hv.1 x, ?_⟩
  rw [hra, hia]
  exact hv.2

/-! ### `push`, `pop` -/

theorem explInv_push {t : Lra} (inv : ExplInv t) : ExplInv t.push :=
  ⟨tabWF_congr (t := t) (u := t.push) rfl rfl rfl inv.tab, inv.bok, inv.blen, inv.aok, inv.awatch⟩
theorem valsOK_push {t : Lra} (hv : ValsOK t) : ValsOK t.push := valsOK_congr (t := t) (u := t.push) rfl rfl hv

theorem pop_same (t : Lra) :
    t.pop.tableau = t.tableau ∧ t.pop.tWatches = t.tWatches ∧ t.pop.vals = t.vals ∧ t.pop.vAsrts = t.vAsrts ∧
    t.pop.aWatches = t.aWatches := by
  unfold pop
  split
  · exact ⟨rfl, rfl, rfl, rfl, rfl⟩
  · next l ls _ =>
    exact C09_foldl_inv (fun (u : Lra) => u.tableau = t.tableau ∧ u.tWatches = t.tWatches ∧ u.vals = t.vals ∧
      u.vAsrts = t.vAsrts ∧ u.aWatches = t.aWatches) (fun (u : Lra) (e : Nat × LBound) => u.setBound e.1 e.2)
      (fun u e hu => hu) l t ⟨rfl, rfl, rfl, rfl, rfl⟩

/-- `C09PopInv` only reads `bounds` and `layers` -/
theorem popInv_congr {B t u : Lra} (h1 : u.bounds = t.bounds) (h2 : u.layers = t.layers) (h : C09PopInv B t) :
    C09PopInv B u := by
  obtain ⟨l, a1, a2, a3, a4⟩ := h
  exact ⟨l, by rw [h2]; exact a1, by rw [h1]; exact a2, a3, by rw [h1]; exact a4⟩

theorem update_layers (t : Lra) (xi : Nat) (v : IR) : (t.update xi v).layers = t.layers := by
  rw [update_eq]

theorem popInv_al {B t : Lra} (h : C09PopInv B t) {xi : Nat} (hxi : lbIdx xi < B.bounds.length) (val : IR) (p : Lit) :
    C09PopInv B (alState t xi val p) := by
  have hm := C09_popInv_step B t (lbIdx xi) ⟨val, p⟩ hxi h
  unfold alState
  simp only
  split
  · exact popInv_congr (C09_update_bounds _ _ _) (update_layers _ _ _) hm
  · exact hm

theorem popInv_au {B t : Lra} (h : C09PopInv B t) {xi : Nat} (hxi : ubIdx xi < B.bounds.length) (val : IR) (p : Lit) :
    C09PopInv B (auState t xi val p) := by
  have hm := C09_popInv_step B t (ubIdx xi) ⟨val, p⟩ hxi h
  unfold auState
  simp only
  split
  · exact popInv_congr (C09_update_bounds _ _ _) (update_layers _ _ _) hm
  · exact hm

theorem popInv_assertLower {B t : Lra} (h : C09PopInv B t) (s : Sat) {xi : Nat} (hxi : ubIdx xi < B.bounds.length)
    (val : IR) (p : Lit) : C09PopInv B (assertLower s t xi val p).th := by
  rcases assertLower_th s t xi val p with e | e <;> rw [e]
  · exact h
  · exact popInv_al h (by unfold lbIdx; unfold ubIdx at hxi; omega) val p

theorem popInv_assertUpper {B t : Lra} (h : C09PopInv B t) (s : Sat) {xi : Nat} (hxi : ubIdx xi < B.bounds.length)
    (val : IR) (p : Lit) : C09PopInv B (assertUpper s t xi val p).th := by
  rcases assertUpper_th s t xi val p with e | e <;> rw [e]
  · exact h
  · exact popInv_au h hxi val p

theorem popInv_propagateLit {B t : Lra} (h : C09PopInv B t) (hr : ∀ e ∈ t.vAsrts, ubIdx e.2.x < B.bounds.length)
    (s : Sat) (p : Lit) : C09PopInv B (propagateLit s t p).th := by
  unfold propagateLit
  cases hab : t.asrtOf p.var with
  | none => exact h
  | some a =>
    have hx := hr _ (asrtOf_mem hab)
    simp only
    rcases hsv : s.value a.b with _ | _ | _ <;> simp only
    · exact h
    · split
      · exact popInv_assertLower h s hx _ p
      · exact popInv_assertUpper h s hx _ p
    · split
      · exact popInv_assertUpper h s hx _ p
      · exact popInv_assertLower h s hx _ p

theorem popInv_check {B t t' : Lra} (h : C09PopInv B t) {fuel : Nat} {c : Option (List Lit)}
    (hc : t.check fuel = some (c, t')) : C09PopInv B t' := by
  have hcore := (C09_core_iff t t').1 (C09_core_check fuel t t' c hc)
  exact popInv_congr hcore.1 hcore.2.2.1 h

/-- backtracking: the bounds of the matching `push` come back, with everything that depends on
    them only -/
theorem pop_restores {B cur : Lra} (h : C09PopInv B cur) :
    cur.pop.bounds = B.bounds ∧
    (∀ (α : Asg) (σr σi : Nat → Rat), BoundsJust α σr σi B → BoundsJust α σr σi cur.pop) ∧
    (∀ sB s', ReasonsTrue sB B → Dl.SatLe sB s' → ReasonsTrue s' cur.pop) ∧
    (BoundsOK B → ExplInv cur → ExplInv cur.pop) ∧ (ValsOK cur → ValsOK cur.pop) := by
  have hb := (C09_pop_of_inv B cur h).1
  obtain ⟨p1, p2, p3, p4, p5⟩ := pop_same cur
  refine ⟨hb, fun α σr σi hj => boundsJust_congr hb hj, ?_, ?_, fun hv => valsOK_congr p3 p1 hv⟩
  · intro sB s' hr hle x
    rw [lbReason_congr hb, ubReason_congr hb]
    exact (hr.mono hle) x
  · intro hbok inv
    refine ⟨tabWF_congr p1 p2 (by rw [p3]) inv.tab, boundsOK_congr hb hbok, ?_, ?_, ?_⟩
    · obtain ⟨l, _, hlen, _, _⟩ := h
      unfold BoundsLen
      rw [hb, p3, ← hlen]
      exact inv.blen
    · unfold AsrtOK; rw [p4]; exact inv.aok
    · intro x k hk a hka
      rw [p5] at hk
      have : cur.pop.asrtOf k = cur.asrtOf k := by unfold Lra.asrtOf; rw [p4]
      rw [this] at hka
      exact inv.awatch x k hk a hka

/-! ### real solutions embed -/

/-- `α` agrees with the real valuation `ρ` in the ordinary sense: a true literal means the
    constraint holds at `ρ` (the ε part of the bound read as a strictness flag: `x ≤ r - ε` is
    `x < r`), a false one that it does not -/
def RealAgrees (α : Asg) (ρ : Nat → Rat) (t : Lra) : Prop :=
  ∀ e ∈ t.vAsrts,
    match e.2.o with
    | .leq => (α.lit e.2.b = true → (toLex (ρ e.2.x, 0) : QV) ≤ IR.val e.2.v) ∧
              (α.lit e.2.b = false → ¬ (toLex (ρ e.2.x, 0) : QV) ≤ IR.val e.2.v)
    | .geq => (α.lit e.2.b = true → IR.val e.2.v ≤ (toLex (ρ e.2.x, 0) : QV)) ∧
              (α.lit e.2.b = false → ¬ IR.val e.2.v ≤ (toLex (ρ e.2.x, 0) : QV))

/-- the ε part of every assertion value is an integer (`0`, `-1` for `<`, `+1` for `>`: what
    `new_lt … new_gt` build) -/
def AsrtIntEps (t : Lra) : Prop := ∀ e ∈ t.vAsrts, ∃ k : ℤ, e.2.v.inf.toRat = (k : ℚ)

theorem sumS_zero (m : List (Nat × R)) : sumS (fun _ => (0 : ℚ)) m = 0 := by
  induction m with
  | nil => rfl
  | cons a m ih =>
    obtain ⟨k, c⟩ := a
    rw [sumS_cons, ih]; ring

theorem real_solves {t : Lra} {ρ : Nat → Rat} (h : ∀ e ∈ t.tableau, ρ e.1 = Lin.evalS e.2 ρ) :
    Solves t ρ (fun _ => 0) := by
  refine ⟨h, fun e _ => ?_⟩
  rw [evalS_eq, sumS_zero]
  show (0 : ℚ) = 0 + R.zero.toRat
  rw [R.toRat_zero, add_zero]

theorem real_agrees {t : Lra} {α : Asg} {ρ : Nat → Rat} (hi : AsrtIntEps t) (h : RealAgrees α ρ t) :
    AsrtAgrees α ρ (fun _ => 0) t := by
  intro e he
  obtain ⟨k, hk⟩ := hi e he
  have hr := h e he
  have hnu : nu ρ (fun _ => 0) e.2.x = toLex (ρ e.2.x, 0) := rfl
  rw [hnu]
  cases ho : e.2.o
  · simp only [ho] at hr ⊢
    refine ⟨hr.1, fun hf => ?_⟩
    have h1 := hr.2 hf
    rw [DlR.QV.int_step _ _ (-k) (by show (0 : ℚ) - e.2.v.inf.toRat = _; rw [hk]; push_cast; ring)] at h1
    exact not_lt.1 h1
  · simp only [ho] at hr ⊢
    refine ⟨hr.1, fun hf => ?_⟩
    have h1 := hr.2 hf
    rw [DlR.QV.int_step _ _ k (by show e.2.v.inf.toRat - (0 : ℚ) = _; rw [hk]; ring)] at h1
    have h2 := not_lt.1 h1
    exact le_sub_iff_add_le.2 h2

/-- how the ordinary reading looks on the three shapes -/
theorem real_le_shapes (q r : ℚ) :
    ((toLex (q, 0) : QV) ≤ toLex (r, 0) ↔ q ≤ r) ∧ ((toLex (q, 0) : QV) ≤ toLex (r, -1) ↔ q < r) ∧
    ((toLex (r, 0) : QV) ≤ toLex (q, 0) ↔ r ≤ q) ∧ ((toLex (r, 1) : QV) ≤ toLex (q, 0) ↔ r < q) := by
  refine ⟨?_, ?_, ?_, ?_⟩
  · rw [QV.le_iff]
    constructor
    · rintro (h | ⟨h, _⟩)
      · exact le_of_lt h
      · exact le_of_eq h
    · intro h
      rcases lt_or_eq_of_le h with h | h
      · exact Or.inl h
      · exact Or.inr ⟨h, le_refl _⟩
  · rw [QV.le_iff]
    constructor
    · rintro (h | ⟨_, h⟩)
      · exact h
      · norm_num at h
    · intro h; exact Or.inl h
  · rw [QV.le_iff]
    constructor
    · rintro (h | ⟨h, _⟩)
      · exact le_of_lt h
      · exact le_of_eq h
    · intro h
      rcases lt_or_eq_of_le h with h | h
      · exact Or.inl h
      · exact Or.inr ⟨h, le_refl _⟩
  · rw [QV.le_iff]
    constructor
    · rintro (h | ⟨_, h⟩)
      · exact h
      · norm_num at h
    · intro h; exact Or.inl h

end Lra
end Oratio
