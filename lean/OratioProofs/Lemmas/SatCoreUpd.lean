/-
C07: preservation of the invariants by the elementary updates.
-/
import OratioModel
import OratioProofs.Lemmas.SatCoreBasic

set_option linter.unusedSimpArgs false
set_option linter.unusedVariables false

namespace Oratio
namespace Sat

/-! ### enqueue -/

/-- the state after an effective `enqueue` -/
def enq (s : Sat) (p : Lit) (c : Option Nat) : Sat :=
  { s with vals := s.vals.set p.var (some p.sign), level := s.level.set p.var s.decisionLevel,
           reason := s.reason.set p.var c, trail := p :: s.trail, queue := s.queue ++ [p] }

theorem enqueue_none {s : Sat} {p : Lit} (c : Option Nat) (h : s.value p = none) :
    s.enqueue p c = (true, s.enq p c) := by
  simp only [enqueue, h, enq]

theorem enqueue_some {s : Sat} {p : Lit} (c : Option Nat) {b : Bool} (h : s.value p = some b) :
    s.enqueue p c = (b, s) := by
  simp only [enqueue, h]

section
variable {s : Sat} {p : Lit} {c : Option Nat}

theorem enq_vals_ne {x : Lit} (hx : x.var ≠ p.var) :
    (s.enq p c).vals.getD x.var none = s.vals.getD x.var none := by
  simp only [enq]; exact getD_set_ne _ _ _ _ _ (Ne.symm hx)

theorem enq_value_ne {x : Lit} (hx : x.var ≠ p.var) : (s.enq p c).value x = s.value x :=
  value_congr (enq_vals_ne hx)

theorem enq_lvl_ne {x : Lit} (hx : x.var ≠ p.var) : (s.enq p c).lvl x = s.lvl x := by
  simp only [enq, lvl]; exact getD_set_ne _ _ _ _ _ (Ne.symm hx)

theorem enq_reason_ne {x : Lit} (hx : x.var ≠ p.var) :
    (s.enq p c).reason.getD x.var none = s.reason.getD x.var none := by
  simp only [enq]; exact getD_set_ne _ _ _ _ _ (Ne.symm hx)

theorem enq_value_self (hlt : p.var < s.vals.length) : (s.enq p c).value p = some true := by
  rw [value_eq_true]; simp only [enq]; exact getD_set_eq _ _ _ _ hlt

theorem enq_lvl_self (h : s.WfA) (hlt : p.var < s.vals.length) : (s.enq p c).lvl p = s.decisionLevel := by
  simp only [enq, lvl]; exact getD_set_eq _ _ _ _ (by rw [h.lenLevel]; exact hlt)

theorem enq_reason_self (h : s.WfA) (hlt : p.var < s.vals.length) : (s.enq p c).reason.getD p.var none = c := by
  simp only [enq]; exact getD_set_eq _ _ _ _ (by rw [h.lenReason]; exact hlt)

theorem WfA.enq (h : s.WfA) (hp : s.value p = none) (hlt : p.var < s.vals.length)
    (hc : c = none → s.decisionLevel = 0 ∨ ∀ x ∈ s.trail, s.lvl x < s.decisionLevel) : (s.enq p c).WfA := by
  have hp0 := h.var_ne_zero_of_none hp
  have hne : ∀ l ∈ s.trail, l.var ≠ p.var := fun l hl => h.trail_var_ne hl hp
  refine ⟨?_, ?_, ?_, ?_, ?_, ?_, h.decLen, ?_, h.limSorted, ?_, ?_, ?_, ?_⟩
  · simp [Sat.enq, h.lenLevel]
  · simp [Sat.enq, h.lenReason]
  · have := @enq_vals_ne s p c ⟨0, true⟩ (by simpa using Ne.symm hp0)
    simpa using this.trans h.val0
  · intro l hl
    rcases List.mem_cons.1 hl with rfl | hl
    · exact ⟨value_eq_true.1 (enq_value_self hlt), hp0⟩
    · rw [enq_vals_ne (hne l hl)]; exact h.trailVal l hl
  · show ((p :: s.trail).map Lit.var).Nodup
    simp only [List.map_cons, List.nodup_cons]
    refine ⟨?_, h.trailNodup⟩
    intro hm
    obtain ⟨l, hl, e⟩ := List.mem_map.1 hm
    exact hne l hl e
  · intro v b hv
    by_cases e : v = p.var
    · subst e
      have := value_eq_true.1 (@enq_value_self s p c hlt)
      rw [this] at hv
      right; show _ ∈ p :: s.trail
      simp only [Option.some.injEq] at hv; subst hv
      exact List.mem_cons_self ..
    · have : (s.enq p c).vals.getD v none = s.vals.getD v none := by
        simp only [Sat.enq]; exact getD_set_ne _ _ _ _ _ (Ne.symm e)
      rw [this] at hv
      rcases h.valTrail v b hv with h0 | ht
      · exact Or.inl h0
      · exact Or.inr (List.mem_cons_of_mem _ ht)
  · intro lim hl
    have := h.limLe lim hl
    show lim ≤ (p :: s.trail).length
    simp; omega
  · intro l b hs
    rcases List.suffix_cons_iff.1 hs with e | hs'
    · injection e with e1 e2; subst e1 e2
      rw [enq_lvl_self h hlt]
      show s.trailLim.length = (s.trailLim.filter _).length
      rw [List.filter_eq_self.2]
      intro lim hl; simpa using h.limLe lim hl
    · have hl : l ∈ s.trail := hs'.subset (List.mem_cons_self ..)
      rw [enq_lvl_ne (hne l hl)]
      exact h.levelOK l b hs'
  · intro q hq
    show q ∈ p :: s.trail ∧ _
    rcases List.mem_append.1 hq with hq | hq
    · have := h.queueOK q hq
      refine ⟨List.mem_cons_of_mem _ this.1, ?_⟩
      rw [enq_lvl_ne (hne q this.1)]; exact this.2
    · simp only [List.mem_singleton] at hq; subst hq
      exact ⟨List.mem_cons_self .., enq_lvl_self h hlt⟩
  · intro l b hs hr
    rcases List.suffix_cons_iff.1 hs with e | hs'
    · injection e with e1 e2; subst e1 e2
      rw [enq_reason_self h hlt] at hr
      rw [enq_lvl_self h hlt]
      rcases hc hr with h0 | hall
      · exact Or.inl h0
      · right; intro x hx
        rw [enq_lvl_ne (hne x hx)]; exact hall x hx
    · have hl : l ∈ s.trail := hs'.subset (List.mem_cons_self ..)
      rw [enq_reason_ne (hne l hl)] at hr
      rw [enq_lvl_ne (hne l hl)]
      rcases h.reasonNone l b hs' hr with h0 | hall
      · exact Or.inl h0
      · right; intro x hx
        have hxt : x ∈ s.trail := hs'.subset (List.mem_cons_of_mem _ hx)
        rw [enq_lvl_ne (hne x hxt)]; exact hall x hx
  · intro e he
    have := h.exprsRange e he
    simpa [Sat.enq] using this

theorem WfC.enq (h : s.WfC) : (s.enq p c).WfC := by
  refine ⟨h.clsId, h.clsIdNodup, h.clsLen, h.clsNodup, ?_, h.clsVar0⟩
  intro e he l hl
  have := h.clsRange e he l hl
  simpa [Sat.enq] using this

theorem WfW.enq (h : s.WfW) : (s.enq p c).WfW := by
  refine ⟨?_, h.sound, h.complete, h.nodup⟩
  simpa [Sat.enq] using h.lenWatches

theorem WfR.enq (ha : s.WfA) (h : s.WfR) (hp : s.value p = none) (hlt : p.var < s.vals.length)
    (hc : ∀ id, c = some id → ∃ rest, (id, p :: rest) ∈ s.cls ∧ ∀ r ∈ rest, r.neg ∈ s.trail) :
    (s.enq p c).WfR := by
  have hne : ∀ l ∈ s.trail, l.var ≠ p.var := fun l hl => ha.trail_var_ne hl hp
  intro l b hs id hr
  rcases List.suffix_cons_iff.1 hs with e | hs'
  · injection e with e1 e2; subst e1 e2
    rw [enq_reason_self ha hlt] at hr
    exact hc id hr
  · have hl : l ∈ s.trail := hs'.subset (List.mem_cons_self ..)
    rw [enq_reason_ne (hne l hl)] at hr
    exact h l b hs' id hr

theorem W2.enq {P P' : Nat → Lit → Prop} (ha : s.WfA) (h : s.W2 P) (hp : s.value p = none)
    (hlt : p.var < s.vals.length) (hP : ∀ id x, P id x → P' id x) (hPp : ∀ id, P' id p) :
    (s.enq p c).W2 P' := by
  have key : ∀ id (x y : Lit), ((s.enq p c).value x = some false →
      (s.value x = some false → P id x.neg ∨ (s.value y = some true ∧ s.lvl y ≤ s.lvl x)) →
      P' id x.neg ∨ ((s.enq p c).value y = some true ∧ (s.enq p c).lvl y ≤ (s.enq p c).lvl x)) := by
    intro id x y hx hold
    by_cases e : x.var = p.var
    · left
      rcases Lit.eq_or_neg e with rfl | rfl
      · rw [enq_value_self hlt] at hx; cases hx
      · simpa using hPp id
    · rw [enq_value_ne e] at hx
      rcases hold hx with hP1 | ⟨hy, hl⟩
      · exact Or.inl (hP id _ hP1)
      · right
        have ey : y.var ≠ p.var := by
          intro e'
          rw [value_eq_true, e'] at hy
          rw [value_eq_none, hy] at hp; cases hp
        rw [enq_value_ne ey, enq_lvl_ne ey, enq_lvl_ne e]
        exact ⟨hy, hl⟩
  intro id l0 l1 rest hm
  obtain ⟨h1, h2⟩ := h id l0 l1 rest hm
  exact ⟨fun hv => key id l0 l1 hv h1, fun hv => key id l1 l0 hv h2⟩

end

end Sat
end Oratio

namespace Oratio
namespace Sat

/-! ### frame lemmas: each invariant only depends on some fields -/

theorem WfA.of_eq {s t : Sat} (h : s.WfA) (hv : t.vals = s.vals) (hl : t.level = s.level)
    (hr : t.reason = s.reason) (ht : t.trail = s.trail) (hlim : t.trailLim = s.trailLim)
    (hd : t.decisions = s.decisions) (hq : t.queue = s.queue) (he : t.exprs = s.exprs) : t.WfA := by
  cases s; cases t; simp only at hv hl hr ht hlim hd hq he; subst_vars
  obtain ⟨a1, a2, a3, a4, a5, a6, a7, a8, a9, a10, a11, a12, a13⟩ := h
  exact ⟨a1, a2, a3, a4, a5, a6, a7, a8, a9, a10, a11, a12, a13⟩

theorem WfC.of_eq {s t : Sat} (h : s.WfC) (hc : t.cls = s.cls) (hn : t.nextId = s.nextId)
    (hv : t.vals.length = s.vals.length) : t.WfC := by
  refine ⟨?_, ?_, ?_, ?_, ?_, ?_⟩
  · rw [hc, hn]; exact h.clsId
  · rw [hc]; exact h.clsIdNodup
  · rw [hc]; exact h.clsLen
  · rw [hc]; exact h.clsNodup
  · rw [hc, hv]; exact h.clsRange
  · rw [hc]; exact h.clsVar0

theorem WfW.of_eq {s t : Sat} (h : s.WfW) (hc : t.cls = s.cls) (hw : t.watches = s.watches)
    (hv : t.vals.length = s.vals.length) : t.WfW := by
  refine ⟨?_, ?_, ?_, ?_⟩
  · rw [hw, hv]; exact h.lenWatches
  · rw [hc, hw]; exact h.sound
  · rw [hc, hw]; exact h.complete
  · rw [hw]; exact h.nodup

theorem WfR.of_eq {s t : Sat} (h : s.WfR) (hc : t.cls = s.cls) (ht : t.trail = s.trail)
    (hr : t.reason = s.reason) : t.WfR := by
  unfold WfR; rw [hc, ht, hr]; exact h

theorem W2.of_eq {P : Nat → Lit → Prop} {s t : Sat} (h : s.W2 P) (hc : t.cls = s.cls) (hv : t.vals = s.vals)
    (hl : t.level = s.level) : t.W2 P := by
  unfold W2 value lvl; rw [hc, hv, hl]; exact h

theorem W2.mono {P P' : Nat → Lit → Prop} {s : Sat} (h : s.W2 P) (hP : ∀ id x, P id x → P' id x) : s.W2 P' := by
  intro id l0 l1 rest hm
  obtain ⟨h1, h2⟩ := h id l0 l1 rest hm
  exact ⟨fun hv => (h1 hv).imp (hP _ _) (fun x => x), fun hv => (h2 hv).imp (hP _ _) (fun x => x)⟩

theorem Ent.of_eq {orig K : Cnf} {s t : Sat} (h : s.Ent orig K) (hc : t.cls = s.cls) (ht : t.trail = s.trail)
    (hl : t.level = s.level) (hd : t.decisions = s.decisions) (hlog : t.log = s.log) (hdead : t.dead = s.dead) :
    t.Ent orig K := by
  cases s; cases t; simp only at hc ht hl hd hlog hdead; subst_vars
  obtain ⟨a1, a2, a3, a4, a5⟩ := h
  exact ⟨a1, a2, a3, a4, a5⟩

theorem Wf.of_eq {s t : Sat} (h : s.Wf) (hv : t.vals = s.vals) (hl : t.level = s.level)
    (hr : t.reason = s.reason) (hc : t.cls = s.cls) (hn : t.nextId = s.nextId) (hw : t.watches = s.watches)
    (ht : t.trail = s.trail) (hlim : t.trailLim = s.trailLim)
    (hd : t.decisions = s.decisions) (hq : t.queue = s.queue) (he : t.exprs = s.exprs) : t.Wf :=
  ⟨h.a.of_eq hv hl hr ht hlim hd hq he, h.c.of_eq hc hn (by rw [hv]), h.r.of_eq hc ht hr,
    h.w.of_eq hc hw (by rw [hv])⟩

/-! ### clause lookup -/

theorem clauseOf_of_mem {s : Sat} (h : s.WfC) {id : Nat} {c : Clause} (hm : (id, c) ∈ s.cls) :
    s.clauseOf id = c := by
  unfold clauseOf
  have hnd := h.clsIdNodup
  generalize s.cls = cls at hm hnd
  induction cls with
  | nil => cases hm
  | cons e t ih =>
    simp only [List.map_cons, List.nodup_cons] at hnd
    rcases List.mem_cons.1 hm with rfl | hm'
    · simp
    · have : e.1 ≠ id := by
        intro e'; apply hnd.1; rw [e']; exact List.mem_map.2 ⟨_, hm', rfl⟩
      have hb : (e.1 == id) = false := by simpa using this
      simp only [List.find?_cons, hb]
      exact ih hm' hnd.2

theorem mem_unique {s : Sat} (h : s.WfC) {id : Nat} {c d : Clause} (h1 : (id, c) ∈ s.cls) (h2 : (id, d) ∈ s.cls) :
    c = d := by
  rw [← clauseOf_of_mem h h1, clauseOf_of_mem h h2]

/-! ### watch -/

theorem watch_getD (s : Sat) (l : Lit) (id : Nat) (i : Nat) :
    (s.watch l id).watches.getD i [] =
      if l.idx = i ∧ l.idx < s.watches.length then s.watches.getD i [] ++ [id] else s.watches.getD i [] := by
  simp only [watch, getD_set]
  split
  · rename_i h; rw [h.1]
  · rfl

/-! ### addClause -/

theorem addClause_eq (s : Sat) (l0 l1 : Lit) (rest : List Lit) :
    (s.addClause (l0 :: l1 :: rest)).2 =
      (({ s with cls := s.cls ++ [(s.nextId, l0 :: l1 :: rest)], nextId := s.nextId + 1 } : Sat).watch l0.neg s.nextId).watch
        l1.neg s.nextId := rfl

theorem addClause_fst (s : Sat) (c : Clause) : (s.addClause c).1 = s.nextId := by
  unfold addClause; split <;> rfl

section
variable {s : Sat} {l0 l1 : Lit} {rest : List Lit}

theorem addClause_cls : (s.addClause (l0 :: l1 :: rest)).2.cls = s.cls ++ [(s.nextId, l0 :: l1 :: rest)] := rfl

theorem WfA.addClause (h : s.WfA) : (s.addClause (l0 :: l1 :: rest)).2.WfA :=
  h.of_eq rfl rfl rfl rfl rfl rfl rfl rfl

theorem WfC.addClause (h : s.WfC) (hnd : ((l0 :: l1 :: rest).map Lit.var).Nodup)
    (hr : ∀ l ∈ l0 :: l1 :: rest, l.var < s.vals.length) (h0 : ∀ l ∈ l0 :: l1 :: rest, l.var ≠ 0) :
    (s.addClause (l0 :: l1 :: rest)).2.WfC := by
  refine ⟨?_, ?_, ?_, ?_, ?_, ?_⟩
  · intro e he
    rcases List.mem_append.1 he with he | he
    · have := h.clsId e he; show e.1 < s.nextId + 1; omega
    · simp only [List.mem_singleton] at he; subst he; show s.nextId < s.nextId + 1; omega
  · show ((s.cls ++ [(s.nextId, l0 :: l1 :: rest)]).map (·.1)).Nodup
    rw [List.map_append, List.nodup_append]
    refine ⟨h.clsIdNodup, by simp, ?_⟩
    intro a ha b hb
    simp only [List.map_cons, List.map_nil, List.mem_singleton] at hb
    obtain ⟨e, he, rfl⟩ := List.mem_map.1 ha
    have := h.clsId e he
    omega
  · intro e he
    rcases List.mem_append.1 he with he | he
    · exact h.clsLen e he
    · simp only [List.mem_singleton] at he; subst he; simp
  · intro e he
    rcases List.mem_append.1 he with he | he
    · exact h.clsNodup e he
    · simp only [List.mem_singleton] at he; subst he; exact hnd
  · intro e he
    rcases List.mem_append.1 he with he | he
    · exact h.clsRange e he
    · simp only [List.mem_singleton] at he; subst he; exact hr
  · intro e he
    rcases List.mem_append.1 he with he | he
    · exact h.clsVar0 e he
    · simp only [List.mem_singleton] at he; subst he; exact h0

theorem WfR.addClause (h : s.WfR) : (s.addClause (l0 :: l1 :: rest)).2.WfR := by
  intro l b hs id hr
  obtain ⟨r, hm, hb⟩ := h l b hs id hr
  exact ⟨r, List.mem_append_left _ hm, hb⟩

theorem WfW.addClause (hc : s.WfC) (h : s.WfW) (hnd : ((l0 :: l1 :: rest).map Lit.var).Nodup)
    (hr : ∀ l ∈ l0 :: l1 :: rest, l.var < s.vals.length) : (s.addClause (l0 :: l1 :: rest)).2.WfW := by
  have h0 : l0.neg.idx < s.watches.length := by
    rw [h.lenWatches]; exact Lit.idx_lt (hr l0 (by simp))
  have h1 : l1.neg.idx < s.watches.length := by
    rw [h.lenWatches]; exact Lit.idx_lt (hr l1 (by simp))
  have hne : l0.neg.idx ≠ l1.neg.idx := by
    apply Lit.neg_idx_ne
    simp only [List.map_cons, List.nodup_cons, List.mem_cons, not_or] at hnd
    exact hnd.1.1
  have hfresh : ∀ i, s.nextId ∉ s.watches.getD i [] := by
    intro i hm
    obtain ⟨a, b, r, hm', _⟩ := h.sound i _ hm
    have := hc.clsId _ hm'
    simp at this
  have hw : ∀ i, (s.addClause (l0 :: l1 :: rest)).2.watches.getD i [] =
      if i = l0.neg.idx ∨ i = l1.neg.idx then s.watches.getD i [] ++ [s.nextId] else s.watches.getD i [] := by
    intro i
    rw [addClause_eq, watch_getD, watch_getD]
    simp only [watch, List.length_set]
    by_cases e0 : l0.neg.idx = i <;> by_cases e1 : l1.neg.idx = i
    · exact absurd (e0.trans e1.symm) hne
    · subst e0; simp [h0, e1]
    · subst e1; simp [h1, e0, Ne.symm e0]
    · simp [e0, e1, Ne.symm e0, Ne.symm e1]
  refine ⟨?_, ?_, ?_, ?_⟩
  · rw [addClause_eq]; simp only [watch, List.length_set]; exact h.lenWatches
  · intro i id hm
    rw [hw] at hm
    split at hm
    · rename_i hi
      rcases List.mem_append.1 hm with hm | hm
      · obtain ⟨a, b, r, hm', hh⟩ := h.sound i id hm
        exact ⟨a, b, r, List.mem_append_left _ hm', hh⟩
      · simp only [List.mem_singleton] at hm; subst hm
        refine ⟨l0, l1, rest, List.mem_append_right _ (by simp), ?_⟩
        rcases hi with rfl | rfl
        · exact Or.inl rfl
        · exact Or.inr rfl
    · obtain ⟨a, b, r, hm', hh⟩ := h.sound i id hm
      exact ⟨a, b, r, List.mem_append_left _ hm', hh⟩
  · intro id a b r hm
    rcases List.mem_append.1 hm with hm | hm
    · obtain ⟨ha, hb⟩ := h.complete id a b r hm
      rw [hw, hw]
      constructor
      · split
        · exact List.mem_append_left _ ha
        · exact ha
      · split
        · exact List.mem_append_left _ hb
        · exact hb
    · simp only [List.mem_singleton, Prod.mk.injEq, List.cons.injEq] at hm
      obtain ⟨rfl, rfl, rfl, rfl⟩ := hm
      rw [hw, hw]
      simp
  · intro i
    rw [hw]
    split
    · rw [List.nodup_append]
      refine ⟨h.nodup i, by simp, ?_⟩
      intro a ha b hb
      simp only [List.mem_singleton] at hb; subst hb
      intro e; subst e
      exact hfresh i ha
    · exact h.nodup i

theorem W2.addClause {P : Nat → Lit → Prop} (h : s.W2 P)
    (hnew : (s.value l0 = some false → P s.nextId l0.neg ∨ (s.value l1 = some true ∧ s.lvl l1 ≤ s.lvl l0)) ∧
      (s.value l1 = some false → P s.nextId l1.neg ∨ (s.value l0 = some true ∧ s.lvl l0 ≤ s.lvl l1))) :
    (s.addClause (l0 :: l1 :: rest)).2.W2 P := by
  intro id a b r hm
  rcases List.mem_append.1 hm with hm | hm
  · exact h id a b r hm
  · simp only [List.mem_singleton, Prod.mk.injEq, List.cons.injEq] at hm
    obtain ⟨rfl, rfl, rfl, rfl⟩ := hm
    exact hnew

theorem Wf.addClause (h : s.Wf) (hnd : ((l0 :: l1 :: rest).map Lit.var).Nodup)
    (hr : ∀ l ∈ l0 :: l1 :: rest, l.var < s.vals.length) (h0 : ∀ l ∈ l0 :: l1 :: rest, l.var ≠ 0) :
    (s.addClause (l0 :: l1 :: rest)).2.Wf :=
  ⟨h.a.addClause, h.c.addClause hnd hr h0, h.r.addClause, h.w.addClause h.c hnd hr⟩

end

/-! ### newVar -/

theorem getD_append_none {α} (l : List (Option α)) (i : Nat) : (l ++ [none]).getD i none = l.getD i none := by
  simp only [List.getD_eq_getElem?_getD, List.getElem?_append]
  split
  · rfl
  · rename_i h
    rw [List.getElem?_eq_none (Nat.le_of_not_lt h)]
    by_cases e : i - l.length = 0 <;> simp [e]

theorem getD_append_zero (l : List Nat) (i : Nat) : (l ++ [0]).getD i 0 = l.getD i 0 := by
  simp only [List.getD_eq_getElem?_getD, List.getElem?_append]
  split
  · rfl
  · rename_i h
    rw [List.getElem?_eq_none (Nat.le_of_not_lt h)]
    by_cases e : i - l.length = 0 <;> simp [e]

theorem getD_append_nils (l : List (List Nat)) (i : Nat) : (l ++ [[], []]).getD i [] = l.getD i [] := by
  simp only [List.getD_eq_getElem?_getD, List.getElem?_append]
  split
  · rfl
  · rename_i h
    rw [List.getElem?_eq_none (Nat.le_of_not_lt h)]
    rcases e : i - l.length with _ | _ | k <;> simp

theorem newVar_value (s : Sat) (l : Lit) : s.newVar.2.value l = s.value l := by
  apply value_congr; simp only [newVar]; exact getD_append_none _ _

theorem newVar_lvl (s : Sat) (l : Lit) : s.newVar.2.lvl l = s.lvl l := by
  simp only [newVar, lvl]; exact getD_append_zero _ _

theorem Wf.newVar {s : Sat} (h : s.Wf) : s.newVar.2.Wf := by
  have hr : ∀ i, s.newVar.2.reason.getD i none = s.reason.getD i none := fun i => getD_append_none _ _
  have hv : ∀ i, s.newVar.2.vals.getD i none = s.vals.getD i none := fun i => getD_append_none _ _
  have hw : ∀ i, s.newVar.2.watches.getD i [] = s.watches.getD i [] := fun i => getD_append_nils _ _
  refine ⟨⟨?_, ?_, ?_, ?_, h.a.trailNodup, ?_, h.a.decLen, h.a.limLe, h.a.limSorted, ?_, ?_, ?_, ?_⟩,
    ⟨h.c.clsId, h.c.clsIdNodup, h.c.clsLen, h.c.clsNodup, ?_, h.c.clsVar0⟩, ?_, ⟨?_, ?_, ?_, ?_⟩⟩
  · simp [Sat.newVar, h.a.lenLevel]
  · simp [Sat.newVar, h.a.lenReason]
  · rw [hv]; exact h.a.val0
  · intro l hl; rw [hv]; exact h.a.trailVal l hl
  · intro v b hb; rw [hv] at hb; exact h.a.valTrail v b hb
  · intro l b hs; rw [newVar_lvl]; exact h.a.levelOK l b hs
  · intro p hp; rw [newVar_lvl]; exact h.a.queueOK p hp
  · intro l b hs hn
    rw [hr] at hn
    simp only [newVar_lvl]
    exact h.a.reasonNone l b hs hn
  · intro e he
    have := h.a.exprsRange e he
    simp only [Sat.newVar, List.length_append]; show e.2.var < s.vals.length + 1; omega
  · intro e he l hl
    have := h.c.clsRange e he l hl
    simp only [Sat.newVar, List.length_append]; show l.var < s.vals.length + 1; omega
  · intro l b hs id hid
    rw [hr] at hid
    exact h.r l b hs id hid
  · simp only [Sat.newVar, List.length_append, h.w.lenWatches]; simp; omega
  · intro i id hm; rw [hw] at hm; exact h.w.sound i id hm
  · intro id a b r hm; rw [hw, hw]; exact h.w.complete id a b r hm
  · intro i; rw [hw]; exact h.w.nodup i

theorem W2.newVar {P : Nat → Lit → Prop} {s : Sat} (h : s.W2 P) : s.newVar.2.W2 P := by
  intro id a b r hm
  simp only [newVar_value, newVar_lvl]
  exact h id a b r hm

end Sat
end Oratio
