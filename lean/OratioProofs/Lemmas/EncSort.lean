/-
Lemmas for property C13: `sortDedup` (`std::sort` + `std::unique` on literals) keeps the members
and yields a duplicate-free list.  Core Lean only.
-/
import OratioProofs.Lemmas.Enc

namespace Oratio
namespace EncL
open Enc

/-- `index(p)` determines the literal -/
theorem idx_inj {a b : Lit} (h : a.idx = b.idx) : a = b := by
  cases a with | mk va sa =>
  cases b with | mk vb sb =>
  simp only [Lit.idx] at h
  cases sa <;> cases sb <;> simp at h ⊢ <;> omega

/-! ## `sortByIdx` is a sorted permutation -/

theorem insertByIdx_perm (x : Lit) (t : List Lit) : (insertByIdx x t).Perm (x :: t) := by
  induction t with
  | nil => exact List.Perm.refl _
  | cons y t ih =>
    simp only [insertByIdx]
    split
    · exact List.Perm.refl _
    · exact ((List.Perm.cons y ih).trans (List.Perm.swap x y t))

theorem sortByIdx_perm (ls : List Lit) : (sortByIdx ls).Perm ls := by
  induction ls with
  | nil => exact List.Perm.refl _
  | cons x t ih =>
    show (insertByIdx x (sortByIdx t)).Perm (x :: t)
    exact (insertByIdx_perm x _).trans (List.Perm.cons x ih)

theorem mem_sortByIdx {l : Lit} {ls : List Lit} : l ∈ sortByIdx ls ↔ l ∈ ls :=
  (sortByIdx_perm ls).mem_iff

theorem insertByIdx_sorted (x : Lit) {t : List Lit} (h : t.Pairwise (fun a b => a.idx ≤ b.idx)) :
    (insertByIdx x t).Pairwise (fun a b => a.idx ≤ b.idx) := by
  induction t with
  | nil => simp [insertByIdx]
  | cons y t ih =>
    rw [List.pairwise_cons] at h
    simp only [insertByIdx]
    split
    · next hxy =>
      refine List.pairwise_cons.2 ⟨fun z hz => ?_, List.pairwise_cons.2 h⟩
      rcases List.mem_cons.1 hz with rfl | hz
      · exact hxy
      · exact Nat.le_trans hxy (h.1 z hz)
    · next hxy =>
      refine List.pairwise_cons.2 ⟨fun z hz => ?_, ih h.2⟩
      rcases List.mem_cons.1 ((insertByIdx_perm x t).mem_iff.1 hz) with rfl | hz
      · omega
      · exact h.1 z hz

theorem sortByIdx_sorted (ls : List Lit) : (sortByIdx ls).Pairwise (fun a b => a.idx ≤ b.idx) := by
  induction ls with
  | nil => exact List.Pairwise.nil
  | cons x t ih => exact insertByIdx_sorted x ih

/-! ## `dedupAdj` -/

theorem mem_dedupAdj {l : Lit} {t : List Lit} : l ∈ dedupAdj t ↔ l ∈ t := by
  fun_induction dedupAdj t with
  | case1 b t ih =>
    rw [ih]; simp
  | case2 a b t hab ih =>
    rw [List.mem_cons, ih, List.mem_cons (a := l) (b := a)]
  | case3 t _ => exact Iff.rfl

/-- on a list sorted by index, `std::unique` leaves a strictly increasing list -/
theorem dedupAdj_strict {t : List Lit} (h : t.Pairwise (fun a b => a.idx ≤ b.idx)) :
    (dedupAdj t).Pairwise (fun a b => a.idx < b.idx) := by
  fun_induction dedupAdj t with
  | case1 b t ih => exact ih (List.pairwise_cons.1 h).2
  | case2 a b t hab ih =>
    rw [List.pairwise_cons] at h
    refine List.pairwise_cons.2 ⟨fun z hz => ?_, ih h.2⟩
    rw [mem_dedupAdj] at hz
    have hlt : a.idx < b.idx := by
      have := h.1 b (by simp)
      have hne : a.idx ≠ b.idx := fun e => hab (idx_inj e)
      omega
    rcases List.mem_cons.1 hz with rfl | hz
    · exact hlt
    · exact Nat.lt_of_lt_of_le hlt ((List.pairwise_cons.1 h.2).1 z hz)
  | case3 t hne =>
    match t, hne with
    | [], _ => exact List.Pairwise.nil
    | [a], _ => simp
    | a :: b :: t, hne => exact absurd rfl (hne a b t)

/-! ## `sortDedup` -/

theorem mem_sortDedup {l : Lit} {ls : List Lit} : l ∈ sortDedup ls ↔ l ∈ ls := by
  unfold sortDedup
  rw [mem_dedupAdj, mem_sortByIdx]

theorem sortDedup_strict (ls : List Lit) : (sortDedup ls).Pairwise (fun a b => a.idx < b.idx) :=
  dedupAdj_strict (sortByIdx_sorted ls)

theorem sortDedup_nodup (ls : List Lit) : (sortDedup ls).Nodup :=
  (sortDedup_strict ls).imp (fun {a b} hlt e => by subst e; exact Nat.lt_irrefl _ hlt)

end EncL
end Oratio
