/-
C07: the loop invariant of `Sat.analyze` and its preservation by `traceReason`.
-/
import OratioModel
import OratioProofs.Lemmas.SatCoreDefs
import OratioProofs.Lemmas.SatCoreAnalyzeA

namespace Oratio

theorem Ents.weaken3 {F : Cnf} {A B C A' B' : Clause} {y : Lit} (h : Ents F (A ++ B ++ (y :: C)))
    (hy : y ∈ A' ∨ y ∈ B' ∨ Ents F [y.neg]) (hA : ∀ x ∈ A, x ∈ A') (hB : ∀ x ∈ B, x ∈ B') :
    Ents F (A' ++ B' ++ C) := by
  apply h.an_weaken
  intro x hx
  simp only [List.mem_append, List.mem_cons] at hx ⊢
  rcases hx with (hx | hx) | rfl | hx
  · exact .inl (.inl (.inl (hA x hx)))
  · exact .inl (.inl (.inr (hB x hx)))
  · rcases hy with hy | hy | hy
    · exact .inl (.inl (.inl hy))
    · exact .inl (.inl (.inr hy))
    · exact .inr hy
  · exact .inl (.inr hx)

theorem filter_len_succ {l : List Lit} (hn : (l.map Lit.var).Nodup) {q : Lit} (hq : q ∈ l)
    (p p' : Lit → Bool) (hp' : p' q = true) (hp : p q = false)
    (hpp : ∀ x, x.var ≠ q.var → p' x = p x) :
    (l.filter p').length = (l.filter p).length + 1 := by
  induction l with
  | nil => cases hq
  | cons a l ih =>
    rw [List.map_cons, List.nodup_cons] at hn
    by_cases haq : a = q
    · subst haq
      have : l.filter p' = l.filter p := by
        apply List.filter_congr
        intro x hx
        apply hpp
        intro hxv
        exact hn.1 (hxv ▸ List.mem_map_of_mem hx)
      simp [hp', hp, this]
    · have hq' : q ∈ l := by
        rcases List.mem_cons.1 hq with rfl | h
        · exact absurd rfl haq
        · exact h
      have hav : a.var ≠ q.var := by
        intro hv
        exact hn.1 (hv ▸ List.mem_map_of_mem hq')
      have := ih hn.2 hq'
      simp only [List.filter_cons, hpp a hav]
      split <;> simp [this]

namespace Sat

/-- the seen current-level literals that are still on the trail after `k` pops -/
def cur (s : Sat) (seen : List Nat) (k : Nat) : List Lit :=
  (s.trail.drop k).filter (fun q => seen.contains q.var && s.lvl q == s.decisionLevel)

theorem mem_cur {s : Sat} {seen : List Nat} {k : Nat} {x : Lit} :
    x ∈ cur s seen k ↔ x ∈ s.trail.drop k ∧ x.var ∈ seen ∧ s.lvl x = s.decisionLevel := by
  simp [cur]

theorem cur_cons_of_ne {s : Sat} {seen : List Nat} {k : Nat} {q : Lit} (h : s.lvl q ≠ s.decisionLevel) :
    cur s (q.var :: seen) k = cur s seen k := by
  unfold cur
  apply List.filter_congr
  intro x _
  by_cases hx : x.var = q.var
  · have : s.lvl x ≠ s.decisionLevel := by rw [an_lvl_congr s hx]; exact h
    have h2 : (s.lvl x == s.decisionLevel) = false := by simpa using this
    simp [h2]
  · simp [hx]

theorem cur_cons_len {s : Sat} (hw : s.WfA) {seen : List Nat} {k : Nat} {q : Lit}
    (hq : q ∈ s.trail.drop k) (hs : q.var ∉ seen) (h : s.lvl q = s.decisionLevel) :
    (cur s (q.var :: seen) k).length = (cur s seen k).length + 1 := by
  unfold cur
  apply filter_len_succ _ hq
  · simp [h]
  · simp [hs]
  · intro x hx; simp [hx]
  · exact hw.trailNodup.sublist ((List.drop_sublist _ _).map _)

theorem ent_lvl0 {orig : Cnf} {s : Sat} (he : s.Ent orig) {l : Lit} (hl : l ∈ s.trail)
    (h0 : s.lvl l = 0) : Ents orig [l] := by
  have := he.trail l hl
  simpa [h0, decsUpTo, units] using this

structure J (orig : Cnf) (s : Sat) (a : AnState) (k : Nat) (pend : Clause) : Prop where
  ent : Ents orig (a.learnt ++ (cur s a.seen k).map Lit.neg ++ pend)
  cnt : a.counter = ((cur s a.seen k).length : Int)
  lrn : ∀ x ∈ a.learnt, x.neg ∈ s.trail ∧ 0 < s.lvl x ∧ s.lvl x < s.decisionLevel ∧
          s.lvl x ≤ a.bt ∧ x.var ∈ a.seen
  bt0 : a.learnt = [] → a.bt = 0
  btx : a.learnt ≠ [] → ∃ x ∈ a.learnt, s.lvl x = a.bt
  nd : (a.learnt.map Lit.var).Nodup
  btL : a.bt < s.decisionLevel
  acc : ∀ q ∈ s.trail.drop k, q.var ∈ a.seen →
          s.lvl q = 0 ∨ s.lvl q = s.decisionLevel ∨ q.neg ∈ a.learnt

theorem traceReason_J {orig : Cnf} {s : Sat} (hw : s.WfA) (he : s.Ent orig) (t : Sat) (k : Nat)
    (htd : t.decisionLevel = s.decisionLevel) (qs : List Lit) (a : AnState)
    (hq : ∀ q ∈ qs, q ∈ s.trail.drop k ∧ t.level.getD q.var 0 = s.lvl q)
    (hJ : J orig s a k (qs.map Lit.neg)) : J orig s (traceReason t a qs) k [] := by
  induction qs generalizing a with
  | nil => simpa [traceReason] using hJ
  | cons q qs ih =>
    have hqT : q ∈ s.trail.drop k := (hq q (by simp)).1
    have hqT' : q ∈ s.trail := List.mem_of_mem_drop hqT
    have hql := (hq q (by simp)).2
    have hq' : ∀ q ∈ qs, q ∈ s.trail.drop k ∧ t.level.getD q.var 0 = s.lvl q :=
      fun x hx => hq x (by simp [hx])
    have hent := hJ.ent
    rw [List.map_cons] at hent
    rw [traceReason]
    split
    · -- already seen
      rename_i hseen
      have hseen' : q.var ∈ a.seen := by simpa using hseen
      apply ih a hq'
      refine { hJ with ent := ?_ }
      refine hent.weaken3 ?_ (fun _ h => h) (fun _ h => h)
      rcases hJ.acc q hqT hseen' with h0 | hL | hl
      · exact .inr (.inr (by simpa using ent_lvl0 he hqT' h0))
      · exact .inr (.inl (List.mem_map_of_mem (mem_cur.2 ⟨hqT, hseen', hL⟩)))
      · exact .inl hl
    · rename_i hseen
      have hseen' : q.var ∉ a.seen := by simpa using hseen
      simp only [hql, htd]
      have hacc : ∀ learnt' : List Lit, (∀ x ∈ a.learnt, x ∈ learnt') →
          (s.lvl q = 0 ∨ s.lvl q = s.decisionLevel ∨ q.neg ∈ learnt') →
          ∀ q' ∈ s.trail.drop k, q'.var ∈ q.var :: a.seen →
            s.lvl q' = 0 ∨ s.lvl q' = s.decisionLevel ∨ q'.neg ∈ learnt' := by
        intro learnt' hsub hqc q' hq'T hq's
        rcases List.mem_cons.1 hq's with hv | hv
        · have := an_var_inj_of_mem hw (List.mem_of_mem_drop hq'T) hqT' hv
          subst this; exact hqc
        · rcases hJ.acc q' hq'T hv with h | h | h
          · exact .inl h
          · exact .inr (.inl h)
          · exact .inr (.inr (hsub _ h))
      have hle := an_lvl_le_dl hw hqT'
      split
      · -- current level
        rename_i hL
        apply ih _ hq'
        refine { ent := ?_, cnt := ?_, lrn := ?_, bt0 := hJ.bt0, btx := hJ.btx, nd := hJ.nd,
                 btL := hJ.btL, acc := hacc _ (fun _ h => h) (.inr (.inl hL)) }
        · refine hent.weaken3 (.inr (.inl ?_)) (fun _ h => h) ?_
          · exact List.mem_map_of_mem (mem_cur.2 ⟨hqT, by simp, hL⟩)
          · intro x hx
            obtain ⟨y, hy, rfl⟩ := List.mem_map.1 hx
            have := mem_cur.1 hy
            exact List.mem_map_of_mem (mem_cur.2 ⟨this.1, by simp [this.2.1], this.2.2⟩)
        · show a.counter + 1 = _
          rw [cur_cons_len hw hqT hseen' hL, hJ.cnt]; omega
        · intro x hx
          have := hJ.lrn x hx
          exact ⟨this.1, this.2.1, this.2.2.1, this.2.2.2.1, by simp [this.2.2.2.2]⟩
      · rename_i hL
        split
        · -- intermediate level
          rename_i h0
          apply ih _ hq'
          refine { ent := ?_, cnt := ?_, lrn := ?_, bt0 := ?_, btx := ?_, nd := ?_,
                   btL := ?_, acc := hacc _ (fun x h => by simp [h]) (.inr (.inr (by simp))) }
          · refine hent.weaken3 (.inl (by simp)) (fun x h => by simp [h]) ?_
            intro x hx
            show x ∈ List.map Lit.neg (cur s (q.var :: a.seen) k)
            rw [cur_cons_of_ne hL]; exact hx
          · show a.counter = ((cur s (q.var :: a.seen) k).length : Int)
            rw [cur_cons_of_ne hL]; exact hJ.cnt
          · intro x hx
            show _ ∧ _ ∧ _ ∧ s.lvl x ≤ max a.bt (s.lvl q) ∧ x.var ∈ q.var :: a.seen
            rcases List.mem_append.1 hx with hx | hx
            · have := hJ.lrn x hx
              exact ⟨this.1, this.2.1, this.2.2.1, by omega, by simp [this.2.2.2.2]⟩
            · simp only [List.mem_singleton] at hx
              subst hx
              simp only [Lit.an_neg_neg, an_lvl_neg, Lit.an_neg_var]
              exact ⟨hqT', h0, by omega, by omega, by simp⟩
          · intro h; simp at h
          · intro _
            show ∃ x ∈ a.learnt ++ [q.neg], s.lvl x = max a.bt (s.lvl q)
            by_cases hb : s.lvl q ≤ a.bt
            · have hne : a.learnt ≠ [] := fun h => by have := hJ.bt0 h; omega
              obtain ⟨x, hx, hxe⟩ := hJ.btx hne
              exact ⟨x, by simp [hx], by omega⟩
            · exact ⟨q.neg, by simp, by simp; omega⟩
          · show ((a.learnt ++ [q.neg]).map Lit.var).Nodup
            rw [List.map_append, List.nodup_append]
            refine ⟨hJ.nd, by simp, ?_⟩
            intro v hv w hw' hvw
            obtain ⟨x, hx, rfl⟩ := List.mem_map.1 hv
            simp at hw'
            subst hw'
            exact hseen' (hvw ▸ (hJ.lrn x hx).2.2.2.2)
          · show max a.bt (s.lvl q) < s.decisionLevel
            have := hJ.btL; omega
        · -- level 0
          rename_i h0
          have h0' : s.lvl q = 0 := by omega
          apply ih _ hq'
          refine { ent := ?_, cnt := ?_, lrn := ?_, bt0 := hJ.bt0, btx := hJ.btx, nd := hJ.nd,
                   btL := hJ.btL, acc := hacc _ (fun _ h => h) (.inl h0') }
          · refine hent.weaken3 (.inr (.inr (by simpa using ent_lvl0 he hqT' h0'))) (fun x h => h) ?_
            intro x hx
            show x ∈ List.map Lit.neg (cur s (q.var :: a.seen) k)
            rw [cur_cons_of_ne hL]; exact hx
          · show a.counter = ((cur s (q.var :: a.seen) k).length : Int)
            rw [cur_cons_of_ne hL]; exact hJ.cnt
          · intro x hx
            have := hJ.lrn x hx
            exact ⟨this.1, this.2.1, this.2.2.1, this.2.2.2.1, by simp [this.2.2.2.2]⟩

theorem traceReason_seen (t : Sat) (qs : List Lit) (a : AnState) (v : Nat)
    (h : v ∈ a.seen ∨ ∃ q ∈ qs, q.var = v) : v ∈ (traceReason t a qs).seen := by
  induction qs generalizing a with
  | nil => simpa [traceReason] using h
  | cons q qs ih =>
    rw [traceReason]
    split
    · rename_i hs
      apply ih
      rcases h with h | ⟨x, hx, rfl⟩
      · exact .inl h
      · rcases List.mem_cons.1 hx with rfl | hx
        · exact .inl (by simpa using hs)
        · exact .inr ⟨x, hx, rfl⟩
    · have key : ∀ a' : AnState, a'.seen = q.var :: a.seen → v ∈ (traceReason t a' qs).seen := by
        intro a' ha'
        apply ih
        rcases h with h | ⟨x, hx, rfl⟩
        · exact .inl (by simp [ha', h])
        · rcases List.mem_cons.1 hx with rfl | hx
          · exact .inl (by simp [ha'])
          · exact .inr ⟨x, hx, rfl⟩
      simp only []
      split
      · exact key _ rfl
      · split <;> exact key _ rfl

theorem nextSeen_spec {s : Sat} (hw : s.WfA) (seen : List Nat) (n : Nat) (k : Nat) (pReason : List Lit)
    (p : Lit) (pr' : List Lit) (t' : Sat)
    (h : nextSeen (s.popN k) seen pReason n = some (p, pr', t')) :
    ∃ pre k', s.trail.drop k = pre ++ p :: s.trail.drop k' ∧ k' = k + pre.length + 1 ∧ t' = s.popN k' ∧
      (∀ x ∈ pre, x.var ∉ seen) ∧ p.var ∈ seen ∧
      (∀ id, s.reason.getD p.var none = some id → pr' = reasonLits (s.clauseOf id) false) := by
  induction n generalizing k pReason with
  | zero => simp [nextSeen] at h
  | succ n ih =>
    rw [nextSeen] at h
    split at h
    · cases h
    · rename_i p0 rest heq
      rw [an_popN_trail] at heq
      have hrest : s.trail.drop (k + 1) = rest := by
        rw [← List.drop_drop, heq]; rfl
      have hp0 : p0 ∈ s.trail.drop k := by simp [heq]
      simp only [] at h
      rw [an_popN_reason_of_mem hw k hp0, ← an_popN_succ] at h
      split at h
      · rename_i hs
        simp only [Option.some.injEq, Prod.mk.injEq] at h
        obtain ⟨rfl, rfl, rfl⟩ := h
        refine ⟨[], k + 1, by simp [heq, hrest], by simp, rfl, by simp, by simpa using hs, ?_⟩
        intro id hid
        rw [hid]
        simp only [an_popN_clauseOf]
      · rename_i hs
        obtain ⟨pre, k', h1, h2, h3, h4, h5, h6⟩ := ih _ _ h
        refine ⟨p0 :: pre, k', ?_, by simp; omega, h3, ?_, h5, h6⟩
        · rw [heq, ← hrest, h1]; rfl
        · intro x hx
          rcases List.mem_cons.1 hx with rfl | hx
          · simpa using hs
          · exact h4 x hx

end Sat
end Oratio
