/-
Helper lemmas for `Properties/C09Bridge.lean`, part 4: `Lra.pivotRow` and the loop of `Lra.pivot`
over the rows watching `xj`.
-/
import OratioModel
import OratioProofs.Lemmas.LraBridgeTab

namespace Oratio
namespace Lra
open Lin

def pivCC (xj : Nat) (rl : Lin) : R := (Lin.find rl.vars xj).getD R.zero

def pivW (xj : Nat) (ex : Lin) (r : Nat) (rl : Lin) (tw : List (List Nat)) : List (Nat × R) × List (List Nat) :=
  ex.vars.foldl (pivStepW (pivCC xj rl) r) (Lin.erase rl.vars xj, tw)

def pivNewRow (xj : Nat) (ex : Lin) (r : Nat) (rl : Lin) (tw : List (List Nat)) : Lin :=
  ⟨(pivW xj ex r rl tw).1, R.addAssign rl.known (R.mul ex.known (pivCC xj rl))⟩

theorem pivotRow_explicit {u : Lra} {xj : Nat} {ex : Lin} {r : Nat} {rl : Lin} (hr : u.rowOf r = some rl) :
    pivotRow u xj ex r =
      { u with
        tableau := u.tableau.map (fun e => if e.1 == r then (r, pivNewRow xj ex r rl u.tWatches) else e)
        tWatches := (pivW xj ex r rl u.tWatches).2 } := by
  rw [pivotRow_eq, hr]
  simp only [Option.getD_some]
  rw [pivStep_fold]
  rfl

theorem pivCC_fin {u : Lra} (hu : Core u) {r : Nat} {rl : Lin} (hr : u.rowOf r = some rl) (xj : Nat) :
    R.FinWF (pivCC xj rl) := by
  unfold pivCC
  cases h : Lin.find rl.vars xj with
  | none => exact R.finWF_zero
  | some c => exact coefWF_find ((wf_iff rl).1 (hu.rows r rl hr)).2.1 h

/-- what `pivotRow` does to a state inside `pivot` -/
structure RowStep (xj : Nat) (ex : Lin) (u : Lra) (r : Nat) (rl : Lin) (u' : Lra) : Prop where
  pinv : PInv xj u'
  exok : ExOk xj ex u'
  vals : u'.vals = u.vals
  len : u'.tWatches.length = u.tWatches.length
  other : ∀ r', r' ≠ r → u'.rowOf r' = u.rowOf r'
  self : ∃ l', u'.rowOf r = some l' ∧ Lin.find l'.vars xj = none ∧
    ∀ σ, Lin.evalS l' σ = Lin.evalS rl σ - (pivCC xj rl).toRat * σ xj + (pivCC xj rl).toRat * Lin.evalS ex σ

theorem pivotRow_spec {xj : Nat} {ex : Lin} {u : Lra} (hu : PInv xj u) (hex : ExOk xj ex u)
    {r : Nat} {rl : Lin} (hr : u.rowOf r = some rl) : RowStep xj ex u r rl (pivotRow u xj ex r) := by
  have hcc : R.FinWF (pivCC xj rl) := pivCC_fin hu.toCore hr xj
  obtain ⟨rs, rw', rk⟩ := (wf_iff rl).1 (hu.rows r rl hr)
  obtain ⟨es, ew, ek⟩ := (wf_iff ex).1 hex.wf
  -- the inner loop
  have inv0 : StepInv xj r (Lin.erase rl.vars xj) u.tWatches := by
    refine ⟨sorted_erase _ rs, coefWF_erase rw', hu.wsorted, ?_⟩
    intro v hv
    rw [hu.watch v hv r, find_erase_isSome _ _ rs]
    constructor
    · rintro ⟨l, hl, h⟩
      rw [hr] at hl
      cases hl
      exact ⟨hv, h⟩
    · rintro ⟨-, h⟩
      exact ⟨rl, hr, h⟩
  have hb : ∀ e ∈ ex.vars, e.1 < u.tWatches.length :=
    fun e he => (hex.vars e.1 (find_isSome_of_mem (c := e.2) he)).1
  have hfold := pivStepW_fold_spec (xj := xj) (r := r) hcc ex.vars _ _ inv0 ew hb
  change (pivW xj ex r rl u.tWatches).1 = _ ∧
    StepInv xj r (pivW xj ex r rl u.tWatches).1 (pivW xj ex r rl u.tWatches).2 ∧
    StepRel r ex.vars _ _ (pivW xj ex r rl u.tWatches).1 (pivW xj ex r rl u.tWatches).2 at hfold
  obtain ⟨w1, w2, w3⟩ := hfold
  have hmapw : CoefWF (mapC (fun x => R.mul x (pivCC xj rl)) ex.vars) :=
    coefWF_mapC (fun c hc => (R.mul_fin hc hcc).1) ew
  obtain ⟨f1, f2, -, f4⟩ := foldl_addTerm_spec (mapC (fun x => R.mul x (pivCC xj rl)) ex.vars)
    (Lin.erase rl.vars xj) inv0.sorted inv0.coef (sorted_mapC _ es) hmapw
  have hW1 : (pivW xj ex r rl u.tWatches).1 =
      (mapC (fun x => R.mul x (pivCC xj rl)) ex.vars).foldl addTerm (Lin.erase rl.vars xj) := w1
  have hnoxj : ∀ e ∈ ex.vars, e.1 ≠ xj := find_none_iff.1 hex.noxj
  have hnewxj : Lin.find (pivW xj ex r rl u.tWatches).1 xj = none := by
    cases h : Lin.find (pivW xj ex r rl u.tWatches).1 xj with
    | none => rfl
    | some c =>
      exfalso
      rcases w3.keys xj (by show (Lin.find (pivW xj ex r rl u.tWatches).1 xj).isSome = true; rw [h]; rfl) with h' | ⟨e, he, h'⟩
      · exact ((find_erase_isSome _ _ rs).1 h').1 rfl
      · exact hnoxj e he h'
  have hkn : R.FinWF (R.addAssign rl.known (R.mul ex.known (pivCC xj rl))) :=
    R.finWF_addAssign rk (R.mul_fin ek hcc).1
  have hnewwf : (pivNewRow xj ex r rl u.tWatches).WF :=
    (wf_iff _).2 ⟨by show Sorted (pivW xj ex r rl u.tWatches).1; rw [hW1]; exact f1,
      by show CoefWF (pivW xj ex r rl u.tWatches).1; rw [hW1]; exact f2, hkn⟩
  -- rows of the new state
  have hrow : ∀ r', (pivotRow u xj ex r).rowOf r' =
      if r' = r then some (pivNewRow xj ex r rl u.tWatches) else u.rowOf r' := by
    intro r'
    rw [pivotRow_explicit hr, rowOf_eq]
    show tabFind (u.tableau.map _) r' = _
    rw [tabFind_mapset, ← rowOf_eq, hr]
    rfl
  have hlen : (pivotRow u xj ex r).tWatches.length = u.tWatches.length := by
    rw [pivotRow_explicit hr]
    exact w3.len
  have htw : (pivotRow u xj ex r).tWatches = (pivW xj ex r rl u.tWatches).2 := by
    rw [pivotRow_explicit hr]
  have hnone : ∀ v, u.rowOf v = none → (pivotRow u xj ex r).rowOf v = none := by
    intro v hv
    rw [hrow, if_neg]
    · exact hv
    · rintro rfl
      rw [hr] at hv
      cases hv
  have hkeysnew : ∀ v, (Lin.find (pivNewRow xj ex r rl u.tWatches).vars v).isSome = true →
      (Lin.find rl.vars v).isSome = true ∨ (Lin.find ex.vars v).isSome = true := by
    intro v hv
    rcases w3.keys v hv with h | ⟨e, he, h⟩
    · exact Or.inl ((find_erase_isSome _ _ rs).1 h).2
    · exact Or.inr (h ▸ find_isSome_of_mem (c := e.2) he)
  have hcore : Core (pivotRow u xj ex r) := by
    refine ⟨?_, ?_, ?_, ?_, ?_⟩
    · rw [pivotRow_explicit hr]
      show ((u.tableau.map _).map Prod.fst).Pairwise _
      rw [keys_mapset]
      exact hu.keys
    · intro r' l hl
      rw [hrow] at hl
      by_cases h : r' = r
      · rw [if_pos h] at hl
        cases hl
        exact hnewwf
      · rw [if_neg h] at hl
        exact hu.rows r' l hl
    · intro r' l hl
      rw [hrow] at hl
      rw [hlen]
      by_cases h : r' = r
      · rw [if_pos h] at hl
        cases hl
        subst h
        refine ⟨(hu.bound _ rl hr).1, ?_⟩
        intro v hv
        rcases hkeysnew v hv with h | h
        · exact (hu.bound _ rl hr).2 v h
        · exact (hex.vars v h).1
      · rw [if_neg h] at hl
        exact hu.bound r' l hl
    · intro r' l v hl hv
      rw [hrow] at hl
      apply hnone
      by_cases h : r' = r
      · rw [if_pos h] at hl
        cases hl
        rcases hkeysnew v hv with h' | h'
        · exact hu.nonbasic r rl v hr h'
        · exact (hex.vars v h').2
      · rw [if_neg h] at hl
        exact hu.nonbasic r' l v hl hv
    · rw [htw]
      exact w2.wsorted
  refine ⟨⟨hcore, ?_, ?_⟩, ⟨hex.wf, ?_, hex.noxj⟩, ?_, hlen, ?_, ?_⟩
  · intro v hv r'
    rw [htw]
    by_cases h : r' = r
    · subst h
      rw [w2.watch v hv]
      constructor
      · intro hk
        exact ⟨_, by rw [hrow, if_pos rfl], hk⟩
      · rintro ⟨l, hl, hk⟩
        rw [hrow, if_pos rfl] at hl
        cases hl
        exact hk
    · rw [w3.frame v r' h, hu.watch v hv r']
      simp only [hrow, if_neg h]
  · rw [htw, w3.other xj hnoxj]
    exact hu.empty
  · intro v hv
    rw [hlen]
    exact ⟨(hex.vars v hv).1, hnone v (hex.vars v hv).2⟩
  · rw [pivotRow_explicit hr]
  · intro r' h
    rw [hrow, if_neg h]
  · refine ⟨_, by rw [hrow, if_pos rfl], hnewxj, ?_⟩
    intro σ
    rw [evalS_eq, evalS_eq, evalS_eq]
    show sumS σ (pivW xj ex r rl u.tWatches).1 + (R.addAssign rl.known (R.mul ex.known (pivCC xj rl))).toRat = _
    rw [hW1, f4, sumS_erase_getD, R.toRat_addAssign rk (R.mul_fin ek hcc).1, (R.mul_fin ek hcc).2,
      sumS_mapC (pivCC xj rl).toRat (fun t ht => (R.mul_fin (ew t ht) hcc).2)]
    show _ - (pivCC xj rl).toRat * σ xj + _ + _ = _
    ring

/-! ### the loop over the rows watching `xj` -/

theorem pivotLoop_spec (xj : Nat) (ex : Lin) : ∀ (rs : List Nat) (u : Lra),
    PInv xj u → ExOk xj ex u → (∀ r ∈ rs, (u.rowOf r).isSome = true) →
    (∀ r l, u.rowOf r = some l → (Lin.find l.vars xj).isSome = true → r ∈ rs) →
    PInv xj (rs.foldl (fun t r => pivotRow t xj ex r) u) ∧
    ExOk xj ex (rs.foldl (fun t r => pivotRow t xj ex r) u) ∧
    (rs.foldl (fun t r => pivotRow t xj ex r) u).vals = u.vals ∧
    (rs.foldl (fun t r => pivotRow t xj ex r) u).tWatches.length = u.tWatches.length ∧
    (∀ r, ((rs.foldl (fun t r => pivotRow t xj ex r) u).rowOf r).isSome = (u.rowOf r).isSome) ∧
    (∀ r l, (rs.foldl (fun t r => pivotRow t xj ex r) u).rowOf r = some l → Lin.find l.vars xj = none) ∧
    (∀ σ, σ xj = Lin.evalS ex σ → (HoldsR u σ ↔ HoldsR (rs.foldl (fun t r => pivotRow t xj ex r) u) σ)) := by
  intro rs
  induction rs with
  | nil =>
    intro u hu hex _ hP
    refine ⟨hu, hex, rfl, rfl, fun _ => rfl, ?_, fun _ _ => Iff.rfl⟩
    intro r l hl
    cases h : Lin.find l.vars xj with
    | none => rfl
    | some c =>
      exfalso
      have := hP r l hl (by rw [h]; rfl)
      cases this
  | cons r rs ih =>
    intro u hu hex hsome hP
    obtain ⟨rl, hr⟩ := Option.isSome_iff_exists.1 (hsome r List.mem_cons_self)
    have st := pivotRow_spec hu hex hr
    obtain ⟨l', hl', hxj', hev⟩ := st.self
    have hsome' : ∀ r', ((pivotRow u xj ex r).rowOf r').isSome = (u.rowOf r').isSome := by
      intro r'
      by_cases h : r' = r
      · subst h
        rw [hl', hr]
        rfl
      · rw [st.other r' h]
    obtain ⟨i1, i2, i3, i4, i5, i6, i7⟩ := ih (pivotRow u xj ex r) st.pinv st.exok
      (fun r' hr' => by rw [hsome']; exact hsome r' (List.mem_cons_of_mem _ hr'))
      (by
        intro r' l hl hk
        by_cases h : r' = r
        · subst h
          rw [hl'] at hl
          cases hl
          rw [hxj'] at hk
          cases hk
        · rw [st.other r' h] at hl
          rcases List.mem_cons.1 (hP r' l hl hk) with h' | h'
          · exact absurd h' h
          · exact h')
    rw [List.foldl_cons]
    refine ⟨i1, i2, i3.trans st.vals, i4.trans st.len, fun r' => (i5 r').trans (hsome' r'), i6, ?_⟩
    intro σ hσ
    refine Iff.trans ?_ (i7 σ hσ)
    have hval : Lin.evalS l' σ = Lin.evalS rl σ := by
      rw [hev σ, hσ]
      ring
    constructor
    · intro h r' l hl
      by_cases hrr : r' = r
      · subst hrr
        rw [hl'] at hl
        cases hl
        rw [hval]
        exact h _ rl hr
      · rw [st.other r' hrr] at hl
        exact h r' l hl
    · intro h r' l hl
      by_cases hrr : r' = r
      · subst hrr
        rw [hr] at hl
        cases hl
        rw [← hval]
        exact h _ l' hl'
      · rw [← st.other r' hrr] at hl
        exact h r' l hl

end Lra
end Oratio
