/-
Helper lemmas for `Properties/C09Bridge.lean`, part 2: the inner loop of `Lra.pivotRow`
(one term of the substituted expression at a time) on the pure data: the coefficient list of the
row being rewritten and the watch lists.
-/
import OratioModel
import OratioProofs.Lemmas.LraBridgeLin

namespace Oratio
namespace Lra
open Lin

/-- the loop body of `pivotRow` on (coefficients of the row, watch lists) -/
def pivStepW (cc : R) (r : Nat) (acc : List (Nat × R) × List (List Nat)) (e : Nat × R) :
    List (Nat × R) × List (List Nat) :=
  match Lin.find acc.1 e.1 with
  | none => (Lin.insert acc.1 e.1 (R.mul e.2 cc), acc.2.set e.1 (setInsert r (acc.2.getD e.1 [])))
  | some old =>
    let c' := R.addAssign old (R.mul e.2 cc)
    if R.eq c' R.zero then (Lin.erase acc.1 e.1, acc.2.set e.1 (setErase r (acc.2.getD e.1 [])))
    else (Lin.set acc.1 e.1 c', acc.2)

/-- the loop body of `pivotRow`, verbatim -/
def pivStep (cc : R) (r : Nat) (acc : Lin × Lra) (e : Nat × R) : Lin × Lra :=
  let (rl, t) := acc
  match Lin.find rl.vars e.1 with
  | none => ({ rl with vars := Lin.insert rl.vars e.1 (R.mul e.2 cc) }, watchRow t e.1 r)
  | some old =>
    let c' := R.addAssign old (R.mul e.2 cc)
    if R.eq c' R.zero then ({ rl with vars := Lin.erase rl.vars e.1 }, unwatchRow t e.1 r)
    else ({ rl with vars := Lin.set rl.vars e.1 c' }, t)

theorem pivotRow_eq (t : Lra) (xj : Nat) (expr : Lin) (r : Nat) :
    pivotRow t xj expr r =
      (let rl := (t.rowOf r).getD Lin.empty
       let cc := (Lin.find rl.vars xj).getD R.zero
       let p := expr.vars.foldl (pivStep cc r) (⟨Lin.erase rl.vars xj, rl.known⟩, t)
       p.2.tabSet r ⟨p.1.vars, R.addAssign p.1.known (R.mul expr.known cc)⟩) := rfl

theorem pivStep_eq (cc : R) (r : Nat) (m : List (Nat × R)) (k : R) (t : Lra) (e : Nat × R) :
    pivStep cc r (⟨m, k⟩, t) e =
      (⟨(pivStepW cc r (m, t.tWatches) e).1, k⟩, { t with tWatches := (pivStepW cc r (m, t.tWatches) e).2 }) := by
  unfold pivStep pivStepW
  simp only
  cases hf : Lin.find m e.1 with
  | none => rfl
  | some old =>
    simp only
    split <;> rfl

theorem pivStep_fold (cc : R) (r : Nat) (k : R) : ∀ (es : List (Nat × R)) (m : List (Nat × R)) (t : Lra),
    es.foldl (pivStep cc r) (⟨m, k⟩, t) =
      (⟨(es.foldl (pivStepW cc r) (m, t.tWatches)).1, k⟩,
       { t with tWatches := (es.foldl (pivStepW cc r) (m, t.tWatches)).2 }) := by
  intro es
  induction es with
  | nil => intro m t; rfl
  | cons e es ih =>
    intro m t
    rw [List.foldl_cons, List.foldl_cons, pivStep_eq, ih]

/-- the state of the inner loop: the row `r` under construction has coefficient list `m`, the
    watch lists are `tw`; `r` watches exactly the keys of `m` (`xj` excepted) -/
structure StepInv (xj r : Nat) (m : List (Nat × R)) (tw : List (List Nat)) : Prop where
  sorted : Sorted m
  coef : CoefWF m
  wsorted : ∀ w ∈ tw, w.Pairwise (· < ·)
  watch : ∀ v, v ≠ xj → (r ∈ tw.getD v [] ↔ (Lin.find m v).isSome = true)

/-- what one step / the whole loop changes -/
structure StepRel (r : Nat) (es : List (Nat × R)) (m : List (Nat × R)) (tw : List (List Nat))
    (m' : List (Nat × R)) (tw' : List (List Nat)) : Prop where
  len : tw'.length = tw.length
  frame : ∀ v r', r' ≠ r → (r' ∈ tw'.getD v [] ↔ r' ∈ tw.getD v [])
  other : ∀ v, (∀ e ∈ es, e.1 ≠ v) → tw'.getD v [] = tw.getD v []
  keys : ∀ v, (Lin.find m' v).isSome = true → (Lin.find m v).isSome = true ∨ ∃ e ∈ es, e.1 = v

theorem pivStepW_spec {xj r : Nat} {cc : R} (hcc : R.FinWF cc) {m : List (Nat × R)} {tw : List (List Nat)}
    (inv : StepInv xj r m tw) {e : Nat × R} (he : R.FinWF e.2) (hlen : e.1 < tw.length) :
    (pivStepW cc r (m, tw) e).1 = addTerm m (e.1, R.mul e.2 cc) ∧
    StepInv xj r (pivStepW cc r (m, tw) e).1 (pivStepW cc r (m, tw) e).2 ∧
    StepRel r [e] m tw (pivStepW cc r (m, tw) e).1 (pivStepW cc r (m, tw) e).2 := by
  have hmul : R.FinWF (R.mul e.2 cc) := (R.mul_fin he hcc).1
  obtain ⟨as, ac, -, -⟩ := addTerm_spec (t := (e.1, R.mul e.2 cc)) inv.sorted inv.coef hmul
  have hfst : (pivStepW cc r (m, tw) e).1 = addTerm m (e.1, R.mul e.2 cc) := by
    unfold pivStepW addTerm
    simp only
    cases hf : Lin.find m e.1 with
    | none => rfl
    | some old =>
      simp only
      split <;> rfl
  refine ⟨hfst, ?_, ?_⟩
  · refine ⟨hfst ▸ as, hfst ▸ ac, ?_, ?_⟩
    · -- sorted watch lists
      unfold pivStepW
      simp only
      cases hf : Lin.find m e.1 with
      | none =>
        exact forall_mem_set inv.wsorted (sorted_setInsert (getD_sorted inv.wsorted _))
      | some old =>
        simp only
        split
        · exact forall_mem_set inv.wsorted (sorted_setErase (getD_sorted inv.wsorted _))
        · exact inv.wsorted
    · intro v hv
      unfold pivStepW
      simp only
      cases hf : Lin.find m e.1 with
      | none =>
        simp only
        rw [getD_set, find_insert _ _ hf]
        by_cases hve : v = e.1
        · subst hve
          rw [if_pos ⟨rfl, hlen⟩, if_pos rfl]
          simp [mem_setInsert]
        · rw [if_neg (fun h => hve h.1.symm), if_neg hve]
          exact inv.watch v hv
      | some old =>
        simp only
        split
        · simp only
          rw [getD_set, find_erase _ _ inv.sorted]
          by_cases hve : v = e.1
          · subst hve
            rw [if_pos ⟨rfl, hlen⟩, if_pos rfl]
            simp [mem_setErase]
          · rw [if_neg (fun h => hve h.1.symm), if_neg hve]
            exact inv.watch v hv
        · simp only
          rw [find_set _ _ _ hf]
          by_cases hve : v = e.1
          · subst hve
            rw [if_pos rfl, inv.watch _ hv, hf]
            simp
          · rw [if_neg hve]
            exact inv.watch v hv
  · refine ⟨?_, ?_, ?_, ?_⟩
    · unfold pivStepW
      simp only
      cases hf : Lin.find m e.1 with
      | none => simp
      | some old =>
        simp only
        split <;> simp
    · intro v r' hr'
      unfold pivStepW
      simp only
      cases hf : Lin.find m e.1 with
      | none =>
        simp only
        rw [getD_set]
        split
        · next h => rw [mem_setInsert, h.1]; simp [hr']
        · rfl
      | some old =>
        simp only
        split
        · simp only
          rw [getD_set]
          split
          · next h => rw [mem_setErase, h.1]; simp [hr']
          · rfl
        · rfl
    · intro v hv
      have hve : e.1 ≠ v := hv e (List.mem_singleton.2 rfl)
      unfold pivStepW
      simp only
      cases hf : Lin.find m e.1 with
      | none =>
        simp only
        rw [getD_set, if_neg (fun h => hve h.1)]
      | some old =>
        simp only
        split
        · simp only
          rw [getD_set, if_neg (fun h => hve h.1)]
        · rfl
    · intro v hv
      rw [hfst] at hv
      rcases addTerm_keys inv.sorted hv with h | h
      · exact Or.inl h
      · exact Or.inr ⟨e, List.mem_singleton.2 rfl, h.symm⟩

theorem pivStepW_fold_spec {xj r : Nat} {cc : R} (hcc : R.FinWF cc) :
    ∀ (es : List (Nat × R)) (m : List (Nat × R)) (tw : List (List Nat)),
      StepInv xj r m tw → CoefWF es → (∀ e ∈ es, e.1 < tw.length) →
      (es.foldl (pivStepW cc r) (m, tw)).1 = (mapC (fun x => R.mul x cc) es).foldl addTerm m ∧
      StepInv xj r (es.foldl (pivStepW cc r) (m, tw)).1 (es.foldl (pivStepW cc r) (m, tw)).2 ∧
      StepRel r es m tw (es.foldl (pivStepW cc r) (m, tw)).1 (es.foldl (pivStepW cc r) (m, tw)).2 := by
  intro es
  induction es with
  | nil =>
    intro m tw inv _ _
    exact ⟨rfl, inv, ⟨rfl, fun _ _ _ => Iff.rfl, fun _ _ => rfl, fun _ h => Or.inl h⟩⟩
  | cons e es ih =>
    intro m tw inv hw hb
    obtain ⟨s1, s2, s3⟩ := pivStepW_spec (cc := cc) hcc inv (coefWF_cons.1 hw).1
      (hb e List.mem_cons_self)
    have hb' : ∀ e' ∈ es, e'.1 < (pivStepW cc r (m, tw) e).2.length := by
      intro e' he'
      rw [s3.len]
      exact hb e' (List.mem_cons_of_mem _ he')
    obtain ⟨i1, i2, i3⟩ := ih (pivStepW cc r (m, tw) e).1 (pivStepW cc r (m, tw) e).2 s2
      (coefWF_cons.1 hw).2 hb'
    rw [List.foldl_cons]
    refine ⟨?_, i2, ?_⟩
    · rw [i1, s1]
      rfl
    · refine ⟨i3.len.trans s3.len, ?_, ?_, ?_⟩
      · intro v r' hr'
        exact (i3.frame v r' hr').trans (s3.frame v r' hr')
      · intro v hv
        rw [i3.other v (fun e' he' => hv e' (List.mem_cons_of_mem _ he')),
          s3.other v (fun e' he' => by rw [List.mem_singleton.1 he']; exact hv e List.mem_cons_self)]
      · intro v hv
        rcases i3.keys v hv with h | ⟨e', he', h⟩
        · rcases s3.keys v h with h | ⟨e', he', h⟩
          · exact Or.inl h
          · exact Or.inr ⟨e, List.mem_cons_self, by rw [← List.mem_singleton.1 he']; exact h⟩
        · exact Or.inr ⟨e', List.mem_cons_of_mem _ he', h⟩

end Lra
end Oratio
