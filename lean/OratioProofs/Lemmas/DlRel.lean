/-
Lemmas for property C12 (difference-logic relation constructors and expression queries).

`relOutK` is the continuation-passing form of the specification-side normal form `relOut` of
`Properties/C12.lean` (which cannot be mentioned here: C12 imports this file).  All the work is
done on `relOutK`; C12 only observes `relOut = relOutK … constructors` and transports.
-/
import OratioModel
import OratioProofs.Properties.C15
import Mathlib.Tactic.Ring
import Mathlib.Tactic.Linarith
import Mathlib.Algebra.Order.Field.Rat
import Mathlib.Tactic.FieldSimp

namespace Oratio
namespace DlRel
open Dl

universe u v

/-- the part shared by the one- and two-variable forms: constraint(s) between `a` and `b` -/
def tailK {α : Type} {β : Sort u} (O : DOps α) (r : Rel) (flip : Bool) (k : R) (a b : Nat)
    (k1 : Nat → Nat → α → β) (k2 : Nat → Nat → α → Nat → Nat → α → β) (ki : β) : β :=
  let strict : Int := if r = .lt ∨ r = .gt then -1 else 0
  match r with
  | .eq => match O.mkB k 0, O.mkB (R.neg k) 0 with
    | some p, some q => k2 a b p b a q
    | _, _ => ki
  | _ =>
    if (r = .lt ∨ r = .leq) == flip then (match O.mkB k strict with | some p => k1 a b p | none => ki)
    else (match O.mkB (R.neg k) strict with | some p => k1 b a p | none => ki)

/-- continuation-passing form of `relOut` -/
def relOutK {α : Type} {β : Sort u} (O : DOps α) (r : Rel) (left right : Lin)
    (kc : Bool → β) (k1 : Nat → Nat → α → β) (k2 : Nat → Nat → α → Nat → Nat → α → β) (ki : β) : β :=
  let expr := Lin.sub left right
  match expr.vars with
  | [] => kc (relConst r expr.known)
  | [(x, c)] => tailK O r (R.lt c R.zero) (Lin.divR expr c).known x 0 k1 k2 ki
  | [(v0, c0), (v1, _)] =>
    let e := Lin.divR expr c0
    let c1 := (Lin.find e.vars v1).getD R.zero
    if R.ne c1 (R.neg R.one) then ki
    else tailK O r (R.lt c0 R.zero) e.known v0 v1 k1 k2 ki
  | _ => ki

/-! ### generic facts about the continuation-passing form -/

theorem tailK_map {α : Type} {β : Sort u} {γ : Sort v} (f : β → γ) (O : DOps α) (r : Rel) (flip : Bool)
    (k : R) (a b : Nat) (k1 : Nat → Nat → α → β) (k2 : Nat → Nat → α → Nat → Nat → α → β) (ki : β) :
    f (tailK O r flip k a b k1 k2 ki) =
      tailK O r flip k a b (fun s d w => f (k1 s d w)) (fun s1 d1 w1 s2 d2 w2 => f (k2 s1 d1 w1 s2 d2 w2)) (f ki) := by
  unfold tailK
  cases r <;> dsimp only <;> (try split) <;> (try split) <;> rfl

theorem relOutK_map {α : Type} {β : Sort u} {γ : Sort v} (f : β → γ) (O : DOps α) (r : Rel) (left right : Lin)
    (kc : Bool → β) (k1 : Nat → Nat → α → β) (k2 : Nat → Nat → α → Nat → Nat → α → β) (ki : β) :
    f (relOutK O r left right kc k1 k2 ki) =
      relOutK O r left right (fun b => f (kc b)) (fun s d w => f (k1 s d w))
        (fun s1 d1 w1 s2 d2 w2 => f (k2 s1 d1 w1 s2 d2 w2)) (f ki) := by
  unfold relOutK
  dsimp only
  split
  · rfl
  · exact tailK_map f ..
  · split
    · rfl
    · exact tailK_map f ..
  · rfl

/-- `newRel` is `relOutK` with `new_distance` / `new_conj` as continuations (any instance) -/
theorem newRel_eq {α : Type} (O : DOps α) (nc : Sat → List Lit → Lit × Sat) (s : Sat) (t : Dl α)
    (r : Rel) (left right : Lin) :
    newRel O nc s t r left right =
      relOutK O r left right
        (fun b => some (if b then Lit.trueLit else Lit.falseLit, s, t))
        (fun src dst w => some (newDistance O s t src dst w))
        (fun s1 d1 w1 s2 d2 w2 =>
          if O.le (distance O t s1 d1).1 w1 && O.le w1 (distance O t s1 d1).2 then
            let (l1, sa, ta) := newDistance O s t s1 d1 w1
            let (l2, sb, tb) := newDistance O sa ta s2 d2 w2
            let (l, sc) := nc sb [l1, l2]
            some (l, sc, tb)
          else some (Lit.falseLit, s, t))
        none := by
  unfold newRel relOutK tailK
  generalize Lin.sub left right = e
  obtain ⟨vars, known⟩ := e
  match vars with
  | [] => rfl
  | [(x, c)] => cases r <;> rfl
  | [(v0, c0), (v1, c1)] =>
    dsimp only
    split
    · rfl
    · cases r <;> rfl
  | _ :: _ :: _ :: _ => rfl

/-! ### integer instance -/

def holds (r : Rel) (a b : Rat) : Prop :=
  match r with
  | .lt => a < b | .leq => a ≤ b | .eq => a = b | .geq => a ≥ b | .gt => a > b

theorem holds_sub (r : Rel) (a b : Rat) : holds r a b ↔ holds r (a - b) 0 := by
  cases r <;> simp only [holds, sub_neg, sub_nonpos, sub_eq_zero, ge_iff_le, gt_iff_lt, sub_nonneg, sub_pos]

theorem idl_mkB (k : R) (e : Int) : idlOps.mkB k e = if k.den = 1 then some (k.num + e) else none := by
  show (if (k.den == 1) = true then some (k.num + e) else none) = _
  by_cases h : k.den = 1 <;> simp [h]

theorem tailK_idl_invalid {β : Sort u} (r : Rel) (flip : Bool) (k : R) (a b : Nat)
    (k1 : Nat → Nat → Int → β) (k2 : Nat → Nat → Int → Nat → Nat → Int → β) (ki : β) (h : k.den ≠ 1) :
    tailK idlOps r flip k a b k1 k2 ki = ki := by
  have hn : (R.neg k).den ≠ 1 := h
  unfold tailK
  cases r <;> cases flip <;> simp [idl_mkB, h, hn]

theorem tailK_idl_valid {β : Sort u} (r : Rel) (flip : Bool) (k : R) (a b : Nat)
    (k1 : Nat → Nat → Int → β) (k2 : Nat → Nat → Int → Nat → Nat → Int → β) (ki : β) (h : k.den = 1) :
    tailK idlOps r flip k a b k1 k2 ki =
      match r with
      | .eq => k2 a b k.num b a (-k.num)
      | .lt => if flip then k1 a b (k.num - 1) else k1 b a (-k.num - 1)
      | .leq => if flip then k1 a b k.num else k1 b a (-k.num)
      | .geq => if flip then k1 b a (-k.num) else k1 a b k.num
      | .gt => if flip then k1 b a (-k.num - 1) else k1 a b (k.num - 1) := by
  have hn : (R.neg k).den = 1 := h
  have hnn : (R.neg k).num = -k.num := rfl
  unfold tailK
  cases r <;> cases flip <;> simp [idl_mkB, h, hn, hnn] <;> rfl

theorem core (c K : Rat) (n s : Int) (hc : c ≠ 0) (hk : K / c = (n : Rat)) :
    (c < 0 → ((-s ≤ n - 1 ↔ c * (s : Rat) + K < 0) ∧ (-s ≤ n ↔ c * (s : Rat) + K ≤ 0) ∧
              (s ≤ -n ↔ c * (s : Rat) + K ≥ 0) ∧ (s ≤ -n - 1 ↔ c * (s : Rat) + K > 0))) ∧
    (0 < c → ((s ≤ -n - 1 ↔ c * (s : Rat) + K < 0) ∧ (s ≤ -n ↔ c * (s : Rat) + K ≤ 0) ∧
              (-s ≤ n ↔ c * (s : Rat) + K ≥ 0) ∧ (-s ≤ n - 1 ↔ c * (s : Rat) + K > 0))) ∧
    ((-s ≤ n ∧ s ≤ -n) ↔ c * (s : Rat) + K = 0) := by
  have hK : K = (n : Rat) * c := by rw [← hk]; field_simp
  have hV : c * (s : Rat) + K = c * ((s + n : Int) : Rat) := by rw [hK]; push_cast; ring
  rw [hV]
  generalize hm : s + n = m
  have e1 : (-s ≤ n - 1) ↔ 0 < m := by omega
  have e2 : (-s ≤ n) ↔ 0 ≤ m := by omega
  have e3 : (s ≤ -n) ↔ m ≤ 0 := by omega
  have e4 : (s ≤ -n - 1) ↔ m < 0 := by omega
  rw [e1, e2, e3, e4]
  have c1 : (0 < m) ↔ (0 : Rat) < (m : Rat) := by exact_mod_cast Iff.rfl
  have c2 : (0 ≤ m) ↔ (0 : Rat) ≤ (m : Rat) := by exact_mod_cast Iff.rfl
  have c3 : (m ≤ 0) ↔ (m : Rat) ≤ 0 := by exact_mod_cast Iff.rfl
  have c4 : (m < 0) ↔ (m : Rat) < 0 := by exact_mod_cast Iff.rfl
  rw [c1, c2, c3, c4]
  generalize (m : Rat) = q
  refine ⟨fun h => ⟨?_, ?_, ?_, ?_⟩, fun h => ⟨?_, ?_, ?_, ?_⟩, ?_⟩
  all_goals first | (constructor <;> intro hq <;> nlinarith) | skip
  · constructor
    · rintro ⟨h1, h2⟩; rw [le_antisymm h2 h1, mul_zero]
    · intro h; rcases mul_eq_zero.1 h with h | h
      · exact absurd h hc
      · rw [h]; exact ⟨le_refl _, le_refl _⟩

theorem lt_zero_iff {c : R} (hc : R.FinWF c) : R.lt c R.zero = true ↔ c.toRat < 0 := by
  rw [R.lt_eq_not_le, R.le_fin R.finWF_zero hc, R.toRat_zero]
  simp

theorem toRat_ne_zero {c : R} (hc : R.FinWF c) (hn : c.num ≠ 0) : c.toRat ≠ 0 := by
  intro h0
  rcases Int.lt_or_gt_of_ne hn with h | h
  · have := (R.toRat_neg_iff hc).mpr h; rw [h0] at this; exact lt_irrefl _ this
  · have := (R.toRat_pos_iff hc).mpr h; rw [h0] at this; exact lt_irrefl _ this

theorem toRat_of_den_one {k : R} (hk : R.FinWF k) (h : k.den = 1) : k.toRat = (k.num : Rat) := by
  rw [R.toRat_eq hk.1.1, h]; simp

theorem tailK_idl_meaning (r : Rel) (c k : R) (hc : R.FinWF c) (hcn : c.num ≠ 0) (hk : R.FinWF k) (K : Rat)
    (hK : k.toRat = K / c.toRat) (σ : Nat → Int) (a b : Nat) (H : Prop)
    (hH : H ↔ holds r (c.toRat * ((σ a - σ b : Int) : Rat) + K) 0) :
    tailK idlOps r (R.lt c R.zero) k a b (fun s d w => (σ d - σ s ≤ w) ↔ H)
      (fun s1 d1 w1 s2 d2 w2 => (σ d1 - σ s1 ≤ w1 ∧ σ d2 - σ s2 ≤ w2) ↔ H) True := by
  by_cases hd : k.den = 1
  · rw [tailK_idl_valid _ _ _ _ _ _ _ _ hd]
    have hc0 := toRat_ne_zero hc hcn
    have hn : K / c.toRat = (k.num : Rat) := by rw [← hK, toRat_of_den_one hk hd]
    obtain ⟨hneg, hpos, heq⟩ := core c.toRat K k.num (σ a - σ b) hc0 hn
    have hflip := lt_zero_iff hc
    have e1 : ∀ w, σ b - σ a ≤ w ↔ -(σ a - σ b) ≤ w := fun w => by omega
    by_cases hlt : c.toRat < 0
    · have hf : R.lt c R.zero = true := hflip.2 hlt
      obtain ⟨h1, h2, h3, h4⟩ := hneg hlt
      cases r <;> simp only [hf, if_true, hH, holds, e1]
      · exact h1
      · exact h2
      · exact heq
      · exact h3
      · exact h4
    · have hf : R.lt c R.zero = false := by
        cases h : R.lt c R.zero
        · rfl
        · exact absurd (hflip.1 h) hlt
      have hp : 0 < c.toRat := lt_of_le_of_ne (not_lt.1 hlt) (Ne.symm hc0)
      obtain ⟨h1, h2, h3, h4⟩ := hpos hp
      cases r <;> simp only [hf, Bool.false_eq_true, if_false, hH, holds, e1]
      · exact h1
      · exact h2
      · exact heq
      · exact h3
      · exact h4
  · rw [tailK_idl_invalid _ _ _ _ _ _ _ _ hd]
    trivial

theorem tailK_idl_invalid_iff (r : Rel) (flip : Bool) (k : R) (a b : Nat) :
    tailK idlOps r flip k a b (fun _ _ _ => False) (fun _ _ _ _ _ _ => False) True ↔ k.den ≠ 1 := by
  by_cases hd : k.den = 1
  · rw [tailK_idl_valid _ _ _ _ _ _ _ _ hd]
    cases r <;> cases flip <;> simp [hd]
  · rw [tailK_idl_invalid _ _ _ _ _ _ _ _ hd]
    simp [hd]

theorem relConst_iff (r : Rel) {k : R} (hk : R.FinWF k) : relConst r k = true ↔ holds r k.toRat 0 := by
  have hz := R.finWF_zero
  cases r <;> simp only [relConst, holds]
  · exact lt_zero_iff hk
  · rw [R.le_fin hk hz, R.toRat_zero]; simp
  · rw [R.eq_eq_decide]; simp only [decide_eq_true_iff]
    constructor
    · intro h; rw [h, R.toRat_zero]
    · intro h; exact R.FinWF.ext hk hz (by rw [h, R.toRat_zero])
  · rw [R.ge_eq_le, R.le_fin hz hk, R.toRat_zero]; simp
  · rw [R.gt_eq_lt, R.lt_eq_not_le, R.le_fin hk hz, R.toRat_zero]; simp

theorem divAssign_zero_den {a : R} (ha : R.FinWF a) : (R.divAssign a R.zero).den = 0 := by
  rw [R.divAssign_eq_div]
  have : R.div a R.zero = R.mul a R.pinf := rfl
  rw [this, R.mul_inf ha.1 (by decide) (Or.inr rfl)]
  split <;> rfl

theorem find_div2 (v0 v1 : Nat) (c0 c1 known : R) (h : v0 ≠ v1) :
    (Lin.find (Lin.divR ⟨[(v0, c0), (v1, c1)], known⟩ c0).vars v1).getD R.zero = R.divAssign c1 c0 := by
  simp [Lin.divR, Lin.find, h]

theorem ne_negOne {c0 c1 : R} (hc0 : R.FinWF c0) (hc1 : R.FinWF c1)
    (h : ¬ R.ne (R.divAssign c1 c0) (R.neg R.one) = true) : c0.num ≠ 0 ∧ c1.toRat = - c0.toRat := by
  have hnum : c0.num ≠ 0 := by
    intro hn
    have hz : c0 = R.zero := R.wf_num_zero hc0.1 hn
    have hd := divAssign_zero_den hc1
    rw [← hz] at hd
    apply h
    simp [R.ne, hd, R.neg, R.one]
  refine ⟨hnum, ?_⟩
  have he : R.divAssign c1 c0 = R.neg R.one := by
    have : R.eq (R.divAssign c1 c0) (R.neg R.one) = true := by
      rw [R.ne_eq_not_eq] at h; simpa using h
    rw [R.eq_eq_decide] at this; simpa using this
  have ht := R.toRat_divAssign hc1 hc0 hnum
  rw [he] at ht
  have h1 : (R.neg R.one).toRat = -1 := by decide
  rw [h1] at ht
  have hc0' := toRat_ne_zero hc0 hnum
  field_simp at ht
  linarith

/-- components of well-formedness of a one- or two-variable expression -/
theorem wf1 {x : Nat} {c known : R} (h : (⟨[(x, c)], known⟩ : Lin).WF) : R.FinWF c ∧ R.FinWF known := by
  obtain ⟨-, hw, hk⟩ := (Lin.wf_iff _).1 h
  exact ⟨hw (x, c) (by simp), hk⟩

theorem wf2 {v0 v1 : Nat} {c0 c1 known : R} (h : (⟨[(v0, c0), (v1, c1)], known⟩ : Lin).WF) :
    v0 < v1 ∧ R.FinWF c0 ∧ R.FinWF c1 ∧ R.FinWF known := by
  obtain ⟨hs, hw, hk⟩ := (Lin.wf_iff _).1 h
  refine ⟨?_, hw (v0, c0) (by simp), hw (v1, c1) (by simp), hk⟩
  have := (List.pairwise_cons.1 hs).1 (v1, c1) (by simp)
  exact this

/-- (ii) the semantic core, on the continuation-passing form -/
theorem relOutK_idl_meaning (r : Rel) (left right : Lin) (hl : left.WF) (hr : right.WF)
    (σ : Nat → Int) (h0 : σ 0 = 0) (H : Prop)
    (hH : H ↔ holds r (Lin.eval left (fun v => (σ v : Rat))) (Lin.eval right (fun v => (σ v : Rat)))) :
    relOutK idlOps r left right (fun b => b = true ↔ H) (fun s d w => (σ d - σ s ≤ w) ↔ H)
      (fun s1 d1 w1 s2 d2 w2 => (σ d1 - σ s1 ≤ w1 ∧ σ d2 - σ s2 ≤ w2) ↔ H) True := by
  obtain ⟨hwf, -, -, hev, -⟩ := C15_lin_sub left right hl hr
  rw [holds_sub, ← hev] at hH
  unfold relOutK
  generalize Lin.sub left right = e at hwf hH
  obtain ⟨vars, known⟩ := e
  match vars with
  | [] =>
    dsimp only
    have hk : R.FinWF known := ((Lin.wf_iff _).1 hwf).2.2
    rw [relConst_iff r hk, hH]
    simp [Lin.eval]
  | [(x, c)] =>
    dsimp only
    obtain ⟨hc, hk⟩ := wf1 hwf
    by_cases hcn : c.num = 0
    · have hz : c = R.zero := R.wf_num_zero hc.1 hcn
      have hd : (Lin.divR ⟨[(x, c)], known⟩ c).known.den ≠ 1 := by
        show (R.divAssign known c).den ≠ 1
        rw [hz, divAssign_zero_den hk]; decide
      rw [tailK_idl_invalid _ _ _ _ _ _ _ _ hd]
      trivial
    · apply tailK_idl_meaning r c _ hc hcn (R.finWF_divAssign hk hc hcn) known.toRat
        (R.toRat_divAssign hk hc hcn)
      rw [hH]
      simp [Lin.eval, h0]
  | [(v0, c0), (v1, c1)] =>
    dsimp only
    obtain ⟨hlt, hc0, hc1, hk⟩ := wf2 hwf
    rw [find_div2 v0 v1 c0 c1 known (Nat.ne_of_lt hlt)]
    split
    · trivial
    · rename_i hne
      obtain ⟨hcn, hc10⟩ := ne_negOne hc0 hc1 hne
      apply tailK_idl_meaning r c0 _ hc0 hcn (R.finWF_divAssign hk hc0 hcn) known.toRat
        (R.toRat_divAssign hk hc0 hcn)
      rw [hH]
      simp only [Lin.eval, List.map, List.sum_cons, List.sum_nil, hc10]
      push_cast
      ring_nf
  | _ :: _ :: _ :: _ => trivial

/-- exactly what the integer instance rejects -/
theorem relOutK_idl_invalid (r : Rel) (left right : Lin) (hl : left.WF) (hr : right.WF) :
    relOutK idlOps r left right (fun _ => False) (fun _ _ _ => False) (fun _ _ _ _ _ _ => False) True ↔
      (let e := Lin.sub left right
       match e.vars with
       | [] => False
       | [(_, c)] => (R.div e.known c).den ≠ 1
       | [(_, c0), (_, c1)] => R.ne (R.div c1 c0) (R.neg R.one) = true ∨ (R.div e.known c0).den ≠ 1
       | _ => True) := by
  obtain ⟨hwf, -⟩ := C15_lin_sub left right hl hr
  unfold relOutK
  generalize Lin.sub left right = e at hwf
  obtain ⟨vars, known⟩ := e
  match vars with
  | [] => exact Iff.rfl
  | [(x, c)] =>
    dsimp only
    rw [tailK_idl_invalid_iff]
    show (R.divAssign known c).den ≠ 1 ↔ _
    rw [R.divAssign_eq_div]
  | [(v0, c0), (v1, c1)] =>
    dsimp only
    obtain ⟨hlt, -⟩ := wf2 hwf
    rw [find_div2 v0 v1 c0 c1 known (Nat.ne_of_lt hlt), R.divAssign_eq_div]
    split
    · rename_i h; simp [h]
    · rename_i h
      rw [tailK_idl_invalid_iff]
      show (R.divAssign known c0).den ≠ 1 ↔ _
      rw [R.divAssign_eq_div]
      simp [h]
  | _ :: _ :: _ :: _ => exact Iff.rfl

/-! ### expression queries, integer instance -/

theorem idl_valid (k : R) : idlOps.valid k = true ↔ k.den = 1 := by
  show (k.den == 1) = true ↔ _
  simp
theorem idl_scale (x : Int) (c : R) : idlOps.scale x c = x * c.num := rfl
theorem idl_addK (x : Int) (k : R) : idlOps.addK x k = x + k.num := rfl
theorem idl_zero : idlOps.zero = 0 := rfl
theorem idl_neg (x : Int) : idlOps.neg x = -x := rfl

theorem boundsLin_idl_sound (t : Dl Int) (l : Lin) (hl : l.WF) (lo hi : Int)
    (hb : boundsLin idlOps t l = some (lo, hi)) (σ : Nat → Int) (h0 : σ 0 = 0)
    (hσ : ∀ v ∈ (0 :: l.vars.map (·.1)), ∀ u ∈ (0 :: l.vars.map (·.1)), σ u - σ v ≤ Dl.d idlOps t v u) :
    (lo : Rat) ≤ Lin.eval l (fun v => (σ v : Rat)) ∧ Lin.eval l (fun v => (σ v : Rat)) ≤ (hi : Rat) := by
  obtain ⟨vars, known⟩ := l
  unfold boundsLin at hb
  match vars with
  | [] =>
    dsimp only at hb
    have hk : R.FinWF known := ((Lin.wf_iff _).1 hl).2.2
    split at hb
    · rename_i hv
      rw [idl_valid] at hv
      simp only [idl_addK, idl_zero, Option.some.injEq, Prod.mk.injEq] at hb
      obtain ⟨rfl, rfl⟩ := hb
      simp [Lin.eval, toRat_of_den_one hk hv]
    · exact absurd hb (by simp)
  | [(x, c)] =>
    dsimp only at hb
    obtain ⟨hc, hk⟩ := wf1 hl
    have h1 : σ x - σ 0 ≤ Dl.d idlOps t 0 x := hσ 0 (by simp) x (by simp)
    have h2 : σ 0 - σ x ≤ Dl.d idlOps t x 0 := hσ x (by simp) 0 (by simp)
    rw [h0] at h1 h2
    split at hb
    · exact absurd hb (by simp)
    · rename_i hv
      simp only [Bool.not_eq_true', Bool.and_eq_false_iff, not_or, Bool.not_eq_false, idl_valid] at hv
      obtain ⟨hcd, hkd⟩ := hv
      have ev : Lin.eval ⟨[(x, c)], known⟩ (fun v => (σ v : Rat)) = ((c.num * σ x + known.num : Int) : Rat) := by
        simp [Lin.eval, toRat_of_den_one hc hcd, toRat_of_den_one hk hkd]
      rw [ev]
      split at hb
      · rename_i hp
        have hp' : 0 < c.num := by simpa [R.isPositive] using hp
        simp only [idl_addK, idl_scale, lb, ub, idl_neg, Option.some.injEq, Prod.mk.injEq] at hb
        obtain ⟨rfl, rfl⟩ := hb
        constructor <;> (apply Int.cast_le.2; nlinarith)
      · rename_i hp
        have hp' : c.num ≤ 0 := by simpa [R.isPositive] using hp
        simp only [idl_addK, idl_scale, lb, ub, idl_neg, Option.some.injEq, Prod.mk.injEq] at hb
        obtain ⟨rfl, rfl⟩ := hb
        constructor <;> (apply Int.cast_le.2; nlinarith)
  | [(v0, c), (v1, c1)] =>
    dsimp only at hb
    obtain ⟨hlt, hc, hc1, hk⟩ := wf2 hl
    rw [find_div2 v0 v1 c c1 known (Nat.ne_of_lt hlt)] at hb
    have h1 : σ v0 - σ v1 ≤ Dl.d idlOps t v1 v0 := hσ v1 (by simp) v0 (by simp)
    have h2 : σ v1 - σ v0 ≤ Dl.d idlOps t v0 v1 := hσ v0 (by simp) v1 (by simp)
    split at hb
    · exact absurd hb (by simp)
    · rename_i hv
      simp only [Bool.or_eq_true, not_or, Bool.not_eq_true', Bool.and_eq_false_iff, Bool.not_eq_false, idl_valid] at hv
      obtain ⟨hne, hcd, hkd⟩ := hv
      obtain ⟨hcn, hc10⟩ := ne_negOne hc hc1 hne
      have ev : Lin.eval ⟨[(v0, c), (v1, c1)], known⟩ (fun v => (σ v : Rat)) =
          ((c.num * (σ v0 - σ v1) + known.num : Int) : Rat) := by
        simp only [Lin.eval, List.map, List.sum_cons, List.sum_nil, hc10, toRat_of_den_one hc hcd, toRat_of_den_one hk hkd]
        push_cast
        ring
      rw [ev]
      split at hb
      · rename_i hp
        have hp' : 0 < c.num := by simpa [R.isPositive] using hp
        simp only [idl_addK, idl_scale, distance, idl_neg, Option.some.injEq, Prod.mk.injEq] at hb
        obtain ⟨rfl, rfl⟩ := hb
        constructor <;> (apply Int.cast_le.2; nlinarith)
      · rename_i hp
        have hp' : c.num ≤ 0 := by simpa [R.isPositive] using hp
        simp only [idl_addK, idl_scale, distance, idl_neg, Option.some.injEq, Prod.mk.injEq] at hb
        obtain ⟨rfl, rfl⟩ := hb
        constructor <;> (apply Int.cast_le.2; nlinarith)
  | _ :: _ :: _ :: _ => exact absurd hb (by simp)

theorem divAssign_negOne (c : Int) (hc : c ≠ 0) : R.divAssign (R.ofInt (-c)) (R.ofInt c) = R.neg R.one := by
  have h1 := R.finWF_ofInt (-c)
  have h2 := R.finWF_ofInt c
  have hn : (R.ofInt c).num ≠ 0 := hc
  apply R.FinWF.ext (R.finWF_divAssign h1 h2 hn) (R.finWF_neg (R.finWF_ofInt 1))
  rw [R.toRat_divAssign h1 h2 hn, R.toRat_ofInt, R.toRat_ofInt]
  have h1 : (R.neg R.one).toRat = -1 := by decide
  have hc' : (c : Rat) ≠ 0 := by exact_mod_cast hc
  show _ = (R.neg R.one).toRat
  rw [h1]; push_cast; field_simp

theorem boundsLin_idl_image (t : Dl Int) (x : Nat) (c k : Int) (hc : c ≠ 0) :
    boundsLin idlOps t ⟨[(x, R.ofInt c)], R.ofInt k⟩ =
      some (if c > 0 then (c * Dl.lb idlOps t x + k, c * Dl.ub idlOps t x + k) else (c * Dl.ub idlOps t x + k, c * Dl.lb idlOps t x + k)) ∧
    (∀ y, x < y → boundsLin idlOps t ⟨[(x, R.ofInt c), (y, R.ofInt (-c))], R.ofInt k⟩ =
      some (if c > 0 then (c * (Dl.distance idlOps t y x).1 + k, c * (Dl.distance idlOps t y x).2 + k)
            else (c * (Dl.distance idlOps t y x).2 + k, c * (Dl.distance idlOps t y x).1 + k))) := by
  have hv : ∀ i : Int, idlOps.valid (R.ofInt i) = true := fun i => rfl
  have hp : (R.ofInt c).isPositive = decide (c > 0) := rfl
  constructor
  · unfold boundsLin
    dsimp only
    simp only [hv, hp, idl_scale, idl_addK, Bool.and_self, Bool.not_true, Bool.false_eq_true, if_false, decide_eq_true_eq]
    by_cases h : c > 0 <;> simp [h, R.ofInt, Int.mul_comm]
  · intro y hxy
    unfold boundsLin
    dsimp only
    rw [find_div2 x y _ _ _ (Nat.ne_of_lt hxy), divAssign_negOne c hc]
    have hne : R.ne (R.neg R.one) (R.neg R.one) = false := by decide
    simp only [hne, hv, hp, idl_scale, idl_addK, Bool.and_self, Bool.not_true, Bool.or_self, Bool.false_eq_true, if_false, decide_eq_true_eq]
    by_cases h : c > 0 <;> simp [h, R.ofInt, Int.mul_comm]

end DlRel
end Oratio
