import OratioModel.Arith.Rational
import OratioModel.Arith.InfRational
import OratioModel.Arith.Lin
import OratioModel.Driver.Proto
import OratioModel.Driver.Arith
import OratioModel.Sat.Basic
import OratioModel.Sat.Enc
import OratioModel.Driver.Enc
