/-
The five reified constructors of `sat_core`, written once over an abstract set of primitives
(`value`, `new_var`, `new_clause`, cache lookup / insertion), so that the same text serves the
root-level model `Enc` and the full solver-state model `Sat` (whose `new_clause` also
maintains watches, trail and propagation queue).  Instantiated at `Enc.prim` they are the
functions of OratioModel/Sat/Enc.lean (theorem `Cons_enc_*` in the proofs).
-/
import OratioModel.Sat.Enc

namespace Oratio

structure Prim (σ : Type) where
  value : σ → Lit → Option Bool
  newVar : σ → Nat × σ
  newClause : σ → List Lit → Bool × σ
  lookup : σ → Key → Option Lit
  remember : σ → Key → Lit → σ

def Enc.prim : Prim Enc := ⟨Enc.value, Enc.newVar, Enc.newClause, Enc.lookup, Enc.remember⟩

namespace Cons
variable {σ : Type} (P : Prim σ)

def newClauses (s : σ) : List (List Lit) → Bool × σ
  | [] => (true, s)
  | c :: cs => match P.newClause s c with
    | (false, s') => (false, s')
    | (true, s') => newClauses s' cs

def newEq (s : σ) (left right : Lit) : Lit × σ :=
  match P.value s left, P.value s right with
  | some true, some true => (Lit.trueLit, s)
  | some true, some false => (Lit.falseLit, s)
  | some true, none => (right, s)
  | some false, some true => (Lit.falseLit, s)
  | some false, some false => (Lit.trueLit, s)
  | some false, none => (right.neg, s)
  | none, some true => (left, s)
  | none, some false => (left.neg, s)
  | none, none =>
    let k := if left.idx < right.idx then Key.eq left right else Key.eq right left
    match P.lookup s k with
    | some l => (l, s)
    | none =>
      let (v, s1) := P.newVar s
      let ctr : Lit := ⟨v, true⟩
      match newClauses P s1 [[ctr.neg, left.neg, right], [ctr.neg, left, right.neg], [ctr, left.neg, right.neg], [ctr, left, right]] with
      | (false, s2) => (Lit.falseLit, s2)
      | (true, s2) => (ctr, P.remember s2 k ctr)

def scanJunct (s : σ) (absorbing : Bool) : List Lit → Option Lit → List Lit → Option (List Lit)
  | [], _, acc => some acc.reverse
  | l :: rest, p, acc =>
    if P.value s l = some absorbing || p.map Lit.neg = some l then none
    else if P.value s l ≠ some (!absorbing) && p ≠ some l then scanJunct s absorbing rest (some l) (l :: acc)
    else scanJunct s absorbing rest p acc

def newConj (s : σ) (ls : List Lit) : Lit × σ :=
  match scanJunct P s false (Enc.sortByVar ls) none [] with
  | none => (Lit.falseLit, s)
  | some [] => (Lit.trueLit, s)
  | some [l] => (l, s)
  | some ls =>
    match P.lookup s (.conj ls) with
    | some l => (l, s)
    | none =>
      let (v, s1) := P.newVar s
      let ctr : Lit := ⟨v, true⟩
      match newClauses P s1 (ls.map (fun l => [ctr.neg, l]) ++ [ctr :: ls.map Lit.neg]) with
      | (false, s2) => (Lit.falseLit, s2)
      | (true, s2) => (ctr, P.remember s2 (.conj ls) ctr)

def newDisj (s : σ) (ls : List Lit) : Lit × σ :=
  match scanJunct P s true (Enc.sortByVar ls) none [] with
  | none => (Lit.trueLit, s)
  | some [] => (Lit.falseLit, s)
  | some [l] => (l, s)
  | some ls =>
    match P.lookup s (.disj ls) with
    | some l => (l, s)
    | none =>
      let (v, s1) := P.newVar s
      let ctr : Lit := ⟨v, true⟩
      match newClauses P s1 (ls.map (fun l => [l.neg, ctr]) ++ [ctr.neg :: ls]) with
      | (false, s2) => (Lit.falseLit, s2)
      | (true, s2) => (ctr, P.remember s2 (.disj ls) ctr)

def scanAfterTrue (s : σ) : List Lit → Option Lit → List Lit → Enc.CardScan
  | [], _, acc => .oneTrue acc.reverse
  | l :: rest, p, acc =>
    if P.value s l = some true || p.map Lit.neg = some l then .twoTrue
    else if P.value s l ≠ some false && p ≠ some l then scanAfterTrue s rest (some l) (l :: acc)
    else scanAfterTrue s rest p acc

def scanCard (s : σ) : List Lit → Option Lit → List Lit → Enc.CardScan
  | [], _, acc => .open acc.reverse
  | l :: rest, p, acc =>
    if P.value s l = some true then scanAfterTrue P s rest p acc
    else if P.value s l ≠ some false && p ≠ some l then scanCard s rest (some l) (l :: acc)
    else scanCard s rest p acc

def newVars (s : σ) : Nat → List Lit × σ
  | 0 => ([], s)
  | n + 1 => let (v, s1) := P.newVar s; let (vs, s2) := newVars s1 n; (⟨v, true⟩ :: vs, s2)

def amoCore (fuel : Nat) (s : σ) (ls : List Lit) : Lit × σ :=
  if ls.length ≤ 1 then (Lit.trueLit, s)
  else match P.lookup s (.amo ls) with
    | some l => (l, s)
    | none =>
      if ls.length < 4 then
        let (v, s1) := P.newVar s
        let ctr : Lit := ⟨v, true⟩
        match newClauses P s1 ((Enc.pairs ls).map (fun p => [p.1.neg, p.2.neg, ctr.neg])) with
        | (false, s2) => (Lit.falseLit, s2)
        | (true, s2) => (ctr, P.remember s2 (.amo ls) ctr)
      else match fuel with
        | 0 => (Lit.falseLit, s)
        | fuel + 1 =>
          let ps := Enc.ceilSqrt ls.length
          let qs := Enc.ceilDiv ls.length ps
          let (u, s1) := newVars P s ps
          let (w, s2) := newVars P s1 qs
          let (cu, s3) := amoCore fuel s2 u
          let (cw, s4) := amoCore fuel s3 w
          let (ctr, s5) := newConj P s4 [cu, cw]
          let cls := (List.range ps).flatMap (fun i => (List.range qs).flatMap (fun j =>
            match ls[i * qs + j]? with
            | some lk => [[lk.neg, u.getD i Lit.falseLit, ctr.neg], [lk.neg, w.getD j Lit.falseLit, ctr.neg]]
            | none => []))
          match newClauses P s5 cls with
          | (false, s6) => (Lit.falseLit, s6)
          | (true, s6) => (ctr, P.remember s6 (.amo ls) ctr)

def newAtMostOne (s : σ) (ls : List Lit) : Lit × σ :=
  match scanCard P s (Enc.sortDedup ls) none [] with
  | .twoTrue => (Lit.falseLit, s)
  | .oneTrue others => newConj P s (others.map Lit.neg)
  | .open ls => amoCore P ls.length s ls

def newExctOne (s : σ) (ls : List Lit) : Lit × σ :=
  match scanCard P s (Enc.sortDedup ls) none [] with
  | .twoTrue => (Lit.falseLit, s)
  | .oneTrue others => newConj P s (others.map Lit.neg)
  | .open [] => (Lit.falseLit, s)
  | .open ls =>
    if ls.length = 1 ∧ (ls.headD Lit.falseLit).sign then (ls.headD Lit.falseLit, s)
    else match P.lookup s (.exo ls) with
      | some l => (l, s)
      | none =>
        let (amo, s1) := amoCore P ls.length s ls
        let (v, s2) := P.newVar s1
        let ctr : Lit := ⟨v, true⟩
        match newClauses P s2 [[ctr.neg, amo], ls ++ [ctr.neg]] with
        | (false, s3) => (Lit.falseLit, s3)
        | (true, s3) => (ctr, P.remember s3 (.exo ls) ctr)

end Cons
end Oratio
