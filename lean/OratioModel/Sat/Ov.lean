/-
Model of `smt::ov_theory` (/repo/smt/ov/ov_theory.cpp): object variables whose domain is a
set of values, each value guarded by a propositional literal of the underlying `sat_core`
(modelled by `Enc`).  Values (`var_value*`) are identified by natural numbers.

The C++ keeps each domain in an `unordered_map<var_value*, lit>`; its iteration order only
affects the order in which clauses are posted, never which clauses or variables are created,
so the model keeps domains as association lists in insertion order.
-/
import OratioModel.Sat.Enc

namespace Oratio

structure Ov where
  enc : Enc
  /-- `assigns`: for each object variable its (value, literal) pairs, distinct values -/
  doms : List (List (Nat × Lit))
  /-- `exprs`: cache of equality literals, keyed by the ordered pair of variables -/
  eqs : List ((Nat × Nat) × Lit)
deriving Repr

namespace Ov

def init : Ov := ⟨Enc.init, [], []⟩

def dom (s : Ov) (v : Nat) : List (Nat × Lit) := s.doms.getD v []

/-- `unordered_map::emplace`: keeps the first entry of a value -/
def emplace (d : List (Nat × Lit)) (val : Nat) (l : Lit) : List (Nat × Lit) :=
  if d.any (fun e => e.1 == val) then d else d ++ [(val, l)]

def lookupVal (d : List (Nat × Lit)) (val : Nat) : Option Lit := (d.find? (fun e => e.1 == val)).map (·.2)

/-- creation of one guard variable per item (the `for` loop of `new_var(items, …)`) -/
def mkGuards (e : Enc) : List Nat → List (Nat × Lit) → Enc × List (Nat × Lit)
  | [], d => (e, d)
  | i :: rest, d =>
    let (bv, e1) := e.newVar
    mkGuards e1 rest (emplace d i ⟨bv, true⟩)

/-- `new_var(items, enforce_exct_one)` (items non-empty) -/
def newVar (s : Ov) (items : List Nat) (enforce : Bool) : Nat × Ov :=
  let id := s.doms.length
  match items with
  | [i] => (id, { s with doms := s.doms ++ [[(i, Lit.trueLit)]] })
  | _ =>
    let (e1, d) := mkGuards s.enc items []
    let e2 :=
      if enforce then
        let lits := items.filterMap (lookupVal d)
        let (x, e') := e1.newExctOne lits
        (e'.newClause [x]).2
      else e1
    (id, { s with enc := e2, doms := s.doms ++ [d] })

/-- `new_var(lits, vals)` -/
def newVarLits (s : Ov) (lits : List Lit) (vals : List Nat) : Nat × Ov :=
  let d := (vals.zip lits).foldl (fun d p => emplace d p.1 p.2) []
  (s.doms.length, { s with doms := s.doms ++ [d] })

/-- `allows(v, val)` -/
def allows (s : Ov) (v val : Nat) : Lit := (lookupVal (s.dom v) val).getD Lit.falseLit

/-- `value(v)`: the values whose literal is not false -/
def value (s : Ov) (v : Nat) : List Nat :=
  ((s.dom v).filter (fun e => s.enc.value e.2 ≠ some false)).map (·.1)

/-- `new_eq(left, right)` -/
def newEq (s : Ov) (left right : Nat) : Lit × Ov :=
  if left = right then (Lit.trueLit, s)
  else
    let (l, r) := if left > right then (right, left) else (left, right)
    match (s.eqs.find? (fun e => e.1 = (l, r))).map (·.2) with
    | some x => (x, s)
    | none =>
      let dl := s.dom l
      let dr := s.dom r
      let inter := dl.filter (fun e => dr.any (fun f => f.1 == e.1))
      if inter.isEmpty then (Lit.falseLit, s)
      else
        let (v, e1) := s.enc.newVar
        let eq : Lit := ⟨v, true⟩
        let outL := (dl.filter (fun e => !dr.any (fun f => f.1 == e.1))).map (fun e => [eq.neg, e.2.neg])
        let outR := (dr.filter (fun e => !dl.any (fun f => f.1 == e.1))).map (fun e => [eq.neg, e.2.neg])
        let ins := inter.flatMap (fun e =>
          let lv := e.2
          let rv := (lookupVal dr e.1).getD Lit.falseLit
          [[eq.neg, lv.neg, rv], [eq.neg, lv, rv.neg], [eq, lv.neg, rv.neg]])
        let e2 := (outL ++ outR ++ ins).foldl (fun e c => (e.newClause c).2) e1
        (eq, { s with enc := e2, eqs := s.eqs ++ [((l, r), eq)] })

end Ov
end Oratio
