/-
Concrete model of `smt::sat_core` + `smt::clause` (/repo/smt/sat_core.cpp, clause.cpp) without
theories: two watched literals, FIFO propagation queue, trail with decision levels and reasons,
first-UIP conflict analysis, no-good recording, backjumping, `assume / pop / next / check /
simplify_db`.  Clauses are identified by the order of creation (`id`), the analogue of the
C++ object identity.

Fidelity notes: watch lists and the queue are vectors / a FIFO in the C++, so behaviour is a
function of the call history and the model reproduces it step by step (the only
library-defined order is `std::sort` in `record`, a stable insertion sort below 17 elements).
Loops that the C++ writes with `goto`/`while` take a fuel argument; `none` means the fuel ran
out (the driver reports it; it never happens in the correspondence runs).
-/
import OratioModel.Sat.Cons

namespace Oratio

structure Sat where
  vals : List (Option Bool)          -- `assigns`
  level : List Nat                   -- `level`
  reason : List (Option Nat)         -- `reason` (clause id)
  cls : List (Nat × Clause)          -- `constrs`, in order; each with its id
  nextId : Nat
  watches : List (List Nat)          -- `watches`, indexed by `index(lit)`
  queue : List Lit                   -- `prop_q`, front first
  trail : List Lit                   -- `trail`, most recent FIRST
  trailLim : List Nat                -- `trail_lim`, most recent first
  decisions : List Lit               -- `decisions`, most recent first
  exprs : List (Key × Lit)           -- `exprs`
  log : List Clause                  -- ghost: every clause given to `record`, in order (the observer hook)
  dead : Bool                        -- ghost: an inconsistency was found at root level (`false` was returned for good)
deriving Repr

namespace Sat

/-- `sat_core()` -/
def init : Sat :=
  { vals := [some false], level := [0], reason := [none], cls := [], nextId := 0, watches := [[], []],
    queue := [], trail := [], trailLim := [], decisions := [], exprs := [], log := [], dead := false }

def nvars (s : Sat) : Nat := s.vals.length
def value (s : Sat) (l : Lit) : Option Bool := litValue s.vals l
def decisionLevel (s : Sat) : Nat := s.trailLim.length
def rootLevel (s : Sat) : Bool := s.trailLim.isEmpty
def clauseOf (s : Sat) (id : Nat) : Clause := ((s.cls.find? (fun c => c.1 == id)).map (·.2)).getD []
def setClause (s : Sat) (id : Nat) (c : Clause) : Sat :=
  { s with cls := s.cls.map (fun e => if e.1 == id then (id, c) else e) }
def watch (s : Sat) (l : Lit) (id : Nat) : Sat :=
  { s with watches := s.watches.set l.idx (s.watches.getD l.idx [] ++ [id]) }

/-- the root-level view used by property C13 -/
def toEnc (s : Sat) : Enc := ⟨s.vals, s.cls.map (·.2), s.exprs⟩

/-- `new_var()` -/
def newVar (s : Sat) : Nat × Sat :=
  (s.vals.length, { s with vals := s.vals ++ [none], level := s.level ++ [0], reason := s.reason ++ [none],
                            watches := s.watches ++ [[], []] })

/-- `enqueue(p, c)` -/
def enqueue (s : Sat) (p : Lit) (c : Option Nat) : Bool × Sat :=
  match s.value p with
  | some b => (b, s)
  | none =>
    (true, { s with vals := s.vals.set p.var (some p.sign), level := s.level.set p.var s.decisionLevel,
                    reason := s.reason.set p.var c, trail := p :: s.trail, queue := s.queue ++ [p] })

/-- `clause::new_clause`: allocate, watch the negations of the first two literals -/
def addClause (s : Sat) (lits : Clause) : Nat × Sat :=
  let id := s.nextId
  let s1 := { s with cls := s.cls ++ [(id, lits)], nextId := id + 1 }
  match lits with
  | l0 :: l1 :: _ => (id, (s1.watch l0.neg id).watch l1.neg id)
  | _ => (id, s1)

/-- `new_clause(lits)` (root level) -/
def newClause (s : Sat) (lits : List Lit) : Bool × Sat :=
  match Enc.scanClause s.toEnc (Enc.sortByVar lits) none [] with
  | none => (true, s)
  | some [] => (false, { s with dead := true })
  | some [l] => s.enqueue l none
  | some ls => (true, (s.addClause ls).2)

def lookup (s : Sat) (k : Key) : Option Lit := (s.exprs.find? (fun e => e.1 = k)).map (·.2)
def remember (s : Sat) (k : Key) (l : Lit) : Sat := { s with exprs := s.exprs ++ [(k, l)] }

def prim : Prim Sat := ⟨Sat.value, Sat.newVar, Sat.newClause, Sat.lookup, Sat.remember⟩

def newEq (s : Sat) (a b : Lit) : Lit × Sat := Cons.newEq prim s a b
def newConj (s : Sat) (ls : List Lit) : Lit × Sat := Cons.newConj prim s ls
def newDisj (s : Sat) (ls : List Lit) : Lit × Sat := Cons.newDisj prim s ls
def newAtMostOne (s : Sat) (ls : List Lit) : Lit × Sat := Cons.newAtMostOne prim s ls
def newExctOne (s : Sat) (ls : List Lit) : Lit × Sat := Cons.newExctOne prim s ls

/-- `swap(lits[1], lits[k])` -/
def swap1 (c : Clause) (k : Nat) : Clause :=
  match c[1]?, c[k]? with
  | some a, some b => (c.set 1 b).set k a
  | _, _ => c

/-- index of the first literal at position ≥ 1 (scanning from `k`) that is not false -/
def findNonFalse (s : Sat) (c : Clause) (k : Nat) : Option Nat :=
  ((List.range c.length).drop k).find? (fun i => s.value (c.getD i Lit.falseLit) ≠ some false)

/-- `clause::propagate(p)` for clause `id` -/
def clausePropagate (s : Sat) (id : Nat) (p : Lit) : Bool × Sat :=
  let c := s.clauseOf id
  let c := match c with
    | l0 :: l1 :: rest => if l0.var == p.var then l1 :: l0 :: rest else c
    | _ => c
  let s := s.setClause id c
  if s.value (c.headD Lit.falseLit) = some true then (true, s.watch p id)
  else match findNonFalse s c 1 with
    | some k =>
      let c' := swap1 c k
      (true, (s.setClause id c').watch (c'.getD 1 Lit.falseLit).neg id)
    | none => (s.watch p id).enqueue (c.headD Lit.falseLit) (some id)

/-- `pop_one()` -/
def popOne (s : Sat) : Sat :=
  match s.trail with
  | [] => s
  | p :: rest => { s with vals := s.vals.set p.var none, level := s.level.set p.var 0,
                          reason := s.reason.set p.var none, trail := rest }

/-- `pop()` -/
def pop (s : Sat) : Sat :=
  match s.trailLim with
  | [] => s
  | lim :: lims =>
    let rec unwind (n : Nat) (s : Sat) : Sat :=
      match n with
      | 0 => s
      | n + 1 => if lim < s.trail.length then unwind n s.popOne else s
    let s := unwind s.trail.length s
    { s with trailLim := lims, decisions := s.decisions.drop 1 }

def popTo (s : Sat) (lvl : Nat) : Sat :=
  let rec go (n : Nat) (s : Sat) : Sat :=
    match n with
    | 0 => s
    | n + 1 => if s.decisionLevel > lvl then go n s.pop else s
  go s.decisionLevel s

/-- `get_reason(p, out)`: the negations of all literals (conflict, `p` undefined) or of all but the first -/
def reasonLits (c : Clause) (conflict : Bool) : List Lit :=
  (if conflict then c else c.drop 1).map Lit.neg

structure AnState where
  seen : List Nat
  counter : Int
  learnt : List Lit       -- `out_learnt[1..]`, in push order
  bt : Nat

/-- the `for (q : p_reason)` loop -/
def traceReason (s : Sat) (a : AnState) : List Lit → AnState
  | [] => a
  | q :: qs =>
    if a.seen.contains q.var then traceReason s a qs
    else
      let a := { a with seen := q.var :: a.seen }
      let lv := s.level.getD q.var 0
      if lv = s.decisionLevel then traceReason s { a with counter := a.counter + 1 } qs
      else if lv > 0 then traceReason s { a with learnt := a.learnt ++ [q.neg], bt := max a.bt lv } qs
      else traceReason s a qs

/-- the inner `do … while (!seen.count(variable(p)))` loop: returns the literal found, the
    reason to trace next, and the state with the trail popped -/
def nextSeen (s : Sat) (seen : List Nat) (pReason : List Lit) : Nat → Option (Lit × List Lit × Sat)
  | 0 => none
  | n + 1 =>
    match s.trail with
    | [] => none
    | p :: _ =>
      let pReason := match s.reason.getD p.var none with
        | some id => reasonLits (s.clauseOf id) false
        | none => pReason
      let s' := s.popOne
      if seen.contains p.var then some (p, pReason, s') else nextSeen s' seen pReason n

/-- the outer `do … while (counter > 0)` loop -/
def analyzeLoop (s : Sat) (a : AnState) (pReason : List Lit) : Nat → Option (Lit × AnState × Sat)
  | 0 => none
  | n + 1 =>
    let a := traceReason s a pReason
    match nextSeen s a.seen pReason (s.trail.length + 1) with
    | none => none
    | some (p, pReason', s') =>
      let a := { a with counter := a.counter - 1 }
      if a.counter > 0 then analyzeLoop s' a pReason' n else some (p, a, s')

/-- `analyze(cnfl, out_learnt, out_btlevel)` where `cnfl` are the literals of the conflicting clause -/
def analyze (s : Sat) (cnfl : Clause) : Option (List Lit × Nat × Sat) :=
  match analyzeLoop s ⟨[], 0, [], 0⟩ (reasonLits cnfl true) (s.trail.length + 1) with
  | none => none
  | some (p, a, s') => some (p.neg :: a.learnt, a.bt, s')

/-- stable insertion by descending level (the `std::sort` of `record`) -/
def insertByLevel (s : Sat) (x : Lit) : List Lit → List Lit
  | [] => [x]
  | y :: t => if s.level.getD x.var 0 ≥ s.level.getD y.var 0 then x :: y :: t else y :: insertByLevel s x t

/-- `record(lits)` -/
def record (s : Sat) (lits : List Lit) : Sat :=
  let s := { s with log := s.log ++ [lits] }
  match lits with
  | [] => s
  | [l] => (s.enqueue l none).2
  | l0 :: rest =>
    let sorted := rest.foldr (insertByLevel s) []
    let (id, s1) := s.addClause (l0 :: sorted)
    (s1.enqueue l0 (some id)).2

/-- the loop over the watchers `tmp` of the literal being propagated: `some (s, none)` when all
    were visited, `some (s, some id)` when clause `id` is conflicting -/
def visitWatchers (s : Sat) (p : Lit) : List Nat → Sat × Option Nat
  | [] => (s, none)
  | id :: rest =>
    match s.clausePropagate id p with
    | (true, s') => visitWatchers s' p rest
    | (false, s') =>
      -- the remaining watchers go back to the list; the queue is emptied
      ({ s' with watches := s'.watches.set p.idx (s'.watches.getD p.idx [] ++ rest), queue := [] }, some id)

/-- `propagate()` (no theories): `none` = out of fuel -/
def propagate (s : Sat) : Nat → Option (Bool × Sat)
  | 0 => none
  | fuel + 1 =>
    match s.queue with
    | [] => some (true, s)
    | p :: q =>
      let tmp := s.watches.getD p.idx []
      let s := { s with queue := q, watches := s.watches.set p.idx [] }
      match visitWatchers s p tmp with
      | (s, none) => propagate s fuel
      | (s, some id) =>
        if s.rootLevel then some (false, { s with dead := true })
        else match s.analyze (s.clauseOf id) with
          | none => none
          | some (noGood, bt, s) => propagate ((s.popTo bt).record noGood) fuel

/-- `assume(p)` -/
def assume (s : Sat) (p : Lit) (fuel : Nat) : Option (Bool × Sat) :=
  let s := { s with trailLim := s.trail.length :: s.trailLim, decisions := p :: s.decisions }
  match s.enqueue p none with
  | (false, s) => some (false, s)
  | (true, s) => s.propagate fuel

/-- `next()` -/
def next (s : Sat) (fuel : Nat) : Option (Bool × Sat) :=
  if s.rootLevel then some (false, s)
  else
    let noGood := s.decisions.map Lit.neg      -- most recent first = already reversed
    (s.pop.record noGood).propagate fuel

/-- `check(lits)` -/
def check (s : Sat) (lits : List Lit) (fuel : Nat) : Option (Bool × Sat) :=
  let rl := s.decisionLevel
  let rec go (s : Sat) : List Lit → Option (Bool × Sat)
    | [] => some (true, s.popTo rl)
    | p :: ps =>
      let dl := s.decisionLevel
      match s.assume p fuel with
      | none => none
      | some (false, s) => some (false, s.popTo rl)
      | some (true, s) =>
        match s.propagate fuel with
        | none => none
        | some (false, s) => some (false, s.popTo rl)
        | some (true, s) => if s.decisionLevel ≤ dl then some (false, s.popTo rl) else go s ps
  go s lits

/-- `clause::simplify()`: `none` = satisfied (to be removed), `some lits'` = compacted -/
def simplifyClause (s : Sat) (c : Clause) : Option Clause :=
  if c.any (fun l => s.value l = some true) then none
  else some (c.filter (fun l => s.value l = none))

/-- `clause::remove()` -/
def removeClause (s : Sat) (id : Nat) (c : Clause) : Sat :=
  let unwatch (s : Sat) (l : Lit) : Sat :=
    { s with watches := s.watches.set l.idx ((s.watches.getD l.idx []).erase id) }
  let s := match c with
    | l0 :: l1 :: _ => unwatch (unwatch s l0.neg) l1.neg
    | _ => s
  { s with reason := s.reason.map (fun r => if r = some id then none else r),
           cls := s.cls.filter (fun e => e.1 != id) }

/-- `simplify_db()` -/
def simplifyDb (s : Sat) (fuel : Nat) : Option (Bool × Sat) :=
  match s.propagate fuel with
  | none => none
  | some (false, s) => some (false, s)
  | some (true, s) =>
    some (true, s.cls.foldl (fun s e =>
      match simplifyClause s e.2 with
      | none => s.removeClause e.1 e.2
      | some c' => s.setClause e.1 c') s)

end Sat
end Oratio
