/-
Propositional basics shared by every SAT-level model: literals as in /repo/smt/lit.h,
assignments, satisfaction, entailment.
-/
namespace Oratio

/-- `smt::lit`: variable and sign (`true` = positive).  `index = 2·var + sign`. -/
structure Lit where
  var : Nat
  sign : Bool
deriving DecidableEq, Repr, Inhabited, Hashable

namespace Lit
/-- `operator!` -/
def neg (l : Lit) : Lit := ⟨l.var, !l.sign⟩
/-- `index(p)` (also the order used by `operator<`) -/
def idx (l : Lit) : Nat := 2 * l.var + (if l.sign then 1 else 0)
/-- `FALSE_lit = lit(FALSE_var)`: the positive literal of variable 0, which is assigned false -/
def falseLit : Lit := ⟨0, true⟩
/-- `TRUE_lit = !FALSE_lit` -/
def trueLit : Lit := ⟨0, false⟩
/-- `to_string(lit)` -/
def toStr (l : Lit) : String := if l.sign then s!"b{l.var}" else s!"¬b{l.var}"
end Lit

abbrev Clause := List Lit
abbrev Cnf := List Clause

/-- total assignments; variable 0 is the false constant in every assignment we consider -/
abbrev Asg := Nat → Bool

namespace Asg
def lit (α : Asg) (l : Lit) : Bool := if l.sign then α l.var else !α l.var
def clause (α : Asg) (c : Clause) : Bool := c.any α.lit
def cnf (α : Asg) (f : Cnf) : Bool := f.all α.clause
end Asg

/-- `lbool` value of a literal under a partial assignment (`none` = Undefined) -/
def litValue (vals : List (Option Bool)) (l : Lit) : Option Bool :=
  match vals.getD l.var none with
  | none => none
  | some b => some (if l.sign then b else !b)

end Oratio
