/-
Model of the root-level part of `smt::sat_core` (/repo/smt/sat_core.cpp): variables, root
values, clause creation with its simplifications, the five reified constructors
`new_eq / new_conj / new_disj / new_at_most_one / new_exct_one` with the expression cache, and
root-level unit propagation.

Abstractions (see DESIGN.md, trusted base): the cache key, a string in the C++
(`"&b1¬b2"`, …), is the structured value `Key`; `std::sort` by variable is a stable sort
(libstdc++ uses insertion sort below 17 elements; the harness keeps order-sensitive argument
lists below that size); watches are not modelled here – `propagate` is the unit-propagation
fixpoint, which does not depend on the visiting order.
-/
import OratioModel.Sat.Basic

namespace Oratio

inductive Key where
  | eq (a b : Lit)
  | conj (ls : List Lit)
  | disj (ls : List Lit)
  | amo (ls : List Lit)
  | exo (ls : List Lit)
deriving DecidableEq, Repr

structure Enc where
  /-- `assigns`, one entry per variable (`none` = Undefined); entry 0 is `some false` -/
  vals : List (Option Bool)
  /-- `constrs`: the clauses created so far (each with at least two literals) -/
  clauses : List Clause
  /-- `exprs` -/
  exprs : List (Key × Lit)
deriving Repr

namespace Enc

/-- `sat_core::sat_core()`: variable 0 is the false constant -/
def init : Enc := ⟨[some false], [], []⟩

def nvars (s : Enc) : Nat := s.vals.length
def value (s : Enc) (l : Lit) : Option Bool := litValue s.vals l

/-- `new_var()` -/
def newVar (s : Enc) : Nat × Enc := (s.vals.length, { s with vals := s.vals ++ [none] })

/-- `enqueue(p)` at root level -/
def enqueue (s : Enc) (p : Lit) : Bool × Enc :=
  match s.value p with
  | some b => (b, s)
  | none => (true, { s with vals := s.vals.set p.var (some p.sign) })

/-- insertion step of the stable sort by variable: `x` goes before the first element whose
    variable is not smaller -/
def insertByVar (x : Lit) : List Lit → List Lit
  | [] => [x]
  | y :: t => if x.var ≤ y.var then x :: y :: t else y :: insertByVar x t

/-- `std::sort(…, variable(l0) < variable(l1))`, as a stable sort -/
def sortByVar (ls : List Lit) : List Lit := ls.foldr insertByVar []

/-- insertion step of the sort by literal index (`lit::operator<`) -/
def insertByIdx (x : Lit) : List Lit → List Lit
  | [] => [x]
  | y :: t => if x.idx ≤ y.idx then x :: y :: t else y :: insertByIdx x t

/-- `std::sort(ls.begin(), ls.end())` -/
def sortByIdx (ls : List Lit) : List Lit := ls.foldr insertByIdx []

/-- `std::unique` -/
def dedupAdj : List Lit → List Lit
  | a :: b :: t => if a = b then dedupAdj (b :: t) else a :: dedupAdj (b :: t)
  | l => l

/-- the argument list of `new_at_most_one` / `new_exct_one` as a sorted set of literals -/
def sortDedup (ls : List Lit) : List Lit := dedupAdj (sortByIdx ls)

/-- the filtering loop of `new_clause`: `none` = already satisfied / tautology -/
def scanClause (s : Enc) : List Lit → Option Lit → List Lit → Option (List Lit)
  | [], _, acc => some acc.reverse
  | l :: rest, p, acc =>
    if s.value l = some true || p.map Lit.neg = some l then none
    else if s.value l ≠ some false && p ≠ some l then scanClause s rest (some l) (l :: acc)
    else scanClause s rest p acc

/-- `new_clause(lits)` -/
def newClause (s : Enc) (lits : List Lit) : Bool × Enc :=
  match scanClause s (sortByVar lits) none [] with
  | none => (true, s)
  | some [] => (false, s)
  | some [l] => s.enqueue l
  | some ls => (true, { s with clauses := s.clauses ++ [ls] })

def lookup (s : Enc) (k : Key) : Option Lit := (s.exprs.find? (fun e => e.1 = k)).map (·.2)
def remember (s : Enc) (k : Key) (l : Lit) : Enc := { s with exprs := s.exprs ++ [(k, l)] }

/-- post the clauses one after the other; stop at the first that fails (`return FALSE_lit`) -/
def newClauses (s : Enc) : List (List Lit) → Bool × Enc
  | [] => (true, s)
  | c :: cs => match s.newClause c with
    | (false, s') => (false, s')
    | (true, s') => newClauses s' cs

/-- `new_eq(left, right)` -/
def newEq (s : Enc) (left right : Lit) : Lit × Enc :=
  match s.value left, s.value right with
  | some true, some true => (Lit.trueLit, s)
  | some true, some false => (Lit.falseLit, s)
  | some true, none => (right, s)
  | some false, some true => (Lit.falseLit, s)
  | some false, some false => (Lit.trueLit, s)
  | some false, none => (right.neg, s)
  | none, some true => (left, s)
  | none, some false => (left.neg, s)
  | none, none =>
    let k := if left.idx < right.idx then Key.eq left right else Key.eq right left
    match s.lookup k with
    | some l => (l, s)
    | none =>
      let (v, s1) := s.newVar
      let ctr : Lit := ⟨v, true⟩
      match s1.newClauses [[ctr.neg, left.neg, right], [ctr.neg, left, right.neg], [ctr, left.neg, right.neg], [ctr, left, right]] with
      | (false, s2) => (Lit.falseLit, s2)
      | (true, s2) => (ctr, s2.remember k ctr)

/-- the filtering loop of `new_conj` (`absorbing = false`, skip true) and `new_disj`
    (`absorbing = true`, skip false): `none` = the absorbing constant -/
def scanJunct (s : Enc) (absorbing : Bool) : List Lit → Option Lit → List Lit → Option (List Lit)
  | [], _, acc => some acc.reverse
  | l :: rest, p, acc =>
    if s.value l = some absorbing || p.map Lit.neg = some l then none
    else if s.value l ≠ some (!absorbing) && p ≠ some l then scanJunct s absorbing rest (some l) (l :: acc)
    else scanJunct s absorbing rest p acc

/-- `new_conj(ls)` -/
def newConj (s : Enc) (ls : List Lit) : Lit × Enc :=
  match scanJunct s false (sortByVar ls) none [] with
  | none => (Lit.falseLit, s)
  | some [] => (Lit.trueLit, s)
  | some [l] => (l, s)
  | some ls =>
    match s.lookup (.conj ls) with
    | some l => (l, s)
    | none =>
      let (v, s1) := s.newVar
      let ctr : Lit := ⟨v, true⟩
      match s1.newClauses (ls.map (fun l => [ctr.neg, l]) ++ [ctr :: ls.map Lit.neg]) with
      | (false, s2) => (Lit.falseLit, s2)
      | (true, s2) => (ctr, s2.remember (.conj ls) ctr)

/-- `new_disj(ls)` -/
def newDisj (s : Enc) (ls : List Lit) : Lit × Enc :=
  match scanJunct s true (sortByVar ls) none [] with
  | none => (Lit.trueLit, s)
  | some [] => (Lit.falseLit, s)
  | some [l] => (l, s)
  | some ls =>
    match s.lookup (.disj ls) with
    | some l => (l, s)
    | none =>
      let (v, s1) := s.newVar
      let ctr : Lit := ⟨v, true⟩
      match s1.newClauses (ls.map (fun l => [l.neg, ctr]) ++ [ctr.neg :: ls]) with
      | (false, s2) => (Lit.falseLit, s2)
      | (true, s2) => (ctr, s2.remember (.disj ls) ctr)

/-- outcome of the filtering loop shared by `new_at_most_one` and `new_exct_one` -/
inductive CardScan where
  | twoTrue                       -- two arguments are already true: `FALSE_lit`
  | oneTrue (others : List Lit)   -- one argument is true: all the (undecided) others must be false
  | open (ls : List Lit)          -- no argument is true: the undecided, de-duplicated arguments
deriving Repr, DecidableEq

/-- the inner loop (after a true argument was found) -/
def scanAfterTrue (s : Enc) : List Lit → Option Lit → List Lit → CardScan
  | [], _, acc => .oneTrue acc.reverse
  | l :: rest, p, acc =>
    if s.value l = some true || p.map Lit.neg = some l then .twoTrue
    else if s.value l ≠ some false && p ≠ some l then scanAfterTrue s rest (some l) (l :: acc)
    else scanAfterTrue s rest p acc

/-- the outer loop -/
def scanCard (s : Enc) : List Lit → Option Lit → List Lit → CardScan
  | [], _, acc => .open acc.reverse
  | l :: rest, p, acc =>
    if s.value l = some true then scanAfterTrue s rest p acc
    else if s.value l ≠ some false && p ≠ some l then scanCard s rest (some l) (l :: acc)
    else scanCard s rest p acc

/-- all pairs `i < j` of a list, in the order of the two nested loops -/
def pairs : List Lit → List (Lit × Lit)
  | [] => []
  | a :: t => t.map (fun b => (a, b)) ++ pairs t

/-- `ceil(sqrt(n))` -/
def ceilSqrt (n : Nat) : Nat := let r := n.sqrt; if r * r = n then r else r + 1
/-- `ceil(n / ps)` -/
def ceilDiv (n ps : Nat) : Nat := (n + ps - 1) / ps

/-- `count` fresh variables -/
def newVars (s : Enc) : Nat → List Lit × Enc
  | 0 => ([], s)
  | n + 1 => let (v, s1) := s.newVar; let (vs, s2) := newVars s1 n; (⟨v, true⟩ :: vs, s2)

/-- `new_at_most_one`, after sorting and filtering; `fuel` bounds the recursion depth of the
    product encoding (the recursive calls are on strictly shorter lists of fresh variables;
    `newAtMostOne` passes the list length, which is enough – theorem `C13_amo_fuel_enough`) -/
def amoCore (fuel : Nat) (s : Enc) (ls : List Lit) : Lit × Enc :=
  if ls.length ≤ 1 then (Lit.trueLit, s)
  else match s.lookup (.amo ls) with
    | some l => (l, s)
    | none =>
      if ls.length < 4 then
        let (v, s1) := s.newVar
        let ctr : Lit := ⟨v, true⟩
        match s1.newClauses ((pairs ls).map (fun p => [p.1.neg, p.2.neg, ctr.neg])) with
        | (false, s2) => (Lit.falseLit, s2)
        | (true, s2) => (ctr, s2.remember (.amo ls) ctr)
      else match fuel with
        | 0 => (Lit.falseLit, s)    -- unreachable with enough fuel
        | fuel + 1 =>
          let ps := ceilSqrt ls.length
          let qs := ceilDiv ls.length ps
          let (u, s1) := s.newVars ps
          let (w, s2) := s1.newVars qs
          -- fresh variables are undecided and distinct: the recursive calls see them unchanged
          let (cu, s3) := amoCore fuel s2 u
          let (cw, s4) := amoCore fuel s3 w
          let (ctr, s5) := s4.newConj [cu, cw]
          let cls := (List.range ps).flatMap (fun i => (List.range qs).flatMap (fun j =>
            match ls[i * qs + j]? with
            | some lk => [[lk.neg, u.getD i Lit.falseLit, ctr.neg], [lk.neg, w.getD j Lit.falseLit, ctr.neg]]
            | none => []))
          match s5.newClauses cls with
          | (false, s6) => (Lit.falseLit, s6)
          | (true, s6) => (ctr, s6.remember (.amo ls) ctr)

/-- `new_at_most_one(ls)` -/
def newAtMostOne (s : Enc) (ls : List Lit) : Lit × Enc :=
  match scanCard s (sortDedup ls) none [] with
  | .twoTrue => (Lit.falseLit, s)
  | .oneTrue others => s.newConj (others.map Lit.neg)
  | .open ls => amoCore ls.length s ls

/-- `new_exct_one(ls)` -/
def newExctOne (s : Enc) (ls : List Lit) : Lit × Enc :=
  match scanCard s (sortDedup ls) none [] with
  | .twoTrue => (Lit.falseLit, s)
  | .oneTrue others => s.newConj (others.map Lit.neg)
  | .open [] => (Lit.falseLit, s)
  | .open ls =>
    if ls.length = 1 ∧ (ls.headD Lit.falseLit).sign then (ls.headD Lit.falseLit, s)
    else match s.lookup (.exo ls) with
      | some l => (l, s)
      | none =>
        let (amo, s1) := amoCore ls.length s ls
        let (v, s2) := s1.newVar
        let ctr : Lit := ⟨v, true⟩
        match s2.newClauses [[ctr.neg, amo], ls ++ [ctr.neg]] with
        | (false, s3) => (Lit.falseLit, s3)
        | (true, s3) => (ctr, s3.remember (.exo ls) ctr)

/-! ### root-level unit propagation (`propagate()` with an empty trail of decisions) -/

/-- state of a clause under the root values -/
inductive CState where
  | sat | conflict | unit (l : Lit) | unresolved
deriving DecidableEq, Repr

def clauseState (s : Enc) (c : Clause) : CState :=
  if c.any (fun l => s.value l = some true) then .sat
  else match c.filter (fun l => s.value l = none) with
    | [] => .conflict
    | [l] => .unit l
    | l :: rest => if rest.all (· = l) then .unit l else .unresolved

/-- one sweep over the clause list: assign every unit literal found; `none` on conflict -/
def sweep (s : Enc) : List Clause → Option (Enc × Bool)
  | [] => some (s, false)
  | c :: cs =>
    match clauseState s c with
    | .conflict => none
    | .unit l => match sweep { s with vals := s.vals.set l.var (some l.sign) } cs with
      | none => none
      | some (s', _) => some (s', true)
    | _ => sweep s cs

/-- `propagate()` at root level: sweeps until nothing changes (each productive sweep assigns
    a variable, so `nvars` sweeps suffice) -/
def propagateFuel : Nat → Enc → Bool × Enc
  | 0, s => (true, s)
  | n + 1, s => match sweep s s.clauses with
    | none => (false, s)
    | some (s', changed) => if changed then propagateFuel n s' else (true, s')

def propagate (s : Enc) : Bool × Enc := propagateFuel (s.nvars + 1) s

/-! ### specification side -/

/-- the formula a state stands for: its clauses and a unit for every root value -/
def units (s : Enc) : Cnf :=
  (List.range s.vals.length).filterMap (fun v => match s.vals.getD v none with
    | some b => some [(⟨v, b⟩ : Lit)]
    | none => none)

def cnf (s : Enc) : Cnf := s.clauses ++ s.units

/-- `α` is a model of the state -/
def Models (α : Asg) (s : Enc) : Prop := α.cnf s.cnf = true

end Enc
end Oratio
