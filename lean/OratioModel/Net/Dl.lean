/-
Model of the difference-logic theories `smt::idl_theory` and `smt::rdl_theory`
(/repo/smt/arith/dl/{idl,rdl}_theory.cpp).  The two C++ files are the same text up to the
number type, so the model is written once over a record of operations `DOps` and instantiated
with `Int` (sentinel infinity `LONG_MAX/2 - 1`, strict negation `-d - 1`) and with the model
`IR` of `inf_rational` (infinity `+inf`, strict negation `-d - ε`), using exactly the
operators the C++ uses.

A constraint `to - from ≤ dist` controlled by the positive literal of SAT variable `b` is
identified by `b` (the analogue of the `idl_distance*`).  Theory functions read and extend the
SAT state (`sat->value`, `sat->new_var`, `record`), so they take and return it.
-/
import OratioModel.Sat.Core
import OratioModel.Arith.InfRational
import OratioModel.Arith.Lin

namespace Oratio

structure DOps (α : Type) where
  zero : α
  inf : α
  add : α → α → α
  sub : α → α → α
  neg : α → α
  lt : α → α → Bool
  le : α → α → Bool
  /-- `x != inf()` where IDL guards the first loop; constantly true for RDL -/
  finiteGuard : α → Bool
  /-- weight of the reversed edge when a constraint is negated -/
  negStrict : α → α
  /-- the bound `k + e·unit` (`unit` = 1 for integers, ε for reals); `none` when `k` is not
      representable (a non-integer constant in IDL: the C++ throws) -/
  mkB : R → Int → Option α
  /-- is this rational usable as a coefficient / constant of an expression query -/
  valid : R → Bool
  /-- `x * c` and `x + k` for an expression query -/
  scale : α → R → α
  addK : α → R → α
  /-- comparison with the integer 0 (`lb <= 0`, `ub >= 0`) -/
  leZero : α → Bool
  geZero : α → Bool
  /-- comparison with a rational constant (`lb <= k`, `ub >= k`) -/
  leK : α → R → Bool
  geK : α → R → Bool

def idlInf : Int := 4611686018427387902

def idlOps : DOps Int :=
  { zero := 0, inf := idlInf, add := (· + ·), sub := (· - ·), neg := (- ·), lt := fun a b => decide (a < b), le := fun a b => decide (a ≤ b),
    finiteGuard := fun x => x != idlInf, negStrict := fun d => -d - 1,
    mkB := fun k e => if k.den == 1 then some (k.num + e) else none,
    valid := fun k => k.den == 1, scale := fun x c => x * c.num, addK := fun x k => x + k.num,
    leZero := fun x => decide (x ≤ 0), geZero := fun x => decide (x ≥ 0),
    leK := fun x k => R.le (R.ofInt x) k, geK := fun x k => R.ge (R.ofInt x) k }

def rdlOps : DOps IR :=
  { zero := IR.ofR R.zero, inf := IR.ofR R.pinf, add := IR.add, sub := IR.sub, neg := IR.neg, lt := IR.lt, le := IR.le,
    finiteGuard := fun _ => true, negStrict := fun d => IR.sub (IR.neg d) ⟨R.zero, R.one⟩,
    mkB := fun k e => some ⟨k, R.ofInt e⟩,
    valid := fun _ => true, scale := IR.mulR, addK := IR.addR,
    leZero := fun x => IR.leI x 0, geZero := fun x => IR.geI x 0,
    leK := IR.leR, geK := IR.geR }

structure DConstr (α : Type) where
  b : Nat          -- SAT variable of the controlling literal (always the positive literal)
  src : Nat        -- `from`
  dst : Nat        -- `to`
  dist : α
deriving Repr

structure DLayer (α : Type) where
  oldDists : List ((Nat × Nat) × α)
  oldPreds : List ((Nat × Nat) × Nat)
  oldConstrs : List ((Nat × Nat) × Option Nat)
deriving Repr

def noPred : Nat := 18446744073709551615

structure Dl (α : Type) where
  nVars : Nat                                   -- `n_vars`
  dists : List (List α)                         -- `_dists`
  preds : List (List Nat)                       -- `_preds`
  distConstr : List ((Nat × Nat) × Nat)         -- `dist_constr`: pair ↦ responsible constraint
  varDists : List (DConstr α)                   -- `var_dists`
  distConstrs : List ((Nat × Nat) × List Nat)   -- `dist_constrs`: pair ↦ constraints on it, creation order
  layers : List (DLayer α)                      -- newest first
deriving Repr

namespace Dl
variable {α : Type} (O : DOps α)

/-- a square matrix of the initial form -/
def initDists (n : Nat) : List (List α) :=
  (List.range n).map (fun i => (List.range n).map (fun j => if i = j then O.zero else O.inf))
def initPreds (n : Nat) : List (List Nat) :=
  (List.range n).map (fun i => (List.range n).map (fun j => if i = j then noPred else i))

/-- `idl_theory(sat, size = 16)` -/
def init (size : Nat := 16) : Dl α :=
  { nVars := 1, dists := initDists O size, preds := initPreds size, distConstr := [], varDists := [], distConstrs := [], layers := [] }

def size (t : Dl α) : Nat := t.dists.length
def d (t : Dl α) (i j : Nat) : α := (t.dists.getD i []).getD j O.inf
def p (t : Dl α) (i j : Nat) : Nat := (t.preds.getD i []).getD j noPred
def setD (t : Dl α) (i j : Nat) (x : α) : Dl α := { t with dists := t.dists.set i ((t.dists.getD i []).set j x) }
def setP (t : Dl α) (i j : Nat) (x : Nat) : Dl α := { t with preds := t.preds.set i ((t.preds.getD i []).set j x) }

/-- `resize(size)` -/
def resize (t : Dl α) (n : Nat) : Dl α :=
  let c := t.dists.length
  let dists := (List.range n).map (fun i => (List.range n).map (fun j =>
    if i < c ∧ j < c then d O t i j else if i = j then O.zero else O.inf))
  let preds := (List.range n).map (fun i => (List.range n).map (fun j =>
    if i < c ∧ j < c then p t i j else if i = j ∧ c ≤ i then noPred else i))
  { t with dists := dists, preds := preds }

/-- `new_var()` -/
def newVar (t : Dl α) : Nat × Dl α :=
  let tp := t.nVars
  let t := { t with nVars := tp + 1 }
  if t.dists.length = tp then (tp, resize O t ((t.dists.length * 3) / 2 + 1)) else (tp, t)

def constrOf (t : Dl α) (b : Nat) : Option (DConstr α) := t.varDists.find? (fun c => c.b == b)
def lookupPair {β : Type} (m : List ((Nat × Nat) × β)) (k : Nat × Nat) : Option β := (m.find? (fun e => e.1 == k)).map (·.2)

/-- insertion into a `std::map` keyed by pairs (lexicographic order); keeps an existing entry (`emplace`) -/
def emplacePair {β : Type} (m : List ((Nat × Nat) × β)) (k : Nat × Nat) (v : β) : List ((Nat × Nat) × β) :=
  match m with
  | [] => [(k, v)]
  | e :: rest =>
    if e.1 == k then e :: rest
    else if k.1 < e.1.1 ∨ (k.1 = e.1.1 ∧ k.2 < e.1.2) then (k, v) :: e :: rest
    else e :: emplacePair rest k v

/-- assignment `m[k] = v` (insert or overwrite) -/
def assignPair {β : Type} (m : List ((Nat × Nat) × β)) (k : Nat × Nat) (v : β) : List ((Nat × Nat) × β) :=
  match m with
  | [] => [(k, v)]
  | e :: rest =>
    if e.1 == k then (k, v) :: rest
    else if k.1 < e.1.1 ∨ (k.1 = e.1.1 ∧ k.2 < e.1.2) then (k, v) :: e :: rest
    else e :: assignPair rest k v

def erasePair {β : Type} (m : List ((Nat × Nat) × β)) (k : Nat × Nat) : List ((Nat × Nat) × β) := m.filter (fun e => e.1 != k)

/-- `new_distance(from, to, dist)`: the literal of `to - from ≤ dist` -/
def newDistance (s : Sat) (t : Dl α) (src dst : Nat) (dist : α) : Lit × Sat × Dl α :=
  if O.lt (d O t dst src) (O.neg dist) then (Lit.falseLit, s, t)
  else if O.le (d O t src dst) dist then (Lit.trueLit, s, t)
  else
    let (ctr, s') := s.newVar
    let c : DConstr α := ⟨ctr, src, dst, dist⟩
    let cs := (lookupPair t.distConstrs (src, dst)).getD []
    (⟨ctr, true⟩, s', { t with varDists := t.varDists ++ [c], distConstrs := assignPair t.distConstrs (src, dst) (cs ++ [ctr]) })

/-- `set_dist` -/
def setDist (t : Dl α) (i j : Nat) (x : α) : Dl α :=
  let t := match t.layers with
    | [] => t
    | l :: ls =>
      if (lookupPair l.oldDists (i, j)).isSome then t
      else { t with layers := { l with oldDists := emplacePair l.oldDists (i, j) (d O t i j) } :: ls }
  setD t i j x

/-- `set_pred` (the old predecessor is saved for backtracking) -/
def setPred (t : Dl α) (i j : Nat) (x : Nat) : Dl α :=
  let t := match t.layers with
    | [] => t
    | l :: ls =>
      if (lookupPair l.oldPreds (i, j)).isSome then t
      else { t with layers := { l with oldPreds := emplacePair l.oldPreds (i, j) (p t i j) } :: ls }
  setP t i j x

/-- the explanation walk: from `start`, follow `_preds[root][·]` back to `root`, collecting for
    every traversed edge with an entry in `dist_constr` the literal that is currently false
    (`¬b` if `b` is true, `b` if `b` is false).  Fuelled by the number of variables. -/
def walk (s : Sat) (t : Dl α) (root : Nat) : Nat → Nat → List Lit → List Lit
  | 0, _, acc => acc
  | fuel + 1, cur, acc =>
    if cur = root then acc
    else
      let pr := p t root cur
      let acc := match lookupPair t.distConstr (pr, cur) with
        | some b => match s.value ⟨b, true⟩ with
          | some true => acc ++ [⟨b, false⟩]
          | some false => acc ++ [⟨b, true⟩]
          | none => acc
        | none => acc
      walk s t root fuel pr acc

/-- first loop of `propagate(from, to, dist)` -/
def phase1 (t : Dl α) (src dst : Nat) (dist : α) : Nat → Nat → Dl α × List Nat × List Nat × List (Nat × Nat) → Dl α × List Nat × List Nat × List (Nat × Nat)
  | 0, _, acc => acc
  | n + 1, u, (t, si, sj, ups) =>
    let r1 :=
      if O.finiteGuard (d O t u src) && O.lt (d O t u src) (O.sub (d O t u dst) dist) then
        let t := setDist O t u dst (O.add (d O t u src) dist)
        let t := setPred t u dst src
        (t, si ++ [u], ups ++ [(u, dst), (dst, u)])
      else (t, si, ups)
    let (t, si, ups) := r1
    let r2 :=
      if O.finiteGuard (d O t dst u) && O.lt (d O t dst u) (O.sub (d O t src u) dist) then
        let t := setDist O t src u (O.add (d O t dst u) dist)
        let t := setPred t src u (p t dst u)
        (t, sj ++ [u], ups ++ [(src, u), (u, src)])
      else (t, sj, ups)
    let (t, sj, ups) := r2
    phase1 t src dst dist n (u + 1) (t, si, sj, ups)

/-- second loop: `set_i × set_j` -/
def phase2 (t : Dl α) (dst : Nat) (si sj : List Nat) (ups : List (Nat × Nat)) : Dl α × List (Nat × Nat) :=
  si.foldl (fun acc i => sj.foldl (fun (acc : Dl α × List (Nat × Nat)) j =>
    let (t, ups) := acc
    if i != j && O.lt (O.add (d O t i dst) (d O t dst j)) (d O t i j) then
      let t := setDist O t i j (O.add (d O t i dst) (d O t dst j))
      let t := setPred t i j (p t dst j)
      (t, ups ++ [(i, j), (j, i)])
    else (t, ups)) acc) (t, ups)

/-- the scan of the undecided constraints on the updated pairs, recording a lemma for each one
    the matrix now decides -/
def scanUpdates (s : Sat) (t : Dl α) : List (Nat × Nat) → Sat
  | [] => s
  | pr :: rest =>
    let cs := (lookupPair t.distConstrs pr).getD []
    let s := cs.foldl (fun s b =>
      match constrOf t b with
      | none => s
      | some c =>
        if s.value ⟨c.b, true⟩ ≠ none then s
        else if O.lt (d O t c.dst c.src) (O.neg c.dist) then
          s.record (walk s t c.dst t.nVars c.src [⟨c.b, false⟩])
        else if O.le (d O t c.src c.dst) c.dist then
          s.record (walk s t c.src t.nVars c.dst [⟨c.b, true⟩])
        else s) s
    scanUpdates s t rest

/-- `propagate(from, to, dist)`: the incremental all-pairs-shortest-paths update -/
def propagateEdge (s : Sat) (t : Dl α) (src dst : Nat) (dist : α) : Sat × Dl α :=
  let t := setDist O t src dst dist
  let t := setPred t src dst src
  let (t, si, sj, ups) := phase1 O t src dst dist t.nVars 0 (t, [], [], [(src, dst), (dst, src)])
  let (t, ups) := phase2 O t dst si sj ups
  (scanUpdates O s t ups, t)

/-- remember, once per layer, which constraint was responsible for a pair -/
def saveConstr (t : Dl α) (k : Nat × Nat) : Dl α :=
  match t.layers with
  | [] => t
  | l :: ls =>
    if (lookupPair l.oldConstrs k).isSome then t
    else { t with layers := { l with oldConstrs := emplacePair l.oldConstrs k (lookupPair t.distConstr k) } :: ls }

/-- `propagate(const lit& p)`: `.inl cnfl` on conflict -/
def propagateLit (s : Sat) (t : Dl α) (pl : Lit) : (List Lit) ⊕ (Sat × Dl α) :=
  match constrOf t pl.var with
  | none => .inr (s, t)
  | some c =>
    match s.value ⟨c.b, true⟩ with
    | some true =>
      if O.lt (d O t c.dst c.src) (O.neg c.dist) then
        .inl (walk s t c.dst t.nVars c.src [] ++ [pl.neg])
      else if O.lt c.dist (d O t c.src c.dst) then
        let t := saveConstr t (c.src, c.dst)
        let t := { t with distConstr := assignPair t.distConstr (c.src, c.dst) c.b }
        .inr (propagateEdge O s t c.src c.dst c.dist)
      else .inr (s, t)
    | some false =>
      if O.le (d O t c.src c.dst) c.dist then
        .inl (walk s t c.src t.nVars c.dst [] ++ [pl.neg])
      else if O.le (O.neg c.dist) (d O t c.dst c.src) then
        let t := saveConstr t (c.dst, c.src)
        let t := { t with distConstr := assignPair t.distConstr (c.dst, c.src) c.b }
        .inr (propagateEdge O s t c.dst c.src (O.negStrict c.dist))
      else .inr (s, t)
    | none => .inr (s, t)

/-- `push()` -/
def push (t : Dl α) : Dl α := { t with layers := ⟨[], [], []⟩ :: t.layers }

/-- `pop()` -/
def pop (t : Dl α) : Dl α :=
  match t.layers with
  | [] => t
  | l :: ls =>
    let t := l.oldDists.foldl (fun t e => setD t e.1.1 e.1.2 e.2) t
    let t := l.oldPreds.foldl (fun t e => setP t e.1.1 e.1.2 e.2) t
    let dc := l.oldConstrs.foldl (fun dc e => match e.2 with
      | some b => assignPair dc e.1 b
      | none => erasePair dc e.1) t.distConstr
    { t with distConstr := dc, layers := ls }

/-! ### queries -/
def lb (t : Dl α) (v : Nat) : α := O.neg (d O t v 0)
def ub (t : Dl α) (v : Nat) : α := d O t 0 v
/-- `distance(from, to)`: bounds of `to - from` -/
def distance (t : Dl α) (src dst : Nat) : α × α := (O.neg (d O t dst src), d O t src dst)

/-! ### relations between linear expressions -/

inductive Rel where | lt | leq | eq | geq | gt
deriving DecidableEq, Repr

/-- result of a request: a literal, or the `std::invalid_argument` the C++ throws -/
abbrev Req (α : Type) := Option (Lit × Sat × Dl α)

/-- the constant cases (`expr.vars.size() == 0`) -/
def relConst (r : Rel) (k : R) : Bool :=
  match r with
  | .lt => R.lt k R.zero | .leq => R.le k R.zero | .eq => R.eq k R.zero | .geq => R.ge k R.zero | .gt => R.gt k R.zero

/-- `new_lt / new_leq / new_eq / new_geq / new_gt (left, right)` -/
def newRel (newConj : Sat → List Lit → Lit × Sat) (s : Sat) (t : Dl α) (r : Rel) (left right : Lin) : Req α :=
  let expr := Lin.sub left right
  match expr.vars with
  | [] => some (if relConst r expr.known then Lit.trueLit else Lit.falseLit, s, t)
  | [(x, c)] =>
    let neg := R.lt c R.zero
    let e := Lin.divR expr c
    let k := e.known
    let strict : Int := if r = .lt ∨ r = .gt then -1 else 0
    match r with
    | .eq =>
      match O.mkB k 0, O.mkB (R.neg k) 0 with
      | some dk, some dnk =>
        let dist := distance O t x 0
        -- `dist.first <= k && dist.second >= k`
        if O.le dist.1 dk && O.le dk dist.2 then
          let (l1, s1, t1) := newDistance O s t x 0 dk
          let (l2, s2, t2) := newDistance O s1 t1 0 x dnk
          let (l, s3) := newConj s2 [l1, l2]
          some (l, s3, t2)
        else some (Lit.falseLit, s, t)
      | _, _ => none
    | _ =>
      -- which of the two shapes: `(x, 0, k + e)` or `(0, x, -k + e)`
      let upper := (r = .lt ∨ r = .leq) == neg      -- lt/leq with c<0, or geq/gt with c>0: bound on `0 - x`
      if upper then (O.mkB k strict).map (fun dk => newDistance O s t x 0 dk)
      else (O.mkB (R.neg k) strict).map (fun dk => newDistance O s t 0 x dk)
  | [(v0, c0), (v1, _)] =>
    let neg := R.lt c0 R.zero
    let e := Lin.divR expr c0
    let k := e.known
    let c1 := (Lin.find e.vars v1).getD R.zero
    if R.ne c1 (R.neg R.one) then none
    else
      let strict : Int := if r = .lt ∨ r = .gt then -1 else 0
      match r with
      | .eq =>
        match O.mkB k 0, O.mkB (R.neg k) 0 with
        | some dk, some dnk =>
          let dist := distance O t v0 v1
          if O.le dist.1 dk && O.le dk dist.2 then
            let (l1, s1, t1) := newDistance O s t v0 v1 dk
            let (l2, s2, t2) := newDistance O s1 t1 v1 v0 dnk
            let (l, s3) := newConj s2 [l1, l2]
            some (l, s3, t2)
          else some (Lit.falseLit, s, t)
        | _, _ => none
      | _ =>
        let fwd := (r = .lt ∨ r = .leq) == neg     -- constraint on `v1 - v0 ≤ k + e`
        if fwd then (O.mkB k strict).map (fun dk => newDistance O s t v0 v1 dk)
        else (O.mkB (R.neg k) strict).map (fun dk => newDistance O s t v1 v0 dk)
  | _ => none

/-- `bounds(lin)`: `none` = the C++ throws -/
def boundsLin (t : Dl α) (l : Lin) : Option (α × α) :=
  match l.vars with
  | [] => if O.valid l.known then some (O.addK O.zero l.known, O.addK O.zero l.known) else none
  | [(x, c)] =>
    if !(O.valid c && O.valid l.known) then none
    else if c.isPositive then some (O.addK (O.scale (lb O t x) c) l.known, O.addK (O.scale (ub O t x) c) l.known)
    else some (O.addK (O.scale (ub O t x) c) l.known, O.addK (O.scale (lb O t x) c) l.known)
  | [(v0, c), (v1, _)] =>
    let e := Lin.divR l c
    let c1 := (Lin.find e.vars v1).getD R.zero
    if R.ne c1 (R.neg R.one) || !(O.valid c && O.valid l.known) then none
    else
      let dist := distance O t v1 v0
      if c.isPositive then some (O.addK (O.scale dist.1 c) l.known, O.addK (O.scale dist.2 c) l.known)
      else some (O.addK (O.scale dist.2 c) l.known, O.addK (O.scale dist.1 c) l.known)
  | _ => none

/-- `distance(lin from, lin to)` -/
def distanceLin (t : Dl α) (src dst : Lin) : Option (α × α) := boundsLin O t (Lin.sub dst src)

/-- `equates(l0, l1)`: `none` = the C++ throws -/
def equatesLin (t : Dl α) (l0 l1 : Lin) : Option Bool :=
  match l0.vars, l1.vars with
  | [], [] => some (R.eq l0.known l1.known)
  | [], [_] => (boundsLin O t l1).map (fun b => O.leK b.1 l0.known && O.geK b.2 l0.known)
  | [_], [] => (boundsLin O t l0).map (fun b => O.leK b.1 l1.known && O.geK b.2 l1.known)
  | [_], [_] => (boundsLin O t (Lin.sub l0 l1)).map (fun b => O.leZero b.1 && O.geZero b.2)
  | _, _ => none

end Dl
end Oratio
