/-
The constraint network as the planner uses it: `sat_core` with its theories attached, in the
construction order of `core::core()` (lra, ov, idl, rdl).  This file re-states the loops of
`sat_core::propagate / assume / pop / next / check` with the theory calls in place
(/repo/smt/sat_core.cpp, theory.cpp); the purely propositional steps are the functions of
OratioModel/Sat/Core.lean.  (`ov_theory` only notifies listeners; it has no effect here.)
-/
import OratioModel.Net.Dl

namespace Oratio

inductive Th where | idl | rdl
deriving DecidableEq, Repr

structure Net where
  sat : Sat
  idl : Dl Int
  rdl : Dl IR
  /-- `bounds`: SAT variable ↦ the theory bound to it -/
  bound : List (Nat × Th)
deriving Repr

namespace Net

def init : Net := ⟨Sat.init, Dl.init idlOps, Dl.init rdlOps, []⟩

def theoryOf (n : Net) (v : Nat) : Option Th := (n.bound.find? (fun e => e.1 == v)).map (·.2)

/-- `pop()`: the SAT level and every theory's layer -/
def pop (n : Net) : Net := { n with sat := n.sat.pop, idl := n.idl.pop, rdl := n.rdl.pop }

def popTo (n : Net) (lvl : Nat) : Net :=
  let rec go (k : Nat) (n : Net) : Net :=
    match k with
    | 0 => n
    | k + 1 => if n.sat.decisionLevel > lvl then go k n.pop else n
  go n.sat.decisionLevel n

/-- theory propagation of an assigned literal: `.inl cnfl` on conflict -/
def theoryPropagate (n : Net) (p : Lit) : (List Lit) ⊕ Net :=
  match n.theoryOf p.var with
  | none => .inr n
  | some .idl => match Dl.propagateLit idlOps n.sat n.idl p with
    | .inl c => .inl c
    | .inr (s, t) => .inr { n with sat := s, idl := t }
  | some .rdl => match Dl.propagateLit rdlOps n.sat n.rdl p with
    | .inl c => .inl c
    | .inr (s, t) => .inr { n with sat := s, rdl := t }

/-- `analyze` + backjump + `record` for a conflicting clause given by its literals -/
def learnFrom (n : Net) (cnfl : Clause) : Option Net :=
  match n.sat.analyze cnfl with
  | none => none
  | some (noGood, bt, s) =>
    let n := popTo { n with sat := s } bt
    some { n with sat := n.sat.record noGood }

/-- `propagate()` with theories -/
def propagate (n : Net) : Nat → Option (Bool × Net)
  | 0 => none
  | fuel + 1 =>
    match n.sat.queue with
    | [] => some (true, n)      -- the difference-logic and object-variable `check()` are vacuous
    | p :: q =>
      let tmp := n.sat.watches.getD p.idx []
      let s := { n.sat with queue := q, watches := n.sat.watches.set p.idx [] }
      match Sat.visitWatchers s p tmp with
      | (s, some id) =>
        if s.rootLevel then some (false, { n with sat := { s with dead := true } })
        else match learnFrom { n with sat := s } (s.clauseOf id) with
          | none => none
          | some n' => propagate n' fuel
      | (s, none) =>
        match theoryPropagate { n with sat := s } p with
        | .inr n' => propagate n' fuel
        | .inl cnfl =>
          let s := { s with queue := [] }
          if s.rootLevel then some (false, { n with sat := { s with dead := true } })
          else match learnFrom { n with sat := s } cnfl with
            | none => none
            | some n' => propagate n' fuel

/-- `assume(p)` -/
def assume (n : Net) (p : Lit) (fuel : Nat) : Option (Bool × Net) :=
  let s := { n.sat with trailLim := n.sat.trail.length :: n.sat.trailLim, decisions := p :: n.sat.decisions }
  let n := { n with sat := s, idl := n.idl.push, rdl := n.rdl.push }
  match n.sat.enqueue p none with
  | (false, s) => some (false, { n with sat := s })
  | (true, s) => propagate { n with sat := s } fuel

/-- `next()` -/
def next (n : Net) (fuel : Nat) : Option (Bool × Net) :=
  if n.sat.rootLevel then some (false, n)
  else
    let noGood := n.sat.decisions.map Lit.neg
    let n := n.pop
    propagate { n with sat := n.sat.record noGood } fuel

/-- `check(lits)` -/
def check (n : Net) (lits : List Lit) (fuel : Nat) : Option (Bool × Net) :=
  let rl := n.sat.decisionLevel
  let rec go (n : Net) : List Lit → Option (Bool × Net)
    | [] => some (true, popTo n rl)
    | p :: ps =>
      let dl := n.sat.decisionLevel
      match n.assume p fuel with
      | none => none
      | some (false, n) => some (false, popTo n rl)
      | some (true, n) =>
        match n.propagate fuel with
        | none => none
        | some (false, n) => some (false, popTo n rl)
        | some (true, n) => if n.sat.decisionLevel ≤ dl then some (false, popTo n rl) else go n ps
  go n lits

/-! ### theory-level requests (root level) -/

def idlNewVar (n : Net) : Nat × Net := let (v, t) := Dl.newVar idlOps n.idl; (v, { n with idl := t })
def rdlNewVar (n : Net) : Nat × Net := let (v, t) := Dl.newVar rdlOps n.rdl; (v, { n with rdl := t })

def bindNew (n : Net) (old : Sat) (th : Th) : Net :=
  -- every SAT variable created by the request belongs to a distance constraint of `th`
  { n with bound := n.bound ++ ((List.range (n.sat.nvars - old.nvars)).map (fun i => (old.nvars + i, th))) }

def idlNewDistance (n : Net) (src dst : Nat) (dist : Int) : Lit × Net :=
  let (l, s, t) := Dl.newDistance idlOps n.sat n.idl src dst dist
  (l, bindNew { n with sat := s, idl := t } n.sat .idl)

def rdlNewDistance (n : Net) (src dst : Nat) (dist : IR) : Lit × Net :=
  let (l, s, t) := Dl.newDistance rdlOps n.sat n.rdl src dst dist
  (l, bindNew { n with sat := s, rdl := t } n.sat .rdl)

/-- the SAT variables a relation request binds: those of its distance constraints (the
    conjunction variable of `new_eq` is not bound) -/
def bindConstrs (n : Net) (th : Th) : Net :=
  let vs : List Nat := match th with
    | .idl => n.idl.varDists.map (fun c => c.b)
    | .rdl => n.rdl.varDists.map (fun c => c.b)
  { n with bound := n.bound ++ (vs.filter (fun v => (n.theoryOf v).isNone)).map (fun v => (v, th)) }

def idlNewRel (n : Net) (r : Dl.Rel) (a b : Lin) : Option (Lit × Net) :=
  (Dl.newRel idlOps Sat.newConj n.sat n.idl r a b).map fun (l, s, t) => (l, bindConstrs { n with sat := s, idl := t } .idl)

def rdlNewRel (n : Net) (r : Dl.Rel) (a b : Lin) : Option (Lit × Net) :=
  (Dl.newRel rdlOps Sat.newConj n.sat n.rdl r a b).map fun (l, s, t) => (l, bindConstrs { n with sat := s, rdl := t } .rdl)

end Net
end Oratio
