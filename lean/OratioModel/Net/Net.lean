/-
The constraint network as the planner uses it: `sat_core` with its theories attached, in the
construction order of `core::core()` (lra, ov, idl, rdl).  This file re-states the loops of
`sat_core::propagate / assume / pop / next / check` with the theory calls in place
(/repo/smt/sat_core.cpp, theory.cpp); the purely propositional steps are the functions of
OratioModel/Sat/Core.lean.  (`ov_theory` only notifies listeners; it has no effect here.)

Theory calls inside `propagate()`: after the clauses watching the dequeued literal, `th->propagate(p)`
for the theory the variable is bound to; when the queue is exhausted, `th->check()` for every theory
in registration order - only `lra_theory::check` (the simplex) can fail or change state, the others
return `true`.  A failing call leaves its explanation in `theory::cnfl`: at root level it is cleared
and `false` is returned, otherwise `analyze_and_backjump()` learns from it and the main loop resumes.
-/
import OratioModel.Net.Dl
import OratioModel.Net.Lra

namespace Oratio

inductive Th where | lra | idl | rdl
deriving DecidableEq, Repr

structure Net where
  sat : Sat
  lra : Lra
  idl : Dl Int
  rdl : Dl IR
  /-- `bounds`: SAT variable ↦ the theory bound to it -/
  bound : List (Nat × Th)
deriving Repr

namespace Net

def init : Net := ⟨Sat.init, Lra.init, Dl.init idlOps, Dl.init rdlOps, []⟩

def theoryOf (n : Net) (v : Nat) : Option Th := (n.bound.find? (fun e => e.1 == v)).map (·.2)

/-- `pop()`: the SAT level and every theory's layer -/
def pop (n : Net) : Net := { n with sat := n.sat.pop, lra := n.lra.pop, idl := n.idl.pop, rdl := n.rdl.pop }

def popTo (n : Net) (lvl : Nat) : Net :=
  let rec go (k : Nat) (n : Net) : Net :=
    match k with
    | 0 => n
    | k + 1 => if n.sat.decisionLevel > lvl then go k n.pop else n
  go n.sat.decisionLevel n

/-- theory propagation of an assigned literal (`th->propagate(p)` for the theory bound to the
    variable): the conflict, if any, and the network reached (a failing LRA propagation leaves
    the bounds it updated and the lemmas it recorded in place) -/
def theoryPropagate (n : Net) (p : Lit) : Option (List Lit) × Net :=
  match n.theoryOf p.var with
  | none => (none, n)
  | some .lra =>
    let o := Lra.propagateLit n.sat n.lra p
    (o.cnfl, { n with sat := o.sat, lra := o.th })
  | some .idl => match Dl.propagateLit idlOps n.sat n.idl p with
    | .inl c => (some c, n)
    | .inr (s, t) => (none, { n with sat := s, idl := t })
  | some .rdl => match Dl.propagateLit rdlOps n.sat n.rdl p with
    | .inl c => (some c, n)
    | .inr (s, t) => (none, { n with sat := s, rdl := t })

/-- `analyze` + backjump + `record` for a conflicting clause given by its literals -/
def learnFrom (n : Net) (cnfl : Clause) : Option Net :=
  match n.sat.analyze cnfl with
  | none => none
  | some (noGood, bt, s) =>
    let n := popTo { n with sat := s } bt
    some { n with sat := n.sat.record noGood }

/-- `propagate()` with theories.  After the queue is exhausted every theory is checked, in
    registration order (lra, ov, idl, rdl); only `lra_theory::check` can fail or change state. -/
def propagate (n : Net) : Nat → Option (Bool × Net)
  | 0 => none
  | fuel + 1 =>
    match n.sat.queue with
    | [] =>
      match n.lra.check fuel with
      | none => none
      | some (none, t) => some (true, { n with lra := t })
      | some (some cnfl, t) =>
        let n := { n with lra := t }
        if n.sat.rootLevel then some (false, { n with sat := { n.sat with dead := true } })
        else match learnFrom n cnfl with
          | none => none
          | some n' => propagate n' fuel
    | p :: q =>
      let tmp := n.sat.watches.getD p.idx []
      let s := { n.sat with queue := q, watches := n.sat.watches.set p.idx [] }
      match Sat.visitWatchers s p tmp with
      | (s, some id) =>
        if s.rootLevel then some (false, { n with sat := { s with dead := true } })
        else match learnFrom { n with sat := s } (s.clauseOf id) with
          | none => none
          | some n' => propagate n' fuel
      | (s, none) =>
        match theoryPropagate { n with sat := s } p with
        | (none, n') => propagate n' fuel
        | (some cnfl, n') =>
          let n' := { n' with sat := { n'.sat with queue := [] } }
          if n'.sat.rootLevel then some (false, { n' with sat := { n'.sat with dead := true } })
          else match learnFrom n' cnfl with
            | none => none
            | some n'' => propagate n'' fuel

/-- `assume(p)` -/
def assume (n : Net) (p : Lit) (fuel : Nat) : Option (Bool × Net) :=
  let s := { n.sat with trailLim := n.sat.trail.length :: n.sat.trailLim, decisions := p :: n.sat.decisions }
  let n := { n with sat := s, lra := n.lra.push, idl := n.idl.push, rdl := n.rdl.push }
  match n.sat.enqueue p none with
  | (false, s) => some (false, { n with sat := s })
  | (true, s) => propagate { n with sat := s } fuel

/-- `next()` -/
def next (n : Net) (fuel : Nat) : Option (Bool × Net) :=
  if n.sat.rootLevel then some (false, n)
  else
    let noGood := n.sat.decisions.map Lit.neg
    let n := n.pop
    propagate { n with sat := n.sat.record noGood } fuel

/-- `check(lits)` -/
def check (n : Net) (lits : List Lit) (fuel : Nat) : Option (Bool × Net) :=
  let rl := n.sat.decisionLevel
  let rec go (n : Net) : List Lit → Option (Bool × Net)
    | [] => some (true, popTo n rl)
    | p :: ps =>
      let dl := n.sat.decisionLevel
      match n.assume p fuel with
      | none => none
      | some (false, n) => some (false, popTo n rl)
      | some (true, n) =>
        match n.propagate fuel with
        | none => none
        | some (false, n) => some (false, popTo n rl)
        | some (true, n) => if n.sat.decisionLevel ≤ dl then some (false, popTo n rl) else go n ps
  go n lits

/-- `theory::backtrack_analyze_and_backjump()` for a conflict `cnfl` (every literal false) found outside propagation:
    backtrack to the highest level of its literals; at root level add it as a clause and propagate, otherwise
    analyse it, backjump, record the no-good and propagate -/
def backtrackAnalyzeAndBackjump (n : Net) (cnfl : Clause) (fuel : Nat) : Option (Bool × Net) :=
  let bt := cnfl.foldl (fun m l => max m (n.sat.level.getD l.var 0)) 0
  let n := popTo n bt
  if n.sat.rootLevel then
    match n.sat.newClause cnfl with
    | (false, s) => some (false, { n with sat := { s with dead := true } })
    | (true, s) => propagate { n with sat := s } fuel
  else match learnFrom n cnfl with
    | none => none
    | some n' => propagate n' fuel

/-! ### theory-level requests (root level) -/

def idlNewVar (n : Net) : Nat × Net := let (v, t) := Dl.newVar idlOps n.idl; (v, { n with idl := t })
def rdlNewVar (n : Net) : Nat × Net := let (v, t) := Dl.newVar rdlOps n.rdl; (v, { n with rdl := t })

def bindNew (n : Net) (old : Sat) (th : Th) : Net :=
  -- every SAT variable created by the request belongs to a distance constraint of `th`
  { n with bound := n.bound ++ ((List.range (n.sat.nvars - old.nvars)).map (fun i => (old.nvars + i, th))) }

def idlNewDistance (n : Net) (src dst : Nat) (dist : Int) : Lit × Net :=
  let (l, s, t) := Dl.newDistance idlOps n.sat n.idl src dst dist
  (l, bindNew { n with sat := s, idl := t } n.sat .idl)

def rdlNewDistance (n : Net) (src dst : Nat) (dist : IR) : Lit × Net :=
  let (l, s, t) := Dl.newDistance rdlOps n.sat n.rdl src dst dist
  (l, bindNew { n with sat := s, rdl := t } n.sat .rdl)

/-- the SAT variables a relation request binds: those of its distance constraints (the
    conjunction variable of `new_eq` is not bound) -/
def bindConstrs (n : Net) (th : Th) : Net :=
  let vs : List Nat := match th with
    | .lra => n.lra.vAsrts.map (·.1)
    | .idl => n.idl.varDists.map (fun c => c.b)
    | .rdl => n.rdl.varDists.map (fun c => c.b)
  { n with bound := n.bound ++ (vs.filter (fun v => (n.theoryOf v).isNone)).map (fun v => (v, th)) }

def idlNewRel (n : Net) (r : Dl.Rel) (a b : Lin) : Option (Lit × Net) :=
  (Dl.newRel idlOps Sat.newConj n.sat n.idl r a b).map fun (l, s, t) => (l, bindConstrs { n with sat := s, idl := t } .idl)

def rdlNewRel (n : Net) (r : Dl.Rel) (a b : Lin) : Option (Lit × Net) :=
  (Dl.newRel rdlOps Sat.newConj n.sat n.rdl r a b).map fun (l, s, t) => (l, bindConstrs { n with sat := s, rdl := t } .rdl)

/-! ### linear real arithmetic requests -/

def lraNewVar (n : Net) : Nat × Net := let (v, t) := n.lra.newVar; (v, { n with lra := t })

/-- `new_var(lin)`: `none` = an assertion of the C++ fails -/
def lraNewVarLin (n : Net) (l : Lin) : Option (Nat × Net) :=
  (Lra.newVarLin n.sat n.lra l).map fun (v, t) => (v, { n with lra := t })

/-- `new_lt / new_leq / new_geq / new_gt`; the controlling variable of a new assertion is bound to the theory -/
def lraNewRel (n : Net) (r : LRel) (a b : Lin) : Option (Lit × Net) :=
  (Lra.newRel n.sat n.lra r a b).map fun (l, s, t, bs) =>
    (l, { n with sat := s, lra := t, bound := n.bound ++ bs.toList.map (fun v => (v, Th.lra)) })

/-- `new_eq` (the conjunction variable is not bound) -/
def lraNewEq (n : Net) (a b : Lin) : Option (Lit × Net) :=
  (Lra.newEq n.sat n.lra a b).map fun (l, s, t, bs) =>
    (l, { n with sat := s, lra := t, bound := n.bound ++ bs.map (fun v => (v, Th.lra)) })

/-- `set_lb / set_ub / set (x, val, p)` called from outside the propagation loop -/
def lraSet (n : Net) (f : Sat → Lra → Nat → IR → Lit → LOut) (x : Nat) (val : IR) (p : Lit) : Option (List Lit) × Net :=
  let o := f n.sat n.lra x val p
  (o.cnfl, { n with sat := o.sat, lra := o.th })

end Net
end Oratio
