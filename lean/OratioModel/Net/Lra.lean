/-
Model of the linear-real-arithmetic theory `smt::lra_theory` with its constraints `assertion`
and `row` (/repo/smt/arith/lra/lra_theory.{h,cpp}, lra_constraint.{h,cpp}): a general simplex
over `inf_rational` bounds (Dutertre - de Moura) with Bland's pivoting rule, unate propagation
over the assertions watching a variable and bound propagation over the tableau rows watching a
variable.  Every definition re-states one C++ function, in the same evaluation order and with
the same arithmetic overloads (the models `R`, `IR`, `Lin` of OratioModel/Arith).

Identities.  A tableau row is identified by its basic variable (the key of `tableau`), an
assertion by the SAT variable of its controlling literal (the key of `v_asrts`).

Order.  `tableau` is a `std::map` (ascending basic variable), `a_watches[v]` a vector (creation
order).  `t_watches[v]` is an `unordered_set<row*>` whose iteration order is a function of heap
addresses; the model keeps it as the ascending list of the basic variables of the watching
rows, and the C++ is compiled (under PSTLAB_ORATIO_VERIF) with a hook that visits the set in
that order where the order is observable (the bound-propagation loops of `assert_lower /
assert_upper`).  `exprs`, `s_asrts`, `v_asrts`, `layers[i]` are unordered maps that are only
searched by key (or traversed with commuting effects), kept here in insertion order.

Conflicts.  The C++ functions return `false` leaving the explanation in `theory::cnfl`, with
all the state changes made before the conflict was found in place; the model functions return
the explanation (`some cnfl`) together with the state reached.

Oddity of the C++ that is modelled as it is: `row::propagate_ub`, positive-coefficient branch,
tests `is_negative_infinite(th.lb(v))` (the variable whose bound changed) where the three sibling
loops test `th.lb(c_v)` (the variable of the current term).

Rows may have a known term (those created through the public `new_var(lin)`; the rows created by
`new_lt … new_gt` have none): `row::propagate_lb / propagate_ub` start the bound of the row's
expression from it, and `pivot` carries it along.
-/
import OratioModel.Sat.Core
import OratioModel.Arith.InfRational
import OratioModel.Arith.Lin

namespace Oratio

/-- `enum op { leq, geq }` -/
inductive LOp where | leq | geq
deriving DecidableEq, Repr

/-- `lra_theory::bound` -/
structure LBound where
  value : IR
  reason : Lit
deriving Repr, Inhabited

/-- `class assertion`: `x <op> v` controlled by the literal `b` -/
structure LAsrt where
  o : LOp
  b : Lit
  x : Nat
  v : IR
deriving Repr

/-- the relations of `new_lt / new_leq / new_geq / new_gt` (`new_eq` is their conjunction) -/
inductive LRel where | lt | leq | geq | gt
deriving DecidableEq, Repr

structure Lra where
  bounds : List LBound                      -- `c_bounds`: `2v` lower, `2v+1` upper
  vals : List IR                            -- `vals`
  tableau : List (Nat × Lin)                -- `tableau`, ascending basic variable
  exprs : List (String × Nat)               -- `exprs`
  sAsrts : List (String × Lit)              -- `s_asrts`
  vAsrts : List (Nat × LAsrt)               -- `v_asrts`
  aWatches : List (List Nat)                -- `a_watches`: assertions (by SAT variable), creation order
  tWatches : List (List Nat)                -- `t_watches`: rows (by basic variable), ascending
  layers : List (List (Nat × LBound))       -- `layers`, newest first; each in insertion order
deriving Repr

/-- outcome of a theory call that can fail: `cnfl = some c` when the C++ returns `false` with
    `theory::cnfl = c`; the states are those reached at the return -/
structure LOut where
  cnfl : Option (List Lit)
  sat : Sat
  th : Lra

namespace Lra

/-- `lra_theory(sat)` -/
def init : Lra := ⟨[], [], [], [], [], [], [], [], []⟩

def nVars (t : Lra) : Nat := t.vals.length
/-- `lb_index(v)`, `ub_index(v)` -/
def lbIdx (v : Nat) : Nat := 2 * v
def ubIdx (v : Nat) : Nat := 2 * v + 1

def bnd (t : Lra) (i : Nat) : LBound := t.bounds.getD i ⟨IR.ofR R.zero, Lit.trueLit⟩
/-- `lb(var)`, `ub(var)`, `value(var)` -/
def lb (t : Lra) (v : Nat) : IR := (t.bnd (lbIdx v)).value
def ub (t : Lra) (v : Nat) : IR := (t.bnd (ubIdx v)).value
def value (t : Lra) (v : Nat) : IR := t.vals.getD v (IR.ofR R.zero)
def lbReason (t : Lra) (v : Nat) : Lit := (t.bnd (lbIdx v)).reason
def ubReason (t : Lra) (v : Nat) : Lit := (t.bnd (ubIdx v)).reason

def rowOf (t : Lra) (x : Nat) : Option Lin := (t.tableau.find? (fun r => r.1 == x)).map (·.2)
/-- `is_basic(v)` -/
def isBasic (t : Lra) (v : Nat) : Bool := (t.rowOf v).isSome
def asrtOf (t : Lra) (b : Nat) : Option LAsrt := (t.vAsrts.find? (fun a => a.1 == b)).map (·.2)

/-- `is_positive_infinite / is_negative_infinite (inf_rational)` -/
def isPosInf (a : IR) : Bool := a.isPositive && a.isInfinite
def isNegInf (a : IR) : Bool := a.isNegative && a.isInfinite

/-- `to_string(inf_rational)` -/
def irToStr (a : IR) : String :=
  if a.rat.isInfinite || R.eq a.inf R.zero then R.toStr a.rat
  else
    let c := if R.ne a.rat R.zero then R.toStr a.rat else ""
    if R.eq a.inf R.one then (if c.isEmpty then "ε" else c ++ " + ε")
    else if R.eq a.inf (R.neg R.one) then (if c.isEmpty then "-ε" else c ++ " - ε")
    else if a.inf.isNegative then (if c.isEmpty then R.toStr a.inf ++ "ε" else c ++ " " ++ R.toStr a.inf ++ "ε")
    else if c.isEmpty then R.toStr a.inf ++ "ε"
    else c ++ " +" ++ R.toStr a.inf ++ "ε"

/-- `unordered_map::emplace` (an existing key is kept) -/
def emplaceKey {β : Type} (m : List (String × β)) (k : String) (v : β) : List (String × β) :=
  if m.any (fun e => e.1 == k) then m else m ++ [(k, v)]
def findKey {β : Type} (m : List (String × β)) (k : String) : Option β := (m.find? (fun e => e.1 == k)).map (·.2)

/-- insertion into / removal from a set of rows, kept ascending -/
def setInsert (x : Nat) : List Nat → List Nat
  | [] => [x]
  | y :: t => if x < y then x :: y :: t else if x == y then y :: t else y :: setInsert x t
def setErase (x : Nat) (l : List Nat) : List Nat := l.filter (· != x)

def watchRow (t : Lra) (v r : Nat) : Lra := { t with tWatches := t.tWatches.set v (setInsert r (t.tWatches.getD v [])) }
def unwatchRow (t : Lra) (v r : Nat) : Lra := { t with tWatches := t.tWatches.set v (setErase r (t.tWatches.getD v [])) }

/-- `tableau.emplace(x, r)` -/
def tabInsert (m : List (Nat × Lin)) (x : Nat) (l : Lin) : List (Nat × Lin) :=
  match m with
  | [] => [(x, l)]
  | e :: rest => if x < e.1 then (x, l) :: e :: rest else if x == e.1 then e :: rest else e :: tabInsert rest x l
def tabSet (t : Lra) (x : Nat) (l : Lin) : Lra := { t with tableau := t.tableau.map (fun e => if e.1 == x then (x, l) else e) }

/-- `new_var()` -/
def newVar (t : Lra) : Nat × Lra :=
  let id := t.vals.length
  (id, { t with bounds := t.bounds ++ [⟨IR.ofR R.ninf, Lit.trueLit⟩, ⟨IR.ofR R.pinf, Lit.trueLit⟩],
                vals := t.vals ++ [IR.ofR R.zero],
                exprs := emplaceKey t.exprs ("x" ++ toString id) id,
                aWatches := t.aWatches ++ [[]], tWatches := t.tWatches ++ [[]] })

/-- `lb(lin)` -/
def lbLin (t : Lra) (l : Lin) : IR :=
  l.vars.foldl (fun b e => IR.addAssign b (IR.mulR (if e.2.isPositive then t.lb e.1 else t.ub e.1) e.2)) (IR.ofR l.known)
/-- `ub(lin)` -/
def ubLin (t : Lra) (l : Lin) : IR :=
  l.vars.foldl (fun b e => IR.addAssign b (IR.mulR (if e.2.isPositive then t.ub e.1 else t.lb e.1) e.2)) (IR.ofR l.known)
/-- `bounds(lin)` -/
def boundsLin (t : Lra) (l : Lin) : IR × IR :=
  l.vars.foldl (fun (b : IR × IR) e =>
    (IR.addAssign b.1 (IR.mulR (if e.2.isPositive then t.lb e.1 else t.ub e.1) e.2),
     IR.addAssign b.2 (IR.mulR (if e.2.isPositive then t.ub e.1 else t.lb e.1) e.2))) (IR.ofR l.known, IR.ofR l.known)
/-- `value(lin)` -/
def valueLin (t : Lra) (l : Lin) : IR :=
  l.vars.foldl (fun b e => IR.addAssign b (IR.mulR (t.value e.1) e.2)) (IR.ofR l.known)

/-- `equates(l0, l1)` -/
def equates (t : Lra) (l0 l1 : Lin) : Bool :=
  let b0 := t.boundsLin l0
  let b1 := t.boundsLin l1
  IR.ge b0.2 b1.1 && IR.le b0.1 b1.2

/-- `new_row(x, l)` -/
def newRow (t : Lra) (x : Nat) (l : Lin) : Lra :=
  let t := { t with tableau := tabInsert t.tableau x l }
  l.vars.foldl (fun t e => watchRow t e.1 x) t

def setBound (t : Lra) (i : Nat) (b : LBound) : Lra := { t with bounds := t.bounds.set i b }
def setVal (t : Lra) (v : Nat) (x : IR) : Lra := { t with vals := t.vals.set v x }

/-- the loop of `new_var(lin)` and `new_lt … new_gt` replacing the basic variables of `expr` by their rows -/
def substBasic (t : Lra) (expr : Lin) : Lin :=
  (expr.vars.map (·.1)).foldl (fun e v =>
    match t.rowOf v with
    | some rl =>
      let c := (Lin.find e.vars v).getD R.zero
      Lin.addAssign { e with vars := Lin.erase e.vars v } (Lin.mulR rl c)
    | none => e) expr

/-- `new_var(const lin&)`: the variable equal to the expression.  The expression as given is
    looked up first; otherwise its basic variables are replaced by their rows and the rewritten
    expression is looked up (the given one becomes another name of the variable found); otherwise
    a slack variable is created whose row is the rewritten expression (which may have no
    variable left: a constant row).  `none` = an assertion of the C++ fails (empty expression,
    or a new slack variable is needed above the root level) -/
def newVarLin (s : Sat) (t : Lra) (l : Lin) : Option (Nat × Lra) :=
  if l.vars.isEmpty then none
  else
    let key := Lin.toStr l
    match findKey t.exprs key with
    | some v => some (v, t)
    | none =>
      let expr := substBasic t l
      let key' := Lin.toStr expr
      match findKey t.exprs key' with
      | some v => some (v, { t with exprs := emplaceKey t.exprs key v })
      | none =>
        if !s.rootLevel then none
        else
          let (slack, t) := t.newVar
          let t := { t with exprs := emplaceKey (emplaceKey t.exprs key slack) key' slack }
          let t := t.setBound (lbIdx slack) ⟨t.lbLin expr, Lit.trueLit⟩
          let t := t.setBound (ubIdx slack) ⟨t.ubLin expr, Lit.trueLit⟩
          let t := t.setVal slack (t.valueLin expr)
          some (slack, t.newRow slack expr)

/-- `new_lt / new_leq / new_geq / new_gt (left, right)`: the literal, the SAT state, the theory
    and the SAT variable newly bound to the theory (if any); `none` as in `newVarLin` -/
def newRel (s : Sat) (t : Lra) (r : LRel) (left right : Lin) : Option (Lit × Sat × Lra × Option Nat) :=
  let expr := substBasic t (Lin.sub left right)
  let cRight : IR := match r with
    | .lt => ⟨R.neg expr.known, R.ofInt (-1)⟩
    | .leq => IR.neg (IR.ofR expr.known)
    | .geq => IR.neg (IR.ofR expr.known)
    | .gt => ⟨R.neg expr.known, R.ofInt 1⟩
  let expr : Lin := { expr with known := R.zero }
  let upper := r = .lt ∨ r = .leq
  -- the constraint is already satisfied / unsatisfiable
  let sat? (lo hi : IR) : Option Lit :=
    if upper then (if IR.le hi cRight then some Lit.trueLit else if IR.gt lo cRight then some Lit.falseLit else none)
    else (if IR.ge lo cRight then some Lit.trueLit else if IR.lt hi cRight then some Lit.falseLit else none)
  match sat? (t.lbLin expr) (t.ubLin expr) with
  | some l => some (l, s, t, none)
  | none =>
    match newVarLin s t expr with
    | none => none
    | some (slack, t) =>
      match sat? (t.lb slack) (t.ub slack) with
      | some l => some (l, s, t, none)
      | none =>
        let key := "x" ++ toString slack ++ (if upper then " <= " else " >= ") ++ irToStr cRight
        match findKey t.sAsrts key with
        | some l => some (l, s, t, none)
        | none =>
          let (ctr, s) := s.newVar
          let ctrLit : Lit := ⟨ctr, true⟩
          let a : LAsrt := ⟨if upper then .leq else .geq, ctrLit, slack, cRight⟩
          let t := { t with sAsrts := emplaceKey t.sAsrts key ctrLit, vAsrts := t.vAsrts ++ [(ctr, a)],
                            aWatches := t.aWatches.set slack (t.aWatches.getD slack [] ++ [ctr]) }
          some (ctrLit, s, t, some ctr)

/-- `new_eq(left, right)`: `sat->new_conj({new_geq(left, right), new_leq(left, right)})` -/
def newEq (s : Sat) (t : Lra) (left right : Lin) : Option (Lit × Sat × Lra × List Nat) :=
  match newRel s t .geq left right with
  | none => none
  | some (l1, s, t, b1) =>
    match newRel s t .leq left right with
    | none => none
    | some (l2, s, t, b2) =>
      let (l, s) := s.newConj [l1, l2]
      some (l, s, t, b1.toList ++ b2.toList)

/-- `update(x_i, v)` -/
def update (t : Lra) (xi : Nat) (v : IR) : Lra :=
  let t := (t.tWatches.getD xi []).foldl (fun t x =>
    let a := (Lin.find ((t.rowOf x).getD Lin.empty).vars xi).getD R.zero
    t.setVal x (IR.addAssign (t.value x) (IR.rMul a (IR.sub v (t.value xi))))) t
  t.setVal xi v

/-- the update of one row `r` in `pivot`: replace `x_j` by `expr` -/
def pivotRow (t : Lra) (xj : Nat) (expr : Lin) (r : Nat) : Lra :=
  let rl := (t.rowOf r).getD Lin.empty
  let cc := (Lin.find rl.vars xj).getD R.zero
  let rl := { rl with vars := Lin.erase rl.vars xj }
  let (rl, t) := expr.vars.foldl (fun (acc : Lin × Lra) e =>
    let (rl, t) := acc
    match Lin.find rl.vars e.1 with
    | none => ({ rl with vars := Lin.insert rl.vars e.1 (R.mul e.2 cc) }, watchRow t e.1 r)
    | some old =>
      let c' := R.addAssign old (R.mul e.2 cc)
      if R.eq c' R.zero then ({ rl with vars := Lin.erase rl.vars e.1 }, unwatchRow t e.1 r)
      else ({ rl with vars := Lin.set rl.vars e.1 c' }, t)) (rl, t)
  let rl := { rl with known := R.addAssign rl.known (R.mul expr.known cc) }
  t.tabSet r rl

/-- `pivot(x_i, x_j)` -/
def pivot (t : Lra) (xi xj : Nat) : Lra :=
  let expr := (t.rowOf xi).getD Lin.empty
  let t := { t with tableau := t.tableau.filter (fun e => e.1 != xi) }
  let t := expr.vars.foldl (fun t e => unwatchRow t e.1 xi) t
  let cf := (Lin.find expr.vars xj).getD R.zero
  let expr := Lin.divAssignR { expr with vars := Lin.erase expr.vars xj } (R.neg cf)
  let expr := { expr with vars := Lin.insert expr.vars xi (R.div R.one cf) }
  let xjWatches := t.tWatches.getD xj []
  let t := { t with tWatches := t.tWatches.set xj [] }
  let t := xjWatches.foldl (fun t r => pivotRow t xj expr r) t
  t.newRow xj expr

/-- `pivot_and_update(x_i, x_j, v)` -/
def pivotAndUpdate (t : Lra) (xi xj : Nat) (v : IR) : Lra :=
  let aij := (Lin.find ((t.rowOf xi).getD Lin.empty).vars xj).getD R.zero
  let theta := IR.divR (IR.sub v (t.value xi)) aij
  let t := t.setVal xi v
  let t := t.setVal xj (IR.addAssign (t.value xj) theta)
  let t := (t.tWatches.getD xj []).foldl (fun t x =>
    if x != xi then
      let a := (Lin.find ((t.rowOf x).getD Lin.empty).vars xj).getD R.zero
      t.setVal x (IR.addAssign (t.value x) (IR.rMul a theta))
    else t) t
  t.pivot xi xj

/-- `check()`: `none` = out of fuel; otherwise the explanation of the conflict (if any) and the
    theory after the pivots performed -/
def check (t : Lra) : Nat → Option (Option (List Lit) × Lra)
  | 0 => none
  | fuel + 1 =>
    match t.tableau.find? (fun e => IR.lt (t.value e.1) (t.lb e.1) || IR.gt (t.value e.1) (t.ub e.1)) with
    | none => some (none, t)
    | some (xi, fl) =>
      if IR.lt (t.value xi) (t.lb xi) then
        match fl.vars.find? (fun e => (e.2.isPositive && IR.lt (t.value e.1) (t.ub e.1)) || (e.2.isNegative && IR.gt (t.value e.1) (t.lb e.1))) with
        | some (xj, _) => check (t.pivotAndUpdate xi xj (t.lb xi)) fuel
        | none =>
          let c := fl.vars.foldl (fun c e =>
            if e.2.isPositive then c ++ [(t.ubReason e.1).neg]
            else if e.2.isNegative then c ++ [(t.lbReason e.1).neg] else c) []
          some (some (c ++ [(t.lbReason xi).neg]), t)
      else if IR.gt (t.value xi) (t.ub xi) then
        match fl.vars.find? (fun e => (e.2.isNegative && IR.lt (t.value e.1) (t.ub e.1)) || (e.2.isPositive && IR.gt (t.value e.1) (t.lb e.1))) with
        | some (xj, _) => check (t.pivotAndUpdate xi xj (t.ub xi)) fuel
        | none =>
          let c := fl.vars.foldl (fun c e =>
            if e.2.isPositive then c ++ [(t.lbReason e.1).neg]
            else if e.2.isNegative then c ++ [(t.ubReason e.1).neg] else c) []
          some (some (c ++ [(t.ubReason xi).neg]), t)
      else check t fuel

/-- `push()` -/
def push (t : Lra) : Lra := { t with layers := [] :: t.layers }

/-- `pop()` -/
def pop (t : Lra) : Lra :=
  match t.layers with
  | [] => t
  | l :: ls => { (l.foldl (fun t e => t.setBound e.1 e.2) t) with layers := ls }

/-- the first-write-wins save of a bound in the newest layer -/
def saveBound (t : Lra) (i : Nat) : Lra :=
  match t.layers with
  | [] => t
  | l :: ls => if l.any (fun e => e.1 == i) then t else { t with layers := (l ++ [(i, t.bnd i)]) :: ls }

/-- `assertion::propagate_lb(x_i)` -/
def asrtPropagateLb (s : Sat) (t : Lra) (a : LAsrt) (xi : Nat) : Option (List Lit) × Sat :=
  let r := (t.lbReason xi).neg
  match a.o with
  | .leq =>
    match s.value a.b with
    | some true => if IR.gt (t.lb xi) a.v then (some [a.b.neg, r], s) else (none, s)
    | none => if IR.gt (t.lb xi) a.v then (none, s.record [a.b.neg, r]) else (none, s)
    | some false => (none, s)
  | .geq =>
    match s.value a.b with
    | some false => if IR.ge (t.lb xi) a.v then (some [a.b, r], s) else (none, s)
    | none => if IR.ge (t.lb xi) a.v then (none, s.record [a.b, r]) else (none, s)
    | some true => (none, s)

/-- `assertion::propagate_ub(x_i)` -/
def asrtPropagateUb (s : Sat) (t : Lra) (a : LAsrt) (xi : Nat) : Option (List Lit) × Sat :=
  let r := (t.ubReason xi).neg
  match a.o with
  | .leq =>
    match s.value a.b with
    | some false => if IR.le (t.ub xi) a.v then (some [a.b, r], s) else (none, s)
    | none => if IR.le (t.ub xi) a.v then (none, s.record [a.b, r]) else (none, s)
    | some true => (none, s)
  | .geq =>
    match s.value a.b with
    | some true => if IR.lt (t.ub xi) a.v then (some [a.b.neg, r], s) else (none, s)
    | none => if IR.lt (t.ub xi) a.v then (none, s.record [a.b.neg, r]) else (none, s)
    | some false => (none, s)

/-- the loops of `row::propagate_*` that compute the lower bound of the row's expression and
    the literals explaining it; `none` = "nothing to propagate" -/
def rowLowerSum (t : Lra) : List (Nat × R) → IR × List Lit → Option (IR × List Lit)
  | [], acc => some acc
  | (cv, c) :: rest, (sum, ex) =>
    if c.isPositive then
      if isNegInf (t.lb cv) then none
      else rowLowerSum t rest (IR.addAssign sum (IR.rMul c (t.lb cv)), ex ++ [(t.lbReason cv).neg])
    else if c.isNegative then
      if isPosInf (t.ub cv) then none
      else rowLowerSum t rest (IR.addAssign sum (IR.rMul c (t.ub cv)), ex ++ [(t.ubReason cv).neg])
    else rowLowerSum t rest (sum, ex)

/-- the same for the upper bound; `negTest cv` is the variable whose lower bound is tested for
    `-inf` when the coefficient of `cv` is negative (`cv` itself, except in `row::propagate_ub`) -/
def rowUpperSum (t : Lra) (negTest : Nat → Nat) : List (Nat × R) → IR × List Lit → Option (IR × List Lit)
  | [], acc => some acc
  | (cv, c) :: rest, (sum, ex) =>
    if c.isPositive then
      if isPosInf (t.ub cv) then none
      else rowUpperSum t negTest rest (IR.addAssign sum (IR.rMul c (t.ub cv)), ex ++ [(t.ubReason cv).neg])
    else if c.isNegative then
      if isNegInf (t.lb (negTest cv)) then none
      else rowUpperSum t negTest rest (IR.addAssign sum (IR.rMul c (t.lb cv)), ex ++ [(t.lbReason cv).neg])
    else rowUpperSum t negTest rest (sum, ex)

/-- the loop over `a_watches[x]` given a lower bound `lbv` of the basic variable `x` explained by `ex` -/
def scanLower (t : Lra) (lbv : IR) (ex : List Lit) : Sat → List Nat → Option (List Lit) × Sat
  | s, [] => (none, s)
  | s, b :: rest =>
    match t.asrtOf b with
    | none => scanLower t lbv ex s rest
    | some a =>
      match a.o with
      | .leq =>
        match s.value a.b with
        | some true => if IR.gt lbv a.v then (some (a.b.neg :: ex), s) else scanLower t lbv ex s rest
        | none => if IR.gt lbv a.v then scanLower t lbv ex (s.record (a.b.neg :: ex)) rest else scanLower t lbv ex s rest
        | some false => scanLower t lbv ex s rest
      | .geq =>
        match s.value a.b with
        | some false => if IR.ge lbv a.v then (some (a.b :: ex), s) else scanLower t lbv ex s rest
        | none => if IR.ge lbv a.v then scanLower t lbv ex (s.record (a.b :: ex)) rest else scanLower t lbv ex s rest
        | some true => scanLower t lbv ex s rest

/-- the loop over `a_watches[x]` given an upper bound `ubv` of the basic variable `x` explained by `ex` -/
def scanUpper (t : Lra) (ubv : IR) (ex : List Lit) : Sat → List Nat → Option (List Lit) × Sat
  | s, [] => (none, s)
  | s, b :: rest =>
    match t.asrtOf b with
    | none => scanUpper t ubv ex s rest
    | some a =>
      match a.o with
      | .leq =>
        match s.value a.b with
        | some false => if IR.le ubv a.v then (some (a.b :: ex), s) else scanUpper t ubv ex s rest
        | none => if IR.le ubv a.v then scanUpper t ubv ex (s.record (a.b :: ex)) rest else scanUpper t ubv ex s rest
        | some true => scanUpper t ubv ex s rest
      | .geq =>
        match s.value a.b with
        | some true => if IR.lt ubv a.v then (some (a.b.neg :: ex), s) else scanUpper t ubv ex s rest
        | none => if IR.lt ubv a.v then scanUpper t ubv ex (s.record (a.b.neg :: ex)) rest else scanUpper t ubv ex s rest
        | some false => scanUpper t ubv ex s rest

def lowerPart (s : Sat) (t : Lra) (x : Nat) (l : Lin) : Option (List Lit) × Sat :=
  match rowLowerSum t l.vars (IR.ofR l.known, []) with
  | none => (none, s)
  | some (sum, ex) => if IR.ge sum (t.lb x) then scanLower t sum ex s (t.aWatches.getD x []) else (none, s)

def upperPart (s : Sat) (t : Lra) (x : Nat) (l : Lin) (negTest : Nat → Nat) : Option (List Lit) × Sat :=
  match rowUpperSum t negTest l.vars (IR.ofR l.known, []) with
  | none => (none, s)
  | some (sum, ex) => if IR.le sum (t.ub x) then scanUpper t sum ex s (t.aWatches.getD x []) else (none, s)

/-- `row::propagate_lb(v)` for the row of basic variable `x` -/
def rowPropagateLb (s : Sat) (t : Lra) (x : Nat) (v : Nat) : Option (List Lit) × Sat :=
  let l := (t.rowOf x).getD Lin.empty
  if ((Lin.find l.vars v).getD R.zero).isPositive then lowerPart s t x l else upperPart s t x l id

/-- `row::propagate_ub(v)` for the row of basic variable `x` -/
def rowPropagateUb (s : Sat) (t : Lra) (x : Nat) (v : Nat) : Option (List Lit) × Sat :=
  let l := (t.rowOf x).getD Lin.empty
  if ((Lin.find l.vars v).getD R.zero).isPositive then upperPart s t x l (fun _ => v) else lowerPart s t x l

/-- a loop `for (c : watches) if (!c->propagate(x_i)) return false;` -/
def forAll (f : Sat → Nat → Option (List Lit) × Sat) : Sat → List Nat → Option (List Lit) × Sat
  | s, [] => (none, s)
  | s, w :: rest =>
    match f s w with
    | (some c, s) => (some c, s)
    | (none, s) => forAll f s rest

/-- `assert_lower(x_i, val, p)` -/
def assertLower (s : Sat) (t : Lra) (xi : Nat) (val : IR) (p : Lit) : LOut :=
  if IR.le val (t.lb xi) then ⟨none, s, t⟩
  else if IR.gt val (t.ub xi) then ⟨some [p.neg, (t.ubReason xi).neg], s, t⟩
  else
    let t := t.saveBound (lbIdx xi)
    let t := t.setBound (lbIdx xi) ⟨val, p⟩
    let t := if IR.lt (t.value xi) val && !t.isBasic xi then t.update xi val else t
    -- unate propagation
    match forAll (fun s b => match t.asrtOf b with
        | some a => asrtPropagateLb s t a xi
        | none => (none, s)) s (t.aWatches.getD xi []) with
    | (some c, s) => ⟨some c, s, t⟩
    | (none, s) =>
      -- bound propagation
      let (c, s) := forAll (fun s x => rowPropagateLb s t x xi) s (t.tWatches.getD xi [])
      ⟨c, s, t⟩

/-- `assert_upper(x_i, val, p)` -/
def assertUpper (s : Sat) (t : Lra) (xi : Nat) (val : IR) (p : Lit) : LOut :=
  if IR.ge val (t.ub xi) then ⟨none, s, t⟩
  else if IR.lt val (t.lb xi) then ⟨some [p.neg, (t.lbReason xi).neg], s, t⟩
  else
    let t := t.saveBound (ubIdx xi)
    let t := t.setBound (ubIdx xi) ⟨val, p⟩
    let t := if IR.gt (t.value xi) val && !t.isBasic xi then t.update xi val else t
    match forAll (fun s b => match t.asrtOf b with
        | some a => asrtPropagateUb s t a xi
        | none => (none, s)) s (t.aWatches.getD xi []) with
    | (some c, s) => ⟨some c, s, t⟩
    | (none, s) =>
      let (c, s) := forAll (fun s x => rowPropagateUb s t x xi) s (t.tWatches.getD xi [])
      ⟨c, s, t⟩

/-- `set_lb`, `set_ub`, `set` -/
def setLb (s : Sat) (t : Lra) (xi : Nat) (val : IR) (p : Lit) : LOut := assertLower s t xi val p
def setUb (s : Sat) (t : Lra) (xi : Nat) (val : IR) (p : Lit) : LOut := assertUpper s t xi val p
def setEq (s : Sat) (t : Lra) (xi : Nat) (val : IR) (p : Lit) : LOut :=
  match setLb s t xi val p with
  | ⟨some c, s, t⟩ => ⟨some c, s, t⟩
  | ⟨none, s, t⟩ => setUb s t xi val p

/-- `propagate(const lit &p)` -/
def propagateLit (s : Sat) (t : Lra) (p : Lit) : LOut :=
  match t.asrtOf p.var with
  | none => ⟨none, s, t⟩
  | some a =>
    match s.value a.b with
    | some true =>
      if a.o = .leq then assertUpper s t a.x a.v p else assertLower s t a.x a.v p
    | some false =>
      if a.o = .leq then assertLower s t a.x (IR.add a.v ⟨R.zero, R.one⟩) p
      else assertUpper s t a.x (IR.sub a.v ⟨R.zero, R.one⟩) p
    | none => ⟨none, s, t⟩

end Lra
end Oratio
