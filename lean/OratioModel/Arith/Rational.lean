/-
Model of `smt::rational` (/repo/smt/arith/rational.{h,cpp}).

One Lean function per C++ overload, with the same special cases in the same order.
`I` (= `long`) is modelled by unbounded `Int`; C++ `/` on `long` is `Int.tdiv`; `std::gcd`,
`std::lcm` return the non-negative gcd / lcm of the absolute values.

Core Lean only (no Mathlib): this file is compiled into the native driver.
-/

namespace Oratio

structure R where
  num : Int
  den : Int
deriving DecidableEq, Repr, Inhabited

namespace R

/-- `std::gcd` on `long` -/
def gcdI (a b : Int) : Int := ((Int.gcd a b : Nat) : Int)
/-- `std::lcm` on `long` -/
def lcmI (a b : Int) : Int := ((Int.lcm a b : Nat) : Int)

/-- `rational::normalize()`.  With `num = den = 0` the C++ divides by zero (SIGFPE);
    `Int.tdiv _ 0 = 0` here, and every theorem excludes that input explicitly. -/
def normalize (r : R) : R :=
  let r1 : R :=
    if r.den ≠ 1 then
      let g0 := gcdI r.num r.den
      let g := if r.den < 0 then -g0 else g0
      ⟨r.num.tdiv g, r.den.tdiv g⟩
    else r
  if r1.den < 0 then ⟨-r1.num, -r1.den⟩ else r1

/-- `rational(I n, I d)` -/
def mk2 (n d : Int) : R := normalize ⟨n, d⟩
/-- `rational(I n)` -/
def ofInt (n : Int) : R := ⟨n, 1⟩
/-- `rational()` / `ZERO` -/
def zero : R := ⟨0, 1⟩
def one : R := ⟨1, 1⟩
/-- `POSITIVE_INFINITY(1, 0)`, `NEGATIVE_INFINITY(-1, 0)`: `normalize` leaves both unchanged -/
def pinf : R := ⟨1, 0⟩
def ninf : R := ⟨-1, 0⟩

def isInteger (r : R) : Bool := r.den == 1
def isZero (r : R) : Bool := r.num == 0
def isPositive (r : R) : Bool := r.num > 0
def isPositiveOrZero (r : R) : Bool := r.num ≥ 0
def isNegative (r : R) : Bool := r.num < 0
def isNegativeOrZero (r : R) : Bool := r.num ≤ 0
def isInfinite (r : R) : Bool := r.den == 0
def isPositiveInfinite (r : R) : Bool := r.isPositive && r.isInfinite
def isNegativeInfinite (r : R) : Bool := r.isNegative && r.isInfinite

/-! ### comparisons, rational × rational -/
def ne (a b : R) : Bool := a.num != b.num || a.den != b.den
def lt (a b : R) : Bool := if a.den == b.den then a.num < b.num else a.num * b.den < a.den * b.num
def le (a b : R) : Bool := if a.den == b.den then a.num ≤ b.num else a.num * b.den ≤ a.den * b.num
def eq (a b : R) : Bool := a.num == b.num && a.den == b.den
def ge (a b : R) : Bool := if a.den == b.den then a.num ≥ b.num else a.num * b.den ≥ a.den * b.num
def gt (a b : R) : Bool := if a.den == b.den then a.num > b.num else a.num * b.den > a.den * b.num

/-! ### comparisons, rational × I -/
def neI (a : R) (b : Int) : Bool := a.num != b || a.den != 1
def ltI (a : R) (b : Int) : Bool := a.num < a.den * b
def leI (a : R) (b : Int) : Bool := a.num ≤ a.den * b
def eqI (a : R) (b : Int) : Bool := a.num == b && a.den == 1
def geI (a : R) (b : Int) : Bool := a.num ≥ a.den * b
def gtI (a : R) (b : Int) : Bool := a.num > a.den * b

/-- `operator-()` -/
def neg (a : R) : R := ⟨-a.num, a.den⟩

/-- the sign rule shared by the four `*` overloads for an infinite operand -/
def infSign (x y : Int) : Int := if (x ≥ 0 && y ≥ 0) || (x ≤ 0 && y ≤ 0) then 1 else -1

/-- `operator+(const rational&)` -/
def add (a b : R) : R :=
  if a.num == 0 || b.isInfinite then b
  else if b.num == 0 || a.isInfinite then a
  else if a.den == 1 && b.den == 1 then ofInt (a.num + b.num)
  else
    let f := gcdI a.num b.num
    let g := gcdI a.den b.den
    let res := mk2 (a.num.tdiv f * b.den.tdiv g + b.num.tdiv f * a.den.tdiv g) (lcmI a.den b.den)
    ⟨res.num * f, res.den⟩

/-- `operator-(const rational&)` -/
def sub (a b : R) : R := add a (neg b)

/-- `operator*(const rational&)` -/
def mul (a b : R) : R :=
  if eq b one then a
  else if eq a one then b
  else if a.den == 1 && b.den == 1 then ofInt (a.num * b.num)
  else if a.isInfinite || b.isInfinite then
    (if infSign a.num b.num = 1 then pinf else ninf)
  else
    let c := mk2 a.num b.den
    let d := mk2 b.num a.den
    mk2 (c.num * d.num) (c.den * d.den)

/-- the hand-built reciprocal of `operator/(const rational&)` and `operator/=` -/
def recip (b : R) : R := if b.num ≥ 0 then ⟨b.den, b.num⟩ else ⟨-b.den, -b.num⟩

/-- `operator/(const rational&)` -/
def div (a b : R) : R := mul a (recip b)

/-- `operator+(const I&)` -/
def addI (a : R) (b : Int) : R :=
  if a.num == 0 then ofInt b
  else if b == 0 || a.isInfinite then a
  else if a.den == 1 then ofInt (a.num + b)
  else ⟨a.num + b * a.den, a.den⟩

/-- `operator-(const I&)` -/
def subI (a : R) (b : Int) : R := addI a (-b)

/-- `operator*(const I&)` -/
def mulI (a : R) (b : Int) : R :=
  if b == 1 then a
  else if eq a one then ofInt b
  else if a.den == 1 then ofInt (a.num * b)
  else if a.isInfinite then (if infSign a.num b = 1 then pinf else ninf)
  else mk2 (a.num * b) a.den

/-- the hand-built reciprocal of `operator/(const I&)` -/
def recipI (b : Int) : R := if b ≥ 0 then ⟨1, b⟩ else ⟨-1, -b⟩

/-- `operator/(const I&)` -/
def divI (a : R) (b : Int) : R := mul a (recipI b)

/-- `operator+=(const rational&)` -/
def addAssign (a b : R) : R :=
  if a.num == 0 || b.isInfinite then b
  else if b.num == 0 || a.isInfinite then a
  else if a.den == 1 && b.den == 1 then ⟨a.num + b.num, a.den⟩
  else
    let f := gcdI a.num b.num
    let g := gcdI a.den b.den
    let r := normalize ⟨a.num.tdiv f * b.den.tdiv g + b.num.tdiv f * a.den.tdiv g, lcmI a.den b.den⟩
    ⟨r.num * f, r.den⟩

/-- `operator-=(const rational&)` -/
def subAssign (a b : R) : R := addAssign a (neg b)

/-- `operator*=(const rational&)` -/
def mulAssign (a b : R) : R :=
  if eq b one then a
  else if eq a one then b
  else if a.den == 1 && b.den == 1 then ⟨a.num * b.num, a.den⟩
  else if a.isInfinite || b.isInfinite then ⟨infSign a.num b.num, 0⟩
  else
    let c := mk2 a.num b.den
    let d := mk2 b.num a.den
    normalize ⟨c.num * d.num, c.den * d.den⟩

/-- `operator/=(const rational&)` -/
def divAssign (a b : R) : R := mulAssign a (recip b)

/-- `operator+=(const I&)` -/
def addAssignI (a : R) (b : Int) : R :=
  if a.num == 0 then ⟨b, a.den⟩
  else if b == 0 || a.isInfinite then a
  else if a.den == 1 then ⟨a.num + b, a.den⟩
  else ⟨a.num + b * a.den, a.den⟩

/-- `operator-=(const I&)` -/
def subAssignI (a : R) (b : Int) : R := addAssignI a (-b)

/-- `operator*=(const I&)` -/
def mulAssignI (a : R) (b : Int) : R :=
  if b == 1 then a
  else if eq a one then ⟨b, a.den⟩
  else if a.isInfinite then ⟨infSign a.num b, a.den⟩
  else
    let r : R := ⟨a.num * b, a.den⟩
    if a.den ≠ 1 then normalize r else r

/-- `operator/=(const I&)` -/
def divAssignI (a : R) (b : Int) : R := mulAssign a (recipI b)

/-- friend `operator+(const I&, const rational&)` etc. -/
def iAdd (a : Int) (b : R) : R := add (ofInt a) b
def iSub (a : Int) (b : R) : R := sub (ofInt a) b
def iMul (a : Int) (b : R) : R := mul (ofInt a) b
def iDiv (a : Int) (b : R) : R := div (ofInt a) b

/-- `to_string(const rational&)` -/
def toStr (r : R) : String :=
  if r.den == 0 then (if r.num > 0 then "+inf" else "-inf")
  else if r.den == 1 then toString r.num
  else toString r.num ++ "/" ++ toString r.den

/-! ### Well-formedness and denotation (the specification side) -/

/-- canonical form: non-negative denominator, reduced.  (`den = 0` then forces `num = ±1`,
    `num = 0` forces `den = 1`.) -/
def WF (r : R) : Prop := 0 ≤ r.den ∧ Int.gcd r.num r.den = 1

instance (r : R) : Decidable r.WF := by unfold WF; infer_instance

/-- where the C++ asserts (`inf + -inf`, `0 * inf`) the operation is undefined -/
def addDefined (a b : R) : Prop := ¬ (a.den = 0 ∧ b.den = 0 ∧ a.num ≠ b.num)
def mulDefined (a b : R) : Prop := ¬ (a.num = 0 ∧ b.den = 0) ∧ ¬ (a.den = 0 ∧ b.num = 0)
def mulIDefined (a : R) (b : Int) : Prop := ¬ (a.den = 0 ∧ b = 0)
/-- `x / y`: the reciprocal of `y` times `x` must be defined (`0/0`, `inf/inf` are not) -/
def divDefined (a b : R) : Prop := mulDefined a (recip b)
def divIDefined (a : R) (b : Int) : Prop := mulDefined a (recipI b)

instance (a b : R) : Decidable (addDefined a b) := by unfold addDefined; infer_instance
instance (a b : R) : Decidable (mulDefined a b) := by unfold mulDefined; infer_instance
instance (a : R) (b : Int) : Decidable (mulIDefined a b) := by unfold mulIDefined; infer_instance
instance (a b : R) : Decidable (divDefined a b) := by unfold divDefined; infer_instance
instance (a : R) (b : Int) : Decidable (divIDefined a b) := by unfold divIDefined; infer_instance

end R

/-- extended rationals: the values `rational` denotes -/
inductive ERat where
  | fin (q : Rat)
  | pinf
  | ninf
deriving DecidableEq, Repr, Inhabited

namespace ERat

def add : ERat → ERat → Option ERat
  | fin a, fin b => some (fin (a + b))
  | pinf, ninf => none
  | ninf, pinf => none
  | pinf, _ => some pinf
  | _, pinf => some pinf
  | ninf, _ => some ninf
  | _, ninf => some ninf

def neg : ERat → ERat
  | fin a => fin (-a)
  | pinf => ninf
  | ninf => pinf

/-- sign of an extended rational as -1/0/1 -/
def sgn : ERat → Int
  | fin a => if a > 0 then 1 else if a < 0 then -1 else 0
  | pinf => 1
  | ninf => -1

def mul : ERat → ERat → Option ERat
  | fin a, fin b => some (fin (a * b))
  | x, y =>
    -- at least one infinite
    let s := sgn x * sgn y
    if s = 0 then none else if s > 0 then some pinf else some ninf

/-- reciprocal in the convention of the code: `1/0 = +inf`, `1/±inf = 0` -/
def inv : ERat → ERat
  | fin a => if a = 0 then pinf else fin a⁻¹
  | pinf => fin 0
  | ninf => fin 0

def le : ERat → ERat → Bool
  | ninf, _ => true
  | _, pinf => true
  | fin a, fin b => a ≤ b
  | _, _ => false

def lt (a b : ERat) : Bool := !(le b a)

end ERat

/-- the value a finite `rational` denotes -/
def R.toRat (r : R) : Rat := mkRat r.num r.den.toNat

/-- the value a (canonical) `rational` denotes -/
def R.toE (r : R) : ERat :=
  if r.den = 0 then (if r.num > 0 then .pinf else .ninf)
  else .fin r.toRat

end Oratio
