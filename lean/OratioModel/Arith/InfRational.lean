/-
Model of `smt::inf_rational` (/repo/smt/arith/inf_rational.h): a rational plus an
infinitesimal part, `rat + inf·ε`.  One function per overload.
-/
import OratioModel.Arith.Rational

namespace Oratio

structure IR where
  rat : R
  inf : R
deriving DecidableEq, Repr, Inhabited

namespace IR
open R

def ofInt (n : Int) : IR := ⟨R.ofInt n, R.zero⟩
def ofR (r : R) : IR := ⟨r, R.zero⟩
def ofRI (r : R) (i : Int) : IR := ⟨r, R.ofInt i⟩

def isZero (a : IR) : Bool := a.rat.isZero && a.inf.isZero
def isPositive (a : IR) : Bool := a.rat.isPositive || (a.rat.isZero && a.inf.isPositive)
def isPositiveOrZero (a : IR) : Bool := a.rat.isPositive || (a.rat.isZero && a.inf.isPositiveOrZero)
def isNegative (a : IR) : Bool := a.rat.isNegative || (a.rat.isZero && a.inf.isNegative)
def isNegativeOrZero (a : IR) : Bool := a.rat.isNegative || (a.rat.isZero && a.inf.isNegativeOrZero)
def isInfinite (a : IR) : Bool := a.rat.isInfinite

/-! comparisons inf_rational × inf_rational -/
def ne (a b : IR) : Bool := R.ne a.rat b.rat || R.ne a.inf b.inf
def lt (a b : IR) : Bool := R.lt a.rat b.rat || (R.eq a.rat b.rat && R.lt a.inf b.inf)
def le (a b : IR) : Bool := R.lt a.rat b.rat || (R.eq a.rat b.rat && R.le a.inf b.inf)
def eq (a b : IR) : Bool := R.eq a.rat b.rat && R.eq a.inf b.inf
def ge (a b : IR) : Bool := R.gt a.rat b.rat || (R.eq a.rat b.rat && R.ge a.inf b.inf)
def gt (a b : IR) : Bool := R.gt a.rat b.rat || (R.eq a.rat b.rat && R.gt a.inf b.inf)

/-! comparisons inf_rational × rational -/
def neR (a : IR) (b : R) : Bool := R.ne a.rat b || !a.inf.isZero
def ltR (a : IR) (b : R) : Bool := R.lt a.rat b || (R.eq a.rat b && a.inf.isNegative)
def leR (a : IR) (b : R) : Bool := R.lt a.rat b || (R.eq a.rat b && a.inf.isNegativeOrZero)
def eqR (a : IR) (b : R) : Bool := R.eq a.rat b && a.inf.isZero
def geR (a : IR) (b : R) : Bool := R.gt a.rat b || (R.eq a.rat b && a.inf.isPositiveOrZero)
def gtR (a : IR) (b : R) : Bool := R.gt a.rat b || (R.eq a.rat b && a.inf.isPositive)

/-! comparisons inf_rational × I -/
def neI (a : IR) (b : Int) : Bool := R.neI a.rat b || !a.inf.isZero
def ltI (a : IR) (b : Int) : Bool := R.ltI a.rat b || (R.eqI a.rat b && a.inf.isNegative)
def leI (a : IR) (b : Int) : Bool := R.ltI a.rat b || (R.eqI a.rat b && a.inf.isNegativeOrZero)
def eqI (a : IR) (b : Int) : Bool := R.eqI a.rat b && a.inf.isZero
def geI (a : IR) (b : Int) : Bool := R.gtI a.rat b || (R.eqI a.rat b && a.inf.isPositiveOrZero)
def gtI (a : IR) (b : Int) : Bool := R.gtI a.rat b || (R.eqI a.rat b && a.inf.isPositive)

/-! arithmetic -/
def add (a b : IR) : IR := ⟨R.add a.rat b.rat, R.add a.inf b.inf⟩
def sub (a b : IR) : IR := ⟨R.sub a.rat b.rat, R.sub a.inf b.inf⟩
def addR (a : IR) (b : R) : IR := ⟨R.add a.rat b, a.inf⟩
def subR (a : IR) (b : R) : IR := ⟨R.sub a.rat b, a.inf⟩
def mulR (a : IR) (b : R) : IR := ⟨R.mul a.rat b, R.mul a.inf b⟩
def divR (a : IR) (b : R) : IR := ⟨R.div a.rat b, R.div a.inf b⟩
def addI (a : IR) (b : Int) : IR := ⟨R.addI a.rat b, a.inf⟩
def subI (a : IR) (b : Int) : IR := ⟨R.subI a.rat b, a.inf⟩
def mulI (a : IR) (b : Int) : IR := ⟨R.mulI a.rat b, R.mulI a.inf b⟩
def divI (a : IR) (b : Int) : IR := ⟨R.divI a.rat b, R.divI a.inf b⟩

def addAssign (a b : IR) : IR := ⟨R.addAssign a.rat b.rat, R.addAssign a.inf b.inf⟩
def subAssign (a b : IR) : IR := ⟨R.subAssign a.rat b.rat, R.subAssign a.inf b.inf⟩
def addAssignR (a : IR) (b : R) : IR := ⟨R.addAssign a.rat b, a.inf⟩
def subAssignR (a : IR) (b : R) : IR := ⟨R.subAssign a.rat b, a.inf⟩
def mulAssignR (a : IR) (b : R) : IR := ⟨R.mulAssign a.rat b, R.mulAssign a.inf b⟩
def divAssignR (a : IR) (b : R) : IR := ⟨R.divAssign a.rat b, R.divAssign a.inf b⟩
def addAssignI (a : IR) (b : Int) : IR := ⟨R.addAssignI a.rat b, a.inf⟩
def subAssignI (a : IR) (b : Int) : IR := ⟨R.subAssignI a.rat b, a.inf⟩
def mulAssignI (a : IR) (b : Int) : IR := ⟨R.mulAssignI a.rat b, R.mulAssignI a.inf b⟩
def divAssignI (a : IR) (b : Int) : IR := ⟨R.divAssignI a.rat b, R.divAssignI a.inf b⟩

def neg (a : IR) : IR := ⟨R.neg a.rat, R.neg a.inf⟩

/-! friends with the scalar on the left -/
def rAdd (a : R) (b : IR) : IR := ⟨R.add a b.rat, b.inf⟩
def rSub (a : R) (b : IR) : IR := ⟨R.sub a b.rat, R.neg b.inf⟩
def rMul (a : R) (b : IR) : IR := ⟨R.mul a b.rat, R.mul a b.inf⟩
/-- first-order quotient `a / (r + i·ε) = a/r - (a·i / r²)·ε` -/
def rDiv (a : R) (b : IR) : IR := ⟨R.div a b.rat, R.neg (R.div (R.mul a b.inf) (R.mul b.rat b.rat))⟩
def iAdd (a : Int) (b : IR) : IR := ⟨R.iAdd a b.rat, b.inf⟩
def iSub (a : Int) (b : IR) : IR := ⟨R.iSub a b.rat, R.neg b.inf⟩
def iMul (a : Int) (b : IR) : IR := ⟨R.iMul a b.rat, R.iMul a b.inf⟩
def iDiv (a : Int) (b : IR) : IR := ⟨R.iDiv a b.rat, R.neg (R.div (R.iMul a b.inf) (R.mul b.rat b.rat))⟩

def WF (a : IR) : Prop := a.rat.WF ∧ a.inf.WF
instance (a : IR) : Decidable a.WF := by unfold WF; infer_instance

end IR
end Oratio
