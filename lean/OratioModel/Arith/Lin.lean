/-
Model of `smt::lin` (/repo/smt/arith/lin.{h,cpp}): a linear expression
`Σ cᵢ·xᵢ + k` stored as `std::map<var, rational>` (here: an association list with strictly
increasing keys, which is the iteration order of the map) and a known term.
-/
import OratioModel.Arith.Rational

namespace Oratio

structure Lin where
  vars : List (Nat × R)
  known : R
deriving DecidableEq, Repr, Inhabited

namespace Lin

/-- `std::map::find` -/
def find (m : List (Nat × R)) (v : Nat) : Option R :=
  match m with
  | [] => none
  | (k, c) :: t => if k == v then some c else find t v

/-- `std::map::insert/emplace` of a key (keeps an existing entry: neither `insert` nor
    `emplace` overwrites), keys kept increasing -/
def insert (m : List (Nat × R)) (v : Nat) (c : R) : List (Nat × R) :=
  match m with
  | [] => [(v, c)]
  | (k, d) :: t =>
    if v < k then (v, c) :: (k, d) :: t
    else if v == k then (k, d) :: t
    else (k, d) :: insert t v c

/-- assignment through an iterator / `operator[]`: overwrite the entry of an existing key -/
def set (m : List (Nat × R)) (v : Nat) (c : R) : List (Nat × R) :=
  match m with
  | [] => []
  | (k, d) :: t => if k == v then (k, c) :: t else (k, d) :: set t v c

/-- `std::map::erase` -/
def erase (m : List (Nat × R)) (v : Nat) : List (Nat × R) :=
  match m with
  | [] => []
  | (k, d) :: t => if k == v then t else (k, d) :: erase t v

/-- `lin()` -/
def empty : Lin := ⟨[], R.zero⟩
/-- `lin(const rational&)` -/
def const (k : R) : Lin := ⟨[], k⟩
/-- `lin(var, const rational&)` -/
def var (v : Nat) (c : R) : Lin := ⟨[(v, c)], R.zero⟩

/-- the loop body shared by `operator+` and `operator+=` -/
def addTerm (m : List (Nat × R)) (t : Nat × R) : List (Nat × R) :=
  match find m t.1 with
  | none => insert m t.1 t.2
  | some c =>
    let c' := R.addAssign c t.2
    if R.eq c' R.zero then erase m t.1 else set m t.1 c'

/-- the loop body shared by `operator-` and `operator-=` -/
def subTerm (m : List (Nat × R)) (t : Nat × R) : List (Nat × R) :=
  match find m t.1 with
  | none => insert m t.1 (R.neg t.2)
  | some c =>
    let c' := R.subAssign c t.2
    if R.eq c' R.zero then erase m t.1 else set m t.1 c'

/-- `operator+(const lin&)` -/
def add (l r : Lin) : Lin := ⟨r.vars.foldl addTerm l.vars, R.addAssign l.known r.known⟩
/-- `operator+(const rational&)` -/
def addR (l : Lin) (r : R) : Lin := ⟨l.vars, R.addAssign l.known r⟩
/-- friend `operator+(const rational&, const lin&)` -/
def rAdd (l : R) (r : Lin) : Lin := ⟨r.vars, R.addAssign r.known l⟩
/-- `operator-(const lin&)` -/
def sub (l r : Lin) : Lin := ⟨r.vars.foldl subTerm l.vars, R.subAssign l.known r.known⟩
/-- `operator-(const rational&)` -/
def subR (l : Lin) (r : R) : Lin := ⟨l.vars, R.subAssign l.known r⟩
/-- `operator-()` -/
def neg (l : Lin) : Lin := ⟨l.vars.foldl (fun m t => insert m t.1 (R.neg t.2)) [], R.neg l.known⟩
/-- friend `operator-(const rational&, const lin&)` -/
def rSub (l : R) (r : Lin) : Lin := let n := neg r; ⟨n.vars, R.addAssign n.known l⟩
/-- `operator*(const rational&)` (zero coefficients stay in the map) -/
def mulR (l : Lin) (r : R) : Lin := ⟨l.vars.map (fun t => (t.1, R.mulAssign t.2 r)), R.mulAssign l.known r⟩
/-- friend `operator*(const rational&, const lin&)` -/
def rMul (l : R) (r : Lin) : Lin := ⟨r.vars.map (fun t => (t.1, R.mulAssign t.2 l)), R.mulAssign r.known l⟩
/-- `operator/(const rational&)` -/
def divR (l : Lin) (r : R) : Lin := ⟨l.vars.map (fun t => (t.1, R.divAssign t.2 r)), R.divAssign l.known r⟩
/-- `operator+=(const lin&)` -/
def addAssign (l r : Lin) : Lin := ⟨r.vars.foldl addTerm l.vars, R.addAssign l.known r.known⟩
/-- `operator+=(const rational&)` -/
def addAssignR (l : Lin) (r : R) : Lin := ⟨l.vars, R.addAssign l.known r⟩
/-- `operator-=(const lin&)` -/
def subAssign (l r : Lin) : Lin := ⟨r.vars.foldl subTerm l.vars, R.subAssign l.known r.known⟩
/-- `operator-=(const rational&)` -/
def subAssignR (l : Lin) (r : R) : Lin := ⟨l.vars, R.subAssign l.known r⟩
/-- `operator*=(const rational&)` (`right` finite; zero clears the expression) -/
def mulAssignR (l : Lin) (r : R) : Lin :=
  if R.eq r R.zero then ⟨[], R.zero⟩
  else ⟨l.vars.map (fun t => (t.1, R.mulAssign t.2 r)), R.mulAssign l.known r⟩
/-- `operator/=(const rational&)` (`right ≠ 0`; an infinite divisor clears the variables) -/
def divAssignR (l : Lin) (r : R) : Lin :=
  if r.isInfinite then ⟨[], R.divAssign R.zero r⟩
  else ⟨l.vars.map (fun t => (t.1, R.divAssign t.2 r)), R.divAssign l.known r⟩

/-- `to_string(const lin&)` -/
def toStr (l : Lin) : String :=
  match l.vars with
  | [] => R.toStr l.known
  | (v0, c0) :: rest =>
    let first :=
      if R.eq c0 R.one then "x" ++ toString v0
      else if R.eq c0 (R.neg R.one) then "-x" ++ toString v0
      else R.toStr c0 ++ "*x" ++ toString v0
    let s := rest.foldl (fun s (t : Nat × R) =>
      if R.eq t.2 R.one then s ++ " + x" ++ toString t.1
      else if R.eq t.2 (R.neg R.one) then s ++ " - x" ++ toString t.1
      else if t.2.isPositive then s ++ " + " ++ R.toStr t.2 ++ "*x" ++ toString t.1
      else s ++ " - " ++ R.toStr (R.neg t.2) ++ "*x" ++ toString t.1) first
    let s := if l.known.isPositive then s ++ " + " ++ R.toStr l.known else s
    if l.known.isNegative then s ++ " - " ++ R.toStr (R.neg l.known) else s

/-! ### specification side -/

/-- keys strictly increasing (the `std::map` invariant) -/
def SortedKeys : List (Nat × R) → Prop
  | [] => True
  | [_] => True
  | (a, _) :: (b, c) :: t => a < b ∧ SortedKeys ((b, c) :: t)

/-- canonical: sorted keys, every coefficient and the known term canonical and finite -/
def WF (l : Lin) : Prop :=
  SortedKeys l.vars ∧ (∀ t ∈ l.vars, t.2.WF ∧ t.2.den ≠ 0) ∧ l.known.WF ∧ l.known.den ≠ 0

/-- coefficient of a variable (0 when absent) -/
def coeff (l : Lin) (v : Nat) : R := (find l.vars v).getD R.zero

end Lin
end Oratio
