/-
Models of the pulse sweeps of the timeline types
(/repo/solver/types/state_variable.cpp, reusable_resource.cpp):

* `svPeaks`     – the detection loop of `state_variable::get_current_incs`: at every pulse, insert the
                  atoms starting there, erase the atoms ending there, report every pair present;
* `svTimeline`  – `state_variable::extract_timelines`: the segments between consecutive pulses
                  (origin and horizon included) with the atoms covering them;
* `rrPeaks`     – the peak test of `reusable_resource::get_current_incs` (usage > capacity);
* `rrTimeline`  – `reusable_resource::extract_timelines` with the usage of every segment.

Times and amounts are ε-rationals `(q, e)` (value `q + e·ε`) ordered lexicographically.
-/
namespace Oratio.Sweep

abbrev Time := Rat × Rat

def tlt (a b : Time) : Bool := a.1 < b.1 || (a.1 == b.1 && a.2 < b.2)
def tle (a b : Time) : Bool := !tlt b a
def tadd (a b : Time) : Time := (a.1 + b.1, a.2 + b.2)

structure TAtom where
  id : Nat
  start : Time
  stop : Time
  amount : Time := (0, 0)
deriving Repr, DecidableEq

/-- sorted insertion without duplicates (`std::set<inf_rational>::insert`) -/
def insertPulse (p : Time) : List Time → List Time
  | [] => [p]
  | q :: r => if tlt p q then p :: q :: r else if p == q then q :: r else q :: insertPulse p r

def pulsesOf (as : List TAtom) (extra : List Time) : List Time :=
  (as.foldl (fun ps a => insertPulse a.stop (insertPulse a.start ps)) []) |> fun ps => extra.foldl (fun ps p => insertPulse p ps) ps

/-- the set update performed at pulse `p`: insert the starters, then erase the enders -/
def stepSet (as : List TAtom) (cur : List Nat) (p : Time) : List Nat :=
  let started := as.filter (fun a => a.start == p) |>.map (·.id)
  let cur := started.foldl (fun c i => if c.contains i then c else c ++ [i]) cur
  cur.filter (fun i => !(as.any (fun a => a.id == i && a.stop == p)))

def pairsOf : List Nat → List (Nat × Nat)
  | [] => []
  | a :: t => t.map (fun b => (a, b)) ++ pairsOf t

/-- the peaks found by the state-variable sweep: for every pulse, the pairs of atoms present -/
def svPeaks (as : List TAtom) : List (Nat × Nat) :=
  let ps := pulsesOf as []
  (ps.foldl (fun (st : List Nat × List (Nat × Nat)) p =>
    let cur := stepSet as st.1 p
    (cur, if cur.length > 1 then st.2 ++ pairsOf cur else st.2)) ([], [])).2

structure Segment where
  lo : Time
  hi : Time
  atoms : List Nat
  usage : Time := (0, 0)
deriving Repr, DecidableEq

/-- `extract_timelines` of a state variable -/
def svTimeline (as : List TAtom) (origin horizon : Time) : List Segment :=
  match pulsesOf as [origin, horizon] with
  | [] => []
  | p0 :: rest =>
    let cur0 := stepSet as [] p0
    (rest.foldl (fun (st : Time × List Nat × List Segment) p =>
      let (prev, cur, segs) := st
      (p, stepSet as cur p, segs ++ [{ lo := prev, hi := p, atoms := cur }])) (p0, cur0, [])).2.2

def usageOf (as : List TAtom) (cur : List Nat) : Time :=
  cur.foldl (fun u i => match as.find? (fun a => a.id == i) with
    | some a => tadd u a.amount
    | none => u) (0, 0)

/-- the pulses at which the reusable-resource sweep sees a usage above the capacity -/
def rrPeaks (as : List TAtom) (capacity : Time) : List Time :=
  let ps := pulsesOf as []
  (ps.foldl (fun (st : List Nat × List Time) p =>
    let cur := stepSet as st.1 p
    (cur, if tlt capacity (usageOf as cur) then st.2 ++ [p] else st.2)) ([], [])).2

/-- `extract_timelines` of a reusable resource -/
def rrTimeline (as : List TAtom) (origin horizon : Time) : List Segment :=
  match pulsesOf as [origin, horizon] with
  | [] => []
  | p0 :: rest =>
    let cur0 := stepSet as [] p0
    (rest.foldl (fun (st : Time × List Nat × List Segment) p =>
      let (prev, cur, segs) := st
      (p, stepSet as cur p, segs ++ [{ lo := prev, hi := p, atoms := cur, usage := usageOf as cur }])) (p0, cur0, [])).2.2

/-! ### specification side -/

/-- `[start, stop)` of the two atoms intersect -/
def overlaps (a b : TAtom) : Bool := tlt (if tlt a.start b.start then b.start else a.start) (if tlt a.stop b.stop then a.stop else b.stop)

/-- atom `a` covers the instant `t` -/
def covers (a : TAtom) (t : Time) : Bool := tle a.start t && tlt t a.stop

end Oratio.Sweep
