/-
The clauses the planner posts around flaws and resolvers
(/repo/solver/flaw.cpp, solver.cpp, flaws/atom_flaw.cpp):

* `flaw::init`          phi := conjunction of the causes' rho;  position(flaw) ≤ position(cause.effect) − 1
* `flaw::add_resolver`  rho → phi
* `flaw::expand`        phi → rho₁ ∨ … ∨ rhoₙ   (no resolver: ¬phi; exclusive: pairwise ¬rhoᵢ ∨ ¬rhoⱼ)
* `activate_*::apply`   rho → sigma(atom)
* `unify_atom::apply`   rho → activate(target),  rho → ¬sigma(atom),  rho → sigma(target),  rho → eq
* `new_causal_link`     rho → phi(precondition);  rho → position(precondition) ≤ position(rho.effect)
-/
import OratioModel.Sat.Basic

namespace Oratio.Flaw
open Oratio

def pairwise : List Lit → Cnf
  | [] => []
  | r :: rs => rs.map (fun q => [r.neg, q.neg]) ++ pairwise rs

/-- `flaw::expand` together with the `add_resolver` clauses of its resolvers -/
def expandClauses (phi : Lit) (rhos : List Lit) (exclusive : Bool) : Cnf :=
  rhos.map (fun r => [r.neg, phi]) ++
  (if rhos.isEmpty then [[phi.neg]] else [phi.neg :: rhos] ++ (if exclusive then pairwise rhos else []))

def activateClauses (rho sigma : Lit) : Cnf := [[rho.neg, sigma]]

/-- `unify_atom::apply` (`actT`: the activate resolver of the target) and its causal link to the target's flaw -/
def unifyClauses (rho sigmaA sigmaT eq actT phiT : Lit) : Cnf :=
  [[actT, rho.neg], [rho.neg, sigmaA.neg], [rho.neg, sigmaT], [rho.neg, eq], [rho.neg, phiT]]

def causalClauses (rho phiPre : Lit) : Cnf := [[rho.neg, phiPre]]

/-- the support relation among atoms of a plan: `sub p c` - `c` is a sub-goal created by the applied rule of `p`;
    `uni a t` - `a` is unified with `t` -/
inductive Edge where
  | sub (p c : Nat)
  | uni (a t : Nat)
deriving DecidableEq, Repr

def Edge.src : Edge → Nat | .sub p _ => p | .uni a _ => a
def Edge.dst : Edge → Nat | .sub _ c => c | .uni _ t => t

/-- consecutive edges form a walk from `a` to `b` -/
def Walk : Nat → List Edge → Nat → Prop
  | a, [], b => a = b
  | a, e :: es, b => e.src = a ∧ Walk e.dst es b

end Oratio.Flaw
