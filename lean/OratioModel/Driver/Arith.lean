/-
Model driver for the arithmetic layer (property C15): executes the Lean models of
`rational`, `inf_rational` and `lin` on the same operation lines as /verif/harness/arith.cpp.
-/
import OratioModel.Driver.Proto

namespace Oratio.Driver.Arith
open Oratio Oratio.Driver

def rr (f : R → R → String) : P String := do let a ← rat; let b ← rat; pure (f a b)
def ri (f : R → Int → String) : P String := do let a ← rat; let b ← int; pure (f a b)
def ir (f : Int → R → String) : P String := do let a ← int; let b ← rat; pure (f a b)
def r1 (f : R → String) : P String := do let a ← rat; pure (f a)
def xx (f : IR → IR → String) : P String := do let a ← irat; let b ← irat; pure (f a b)
def xr (f : IR → R → String) : P String := do let a ← irat; let b ← rat; pure (f a b)
def xi (f : IR → Int → String) : P String := do let a ← irat; let b ← int; pure (f a b)
def rx (f : R → IR → String) : P String := do let a ← rat; let b ← irat; pure (f a b)
def ix (f : Int → IR → String) : P String := do let a ← int; let b ← irat; pure (f a b)
def x1 (f : IR → String) : P String := do let a ← irat; pure (f a)
def ll (f : Lin → Lin → String) : P String := do let a ← linexp; let b ← linexp; pure (f a b)
def lr (f : Lin → R → String) : P String := do let a ← linexp; let b ← rat; pure (f a b)
def rl (f : R → Lin → String) : P String := do let a ← rat; let b ← linexp; pure (f a b)
def l1 (f : Lin → String) : P String := do let a ← linexp; pure (f a)

/-- compound assignment on `lin`: the updated object and the returned copy coincide -/
def both (l : Lin) : String := showLin l ++ " ; " ++ showLin l

/-- `to_string(inf_rational)` -/
def irToStr (a : IR) : String :=
  if a.rat.isInfinite || R.eq a.inf R.zero then R.toStr a.rat
  else
    let c := if R.ne a.rat R.zero then R.toStr a.rat else ""
    if R.eq a.inf R.one then (if c.isEmpty then "ε" else c ++ " + ε")
    else if R.eq a.inf (R.neg R.one) then (if c.isEmpty then "-ε" else c ++ " - ε")
    else if a.inf.isNegative then (if c.isEmpty then R.toStr a.inf ++ "ε" else c ++ " " ++ R.toStr a.inf ++ "ε")
    else if c.isEmpty then R.toStr a.inf ++ "ε"
    else c ++ " +" ++ R.toStr a.inf ++ "ε"

def dispatch (op : String) : Option (P String) :=
  match op with
  | "R.mk2" => some do let n ← int; let d ← int; pure (showR (R.mk2 n d))
  | "R.ofInt" => some do let n ← int; pure (showR (R.ofInt n))
  | "R.zero" => some (pure (showR R.zero))
  | "R.consts" => some (pure (showR R.zero ++ " " ++ showR R.one ++ " " ++ showR R.pinf ++ " " ++ showR R.ninf))
  | "R.ne" => some (rr fun a b => showB (R.ne a b))
  | "R.lt" => some (rr fun a b => showB (R.lt a b))
  | "R.le" => some (rr fun a b => showB (R.le a b))
  | "R.eq" => some (rr fun a b => showB (R.eq a b))
  | "R.ge" => some (rr fun a b => showB (R.ge a b))
  | "R.gt" => some (rr fun a b => showB (R.gt a b))
  | "R.neI" => some (ri fun a b => showB (R.neI a b))
  | "R.ltI" => some (ri fun a b => showB (R.ltI a b))
  | "R.leI" => some (ri fun a b => showB (R.leI a b))
  | "R.eqI" => some (ri fun a b => showB (R.eqI a b))
  | "R.geI" => some (ri fun a b => showB (R.geI a b))
  | "R.gtI" => some (ri fun a b => showB (R.gtI a b))
  | "R.add" => some (rr fun a b => showR (R.add a b))
  | "R.sub" => some (rr fun a b => showR (R.sub a b))
  | "R.mul" => some (rr fun a b => showR (R.mul a b))
  | "R.div" => some (rr fun a b => showR (R.div a b))
  | "R.addI" => some (ri fun a b => showR (R.addI a b))
  | "R.subI" => some (ri fun a b => showR (R.subI a b))
  | "R.mulI" => some (ri fun a b => showR (R.mulI a b))
  | "R.divI" => some (ri fun a b => showR (R.divI a b))
  | "R.addAssign" => some (rr fun a b => showR (R.addAssign a b))
  | "R.subAssign" => some (rr fun a b => showR (R.subAssign a b))
  | "R.mulAssign" => some (rr fun a b => showR (R.mulAssign a b))
  | "R.divAssign" => some (rr fun a b => showR (R.divAssign a b))
  | "R.addAssignI" => some (ri fun a b => showR (R.addAssignI a b))
  | "R.subAssignI" => some (ri fun a b => showR (R.subAssignI a b))
  | "R.mulAssignI" => some (ri fun a b => showR (R.mulAssignI a b))
  | "R.divAssignI" => some (ri fun a b => showR (R.divAssignI a b))
  | "R.iAdd" => some (ir fun a b => showR (R.iAdd a b))
  | "R.iSub" => some (ir fun a b => showR (R.iSub a b))
  | "R.iMul" => some (ir fun a b => showR (R.iMul a b))
  | "R.iDiv" => some (ir fun a b => showR (R.iDiv a b))
  | "R.neg" => some (r1 fun a => showR (R.neg a))
  | "R.toStr" => some (r1 fun a => showS (R.toStr a))
  | "R.isInteger" => some (r1 fun a => showB a.isInteger)
  | "R.isZero" => some (r1 fun a => showB a.isZero)
  | "R.isPositive" => some (r1 fun a => showB a.isPositive)
  | "R.isPositiveOrZero" => some (r1 fun a => showB a.isPositiveOrZero)
  | "R.isNegative" => some (r1 fun a => showB a.isNegative)
  | "R.isNegativeOrZero" => some (r1 fun a => showB a.isNegativeOrZero)
  | "R.isInfinite" => some (r1 fun a => showB a.isInfinite)
  | "R.isPositiveInfinite" => some (r1 fun a => showB a.isPositiveInfinite)
  | "R.isNegativeInfinite" => some (r1 fun a => showB a.isNegativeInfinite)
  | "IR.ofInt" => some do let n ← int; pure (showIR (IR.ofInt n))
  | "IR.ofR" => some do let r ← rat; pure (showIR (IR.ofR r))
  | "IR.ofRI" => some do let r ← rat; let i ← int; pure (showIR (IR.ofRI r i))
  | "IR.mk2" => some do let n ← int; let d ← int; pure (showIR (IR.ofR (R.mk2 n d)))
  | "IR.zero" => some (pure (showIR (IR.ofR R.zero)))
  | "IR.ne" => some (xx fun a b => showB (IR.ne a b))
  | "IR.lt" => some (xx fun a b => showB (IR.lt a b))
  | "IR.le" => some (xx fun a b => showB (IR.le a b))
  | "IR.eq" => some (xx fun a b => showB (IR.eq a b))
  | "IR.ge" => some (xx fun a b => showB (IR.ge a b))
  | "IR.gt" => some (xx fun a b => showB (IR.gt a b))
  | "IR.neR" => some (xr fun a b => showB (IR.neR a b))
  | "IR.ltR" => some (xr fun a b => showB (IR.ltR a b))
  | "IR.leR" => some (xr fun a b => showB (IR.leR a b))
  | "IR.eqR" => some (xr fun a b => showB (IR.eqR a b))
  | "IR.geR" => some (xr fun a b => showB (IR.geR a b))
  | "IR.gtR" => some (xr fun a b => showB (IR.gtR a b))
  | "IR.neI" => some (xi fun a b => showB (IR.neI a b))
  | "IR.ltI" => some (xi fun a b => showB (IR.ltI a b))
  | "IR.leI" => some (xi fun a b => showB (IR.leI a b))
  | "IR.eqI" => some (xi fun a b => showB (IR.eqI a b))
  | "IR.geI" => some (xi fun a b => showB (IR.geI a b))
  | "IR.gtI" => some (xi fun a b => showB (IR.gtI a b))
  | "IR.add" => some (xx fun a b => showIR (IR.add a b))
  | "IR.sub" => some (xx fun a b => showIR (IR.sub a b))
  | "IR.addR" => some (xr fun a b => showIR (IR.addR a b))
  | "IR.subR" => some (xr fun a b => showIR (IR.subR a b))
  | "IR.mulR" => some (xr fun a b => showIR (IR.mulR a b))
  | "IR.divR" => some (xr fun a b => showIR (IR.divR a b))
  | "IR.addI" => some (xi fun a b => showIR (IR.addI a b))
  | "IR.subI" => some (xi fun a b => showIR (IR.subI a b))
  | "IR.mulI" => some (xi fun a b => showIR (IR.mulI a b))
  | "IR.divI" => some (xi fun a b => showIR (IR.divI a b))
  | "IR.addAssign" => some (xx fun a b => showIR (IR.addAssign a b))
  | "IR.subAssign" => some (xx fun a b => showIR (IR.subAssign a b))
  | "IR.addAssignR" => some (xr fun a b => showIR (IR.addAssignR a b))
  | "IR.subAssignR" => some (xr fun a b => showIR (IR.subAssignR a b))
  | "IR.mulAssignR" => some (xr fun a b => showIR (IR.mulAssignR a b))
  | "IR.divAssignR" => some (xr fun a b => showIR (IR.divAssignR a b))
  | "IR.addAssignI" => some (xi fun a b => showIR (IR.addAssignI a b))
  | "IR.subAssignI" => some (xi fun a b => showIR (IR.subAssignI a b))
  | "IR.mulAssignI" => some (xi fun a b => showIR (IR.mulAssignI a b))
  | "IR.divAssignI" => some (xi fun a b => showIR (IR.divAssignI a b))
  | "IR.neg" => some (x1 fun a => showIR (IR.neg a))
  | "IR.rAdd" => some (rx fun a b => showIR (IR.rAdd a b))
  | "IR.rSub" => some (rx fun a b => showIR (IR.rSub a b))
  | "IR.rMul" => some (rx fun a b => showIR (IR.rMul a b))
  | "IR.rDiv" => some (rx fun a b => showIR (IR.rDiv a b))
  | "IR.iAdd" => some (ix fun a b => showIR (IR.iAdd a b))
  | "IR.iSub" => some (ix fun a b => showIR (IR.iSub a b))
  | "IR.iMul" => some (ix fun a b => showIR (IR.iMul a b))
  | "IR.iDiv" => some (ix fun a b => showIR (IR.iDiv a b))
  | "IR.isZero" => some (x1 fun a => showB a.isZero)
  | "IR.isPositive" => some (x1 fun a => showB a.isPositive)
  | "IR.isPositiveOrZero" => some (x1 fun a => showB a.isPositiveOrZero)
  | "IR.isNegative" => some (x1 fun a => showB a.isNegative)
  | "IR.isNegativeOrZero" => some (x1 fun a => showB a.isNegativeOrZero)
  | "IR.isInfinite" => some (x1 fun a => showB a.isInfinite)
  | "IR.toStr" => some (x1 fun a => showS (irToStr a))
  | "Lin.empty" => some (pure (showLin Lin.empty))
  | "Lin.const" => some do let r ← rat; pure (showLin (Lin.const r))
  | "Lin.var" => some do let v ← nat; let r ← rat; pure (showLin (Lin.var v r))
  | "Lin.add" => some (ll fun a b => showLin (Lin.add a b))
  | "Lin.addR" => some (lr fun a b => showLin (Lin.addR a b))
  | "Lin.rAdd" => some (rl fun a b => showLin (Lin.rAdd a b))
  | "Lin.sub" => some (ll fun a b => showLin (Lin.sub a b))
  | "Lin.subR" => some (lr fun a b => showLin (Lin.subR a b))
  | "Lin.rSub" => some (rl fun a b => showLin (Lin.rSub a b))
  | "Lin.mulR" => some (lr fun a b => showLin (Lin.mulR a b))
  | "Lin.rMul" => some (rl fun a b => showLin (Lin.rMul a b))
  | "Lin.divR" => some (lr fun a b => showLin (Lin.divR a b))
  | "Lin.addAssign" => some (ll fun a b => both (Lin.addAssign a b))
  | "Lin.addAssignR" => some (lr fun a b => both (Lin.addAssignR a b))
  | "Lin.subAssign" => some (ll fun a b => both (Lin.subAssign a b))
  | "Lin.subAssignR" => some (lr fun a b => both (Lin.subAssignR a b))
  | "Lin.mulAssignR" => some (lr fun a b => both (Lin.mulAssignR a b))
  | "Lin.divAssignR" => some (lr fun a b => both (Lin.divAssignR a b))
  | "Lin.neg" => some (l1 fun a => showLin (Lin.neg a))
  | "Lin.toStr" => some (l1 fun a => showS (Lin.toStr a))
  | _ => none

/-- one line in, one line out -/
def step (line : String) : String :=
  match tokens line with
  | [] => ""
  | op :: args =>
    match dispatch op with
    | none => "bad-op"
    | some p => match p.run args with
      | .ok (s, _) => s
      | .error e => e

end Oratio.Driver.Arith
