/-
Model driver for the RIDDLE lexer (properties C16, C18); twin of /verif/harness/riddle_lex.cpp.
-/
import OratioModel.Driver.Proto
import OratioModel.Riddle.Lexer

namespace Oratio.Driver.RiddleD
open Oratio Oratio.Driver Oratio.Riddle

def hexVal (c : Char) : Option Nat :=
  if '0' ≤ c ∧ c ≤ '9' then some (c.toNat - '0'.toNat)
  else if 'a' ≤ c ∧ c ≤ 'f' then some (c.toNat - 'a'.toNat + 10)
  else if 'A' ≤ c ∧ c ≤ 'F' then some (c.toNat - 'A'.toNat + 10)
  else none

/-- hex string → bytes as `unsigned char` values 0..255 (`-1` is the end of input only) -/
def unhex : List Char → Option (List Int)
  | [] => some []
  | [_] => some []
  | a :: b :: r => match hexVal a, hexVal b, unhex r with
    | some x, some y, some t => some (((x * 16 + y : Nat) : Int) :: t)
    | _, _, _ => none

def hexDigit (n : Nat) : Char := if n < 10 then Char.ofNat ('0'.toNat + n) else Char.ofNat ('a'.toNat + n - 10)

def hex (l : List Int) : String :=
  String.ofList (l.flatMap (fun c => let v := (if c < 0 then c + 256 else c).toNat; [hexDigit (v / 16), hexDigit (v % 16)]))

def symName : Sym → String
  | .BOOL => "BOOL" | .INT => "INT" | .REAL => "REAL" | .TP => "TP" | .STRING => "STRING" | .TYPEDEF => "TYPEDEF"
  | .ENUM => "ENUM" | .CLASS => "CLASS" | .GOAL => "GOAL" | .FACT => "FACT" | .PREDICATE => "PREDICATE" | .NEW => "NEW"
  | .OR => "OR" | .THIS => "THIS" | .VOID => "VOID" | .RETURN => "RETURN" | .DOT => "DOT" | .COMMA => "COMMA"
  | .COLON => "COLON" | .SEMICOLON => "SEMICOLON" | .LPAREN => "LPAREN" | .RPAREN => "RPAREN" | .LBRACKET => "LBRACKET"
  | .RBRACKET => "RBRACKET" | .LBRACE => "LBRACE" | .RBRACE => "RBRACE" | .PLUS => "PLUS" | .MINUS => "MINUS"
  | .STAR => "STAR" | .SLASH => "SLASH" | .AMP => "AMP" | .BAR => "BAR" | .EQ => "EQ" | .GT => "GT" | .LT => "LT"
  | .BANG => "BANG" | .EQEQ => "EQEQ" | .LTEQ => "LTEQ" | .GTEQ => "GTEQ" | .BANGEQ => "BANGEQ"
  | .IMPLICATION => "IMPLICATION" | .CARET => "CARET" | .EOF => "EOF"

def showTok : Tok → String
  | .sym s => symName s
  | .id n => "ID:" ++ hex n
  | .bool b => "BOOL:" ++ showB b
  | .int n => "INT:" ++ toString n
  | .real r => "REAL:" ++ showR r
  | .str s => "STR:" ++ hex s

def errMsg : LexErr → String
  | .newlineInString => "newline in string literal.."
  | .unterminatedString => "unterminated string literal.."
  | .unterminatedComment => "unterminated comment.."
  | .invalidNumeric => "invalid numeric literal.."
  | .outOfRange => "numeric literal out of range.."
  | .invalidToken => "invalid token.."
  | .fuel => "MODEL-OUT-OF-FUEL"

/-- tokens produced before an error are printed too (the harness prints as it goes) -/
def lexPrint : Nat → Stream → List String → List String
  | 0, _, acc => acc.reverse
  | fuel + 1, s, acc =>
    match nextTok (s.length + 2) s with
    | .error e => (("error:" ++ errMsg e) :: acc).reverse
    | .ok (.sym .EOF, _) => ("EOF" :: acc).reverse
    | .ok (t, r) => lexPrint fuel r (showTok t :: acc)

def step (line : String) : String :=
  match tokens line with
  | ["lex"] => "EOF"
  | ["lex", h] => match unhex h.toList with
    | some s => " ".intercalate (lexPrint (s.length + 2) s [])
    | none => "exception:bad-op"
  | [] => ""
  | _ => "exception:bad-op"

end Oratio.Driver.RiddleD
