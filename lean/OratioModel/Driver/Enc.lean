/-
Model driver for the root-level SAT encoders (property C13); twin of /verif/harness/enc.cpp.
-/
import OratioModel.Driver.Proto
import OratioModel.Sat.Enc

namespace Oratio.Driver.EncD
open Oratio Oratio.Driver

def parseLit (s : String) : Option Lit :=
  if s.startsWith "+" then (s.drop 1).toString.toNat?.map (⟨·, true⟩)
  else if s.startsWith "-" then (s.drop 1).toString.toNat?.map (⟨·, false⟩)
  else none

def parseLits (ts : List String) : Option (List Lit) := ts.mapM parseLit

def showLit (l : Lit) : String := (if l.sign then "+" else "-") ++ toString l.var

def showVals (s : Enc) : String :=
  String.ofList (s.vals.map (fun v => match v with | some true => 'T' | some false => 'F' | none => 'U'))

def insertNat (x : Nat) : List Nat → List Nat
  | [] => [x]
  | y :: t => if x ≤ y then x :: y :: t else y :: insertNat x t
def sortNat (l : List Nat) : List Nat := l.foldr insertNat []

def lexLe : List Nat → List Nat → Bool
  | [], _ => true
  | _ :: _, [] => false
  | a :: s, b :: t => if a < b then true else if b < a then false else lexLe s t
def insertCl (x : List Nat) : List (List Nat) → List (List Nat)
  | [] => [x]
  | y :: t => if lexLe x y then x :: y :: t else y :: insertCl x t

def showIdx (i : Nat) : String := (if i % 2 = 1 then "+" else "-") ++ toString (i / 2)

def showClauses (cs : List Clause) : String :=
  let canon := (cs.map (fun c => sortNat (c.map Lit.idx))).foldr insertCl []
  String.join (canon.map (fun c => "[" ++ " ".intercalate (c.map showIdx) ++ "]"))

def state (s : Enc) : String := " | " ++ showVals s ++ " | " ++ showClauses s.clauses

/-- one operation; `none` = bad-op -/
def exec (s : Enc) (toks : List String) : Option (String × Enc) :=
  match toks with
  | ["v"] => let (v, s') := s.newVar; some (toString v, s')
  | "c" :: ls => (parseLits ls).map fun ls => let (b, s') := s.newClause ls; (showB b, s')
  | ["eq", a, b] => match parseLit a, parseLit b with
    | some a, some b => let (l, s') := s.newEq a b; some (showLit l, s')
    | _, _ => none
  | "conj" :: ls => (parseLits ls).map fun ls => let (l, s') := s.newConj ls; (showLit l, s')
  | "disj" :: ls => (parseLits ls).map fun ls => let (l, s') := s.newDisj ls; (showLit l, s')
  | "amo" :: ls => (parseLits ls).map fun ls => let (l, s') := s.newAtMostOne ls; (showLit l, s')
  | "exo" :: ls => (parseLits ls).map fun ls => let (l, s') := s.newExctOne ls; (showLit l, s')
  | ["prop"] => let (b, s') := s.propagate; some (showB b, s')
  | _ => none

def step (st : Option Enc) (line : String) : Option Enc × String :=
  match tokens line with
  | [] => (st, "")
  | "case" :: _ => (some Enc.init, line)
  | toks => match st with
    | none => (st, "exception:bad-op")
    | some s => match exec s toks with
      | none => (st, "exception:bad-op")
      | some (r, s') => (some s', r ++ state s')

end Oratio.Driver.EncD
