/-
Model driver for object variables (property C14); twin of /verif/harness/ov.cpp.
-/
import OratioModel.Driver.Enc
import OratioModel.Sat.Ov

namespace Oratio.Driver.OvD
open Oratio Oratio.Driver Oratio.Driver.EncD

def showDom (s : Ov) (v : Nat) : String :=
  let d := (s.dom v).map (fun e => (e.1, e.2))
  let sorted := sortNat (d.map (·.1))
  " ".intercalate (sorted.map (fun k => s!"{k}:" ++ showLit ((Ov.lookupVal (s.dom v) k).getD Lit.falseLit)))

def showVals (l : List Nat) : String := " ".intercalate ((sortNat l).map toString)

/-- the clause database modulo the root values (twin of `clauses_simplified_str`) -/
def simplified (e : Enc) : List Clause :=
  (e.clauses.filter (fun c => !c.any (fun l => e.value l = some true))).map
    (fun c => c.filter (fun l => e.value l = none))

def dedupNat : List Nat → List Nat
  | a :: b :: t => if a = b then dedupNat (b :: t) else a :: dedupNat (b :: t)
  | l => l
def dedupCl : List (List Nat) → List (List Nat)
  | a :: b :: t => if a = b then dedupCl (b :: t) else a :: dedupCl (b :: t)
  | l => l

def showSimplified (e : Enc) : String :=
  let canon := dedupCl (((simplified e).map (fun c => dedupNat (sortNat (c.map Lit.idx)))).foldr insertCl [])
  " | " ++ EncD.showVals e ++ " | " ++ String.join (canon.map (fun c => "[" ++ " ".intercalate (c.map showIdx) ++ "]"))

/-- `new` and `oveq` are followed by `propagate()` in the harness -/
def withProp (r : String) (s : Ov) : String × Ov :=
  let (b, e') := s.enc.propagate
  (r ++ " " ++ showB b, { s with enc := e' })

def exec (s : Ov) (toks : List String) : Option (String × Ov) :=
  match toks with
  | "new" :: enf :: items =>
    match items.mapM String.toNat? with
    | some its => if its.isEmpty then none else
      let (id, s') := s.newVar its (enf == "1"); some (withProp s!"{id} {showDom s' id}" s')
    | none => none
  | "lits" :: rest =>
    -- pairs  <lit>:<val>
    let ps := rest.map (fun t => match t.splitOn ":" with
      | [l, v] => match parseLit l, v.toNat? with
        | some l, some v => some (l, v)
        | _, _ => none
      | _ => none)
    match ps.mapM id with
    | some ps => if ps.isEmpty then none else
      let (id, s') := s.newVarLits (ps.map (·.1)) (ps.map (·.2)); some (s!"{id} {showDom s' id}", s')
    | none => none
  | ["oveq", a, b] => match a.toNat?, b.toNat? with
    | some a, some b => if a < s.doms.length ∧ b < s.doms.length then
        let (l, s') := s.newEq a b; some (withProp (showLit l) s') else none
    | _, _ => none
  | ["allows", v, k] => match v.toNat?, k.toNat? with
    | some v, some k => if v < s.doms.length then some (showLit (s.allows v k), s) else none
    | _, _ => none
  | ["value", v] => match v.toNat? with
    | some v => if v < s.doms.length then some (showVals (s.value v), s) else none
    | none => none
  | _ => match EncD.exec s.enc toks with
    | some (r, e') => some (r, { s with enc := e' })
    | none => none

def step (st : Option Ov) (line : String) : Option Ov × String :=
  match tokens line with
  | [] => (st, "")
  | "case" :: _ => (some Ov.init, line)
  | toks => match st with
    | none => (st, "exception:bad-op")
    | some s => match exec s toks with
      | none => (st, "exception:bad-op")
      | some (r, s') => (some s', r ++ showSimplified s'.enc)

end Oratio.Driver.OvD
