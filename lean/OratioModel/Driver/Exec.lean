/-
Model driver for the executor's dispatch loop (property C19).  The runner replays an execution history of the
implementation: the plans come from the implementation's own log (the planner is not modelled), the events are the
model's.
  case <n>                         fresh executor
  init <upt n/d>
  cb ds|de <tick> <id> <n/d>       request the client will make from the starting()/ending() callback of that tick
  req ds|de <id> <n/d>             dont_start_yet / dont_end_yet issued between ticks
  plan <id>:<i|v>:<start>:<stop> ...   (re)build the timelines from the plan (times `n/d,n/d`)
  tick                             tick() up to its end or to its first request for an adapted plan
  resume <atoms...>                the adapted plan: rebuild and continue the same tick
Answer of tick/resume: the events, then `done` or `need-plan`.
-/
import OratioModel.Driver.Proto
import OratioModel.Driver.Sweep
import OratioModel.Exec.Executor

namespace Oratio.Driver.ExecD
open Oratio Oratio.Driver Oratio.Exec Oratio.Driver.SweepD

def parseX (s : String) : Option XAtom :=
  match s.splitOn ":" with
  | [i, k, a, b] => match i.toNat?, parseTime a, parseTime b with
    | some i, some a, some b => some { id := i, impulse := k == "i", start := a, stop := b }
    | _, _, _ => none
  | _ => none

def insNat (x : Nat) : List Nat → List Nat
  | [] => [x]
  | y :: t => if x ≤ y then x :: y :: t else y :: insNat x t
def sortN (l : List Nat) : List Nat := l.foldr insNat []
def showIds (l : List Nat) : String := " ".intercalate ((sortN l).map toString)

def showEv : Event → String
  | .starting l => "starting " ++ showIds l
  | .ending l => "ending " ++ showIds l
  | .start l => "start " ++ showIds l
  | .stop l => "end " ++ showIds l
  | .delayStart i q => s!"dont_start {i} {showQ q}"
  | .delayEnd i q => s!"dont_end {i} {showQ q}"
  | .tick t => s!"tick {showQ t}"

def showOut (r : Exec × List Event × Outcome) : Exec × String :=
  (r.1, ";".intercalate (r.2.1.map showEv ++ [if r.2.2 == .done then "done" else "need-plan"]))

def step (x : Exec) (line : String) : Exec × String :=
  match tokens line with
  | "case" :: _ => ({ now := 0, upt := 1 }, "ok")
  | ["init", u] => match parseQ u with
    | some u => ({ now := 0, upt := u }, "ok")
    | none => (x, "exception:bad-op")
  | ["cb", k, t, i, q] => match t.toNat?, i.toNat?, parseQ q with
    | some t, some i, some q =>
      if k == "ds" then ({ x with cbStart := x.cbStart ++ [(t, i, q)] }, "ok") else ({ x with cbEnd := x.cbEnd ++ [(t, i, q)] }, "ok")
    | _, _, _ => (x, "exception:bad-op")
  | ["req", k, i, q] => match i.toNat?, parseQ q with
    | some i, some q =>
      if k == "ds" then ({ x with dontStart := insertReq x.dontStart i q }, "ok") else ({ x with dontEnd := insertReq x.dontEnd i q }, "ok")
    | _, _ => (x, "exception:bad-op")
  | "plan" :: rest => match rest.mapM parseX with
    | some p => (buildTimelines x p, "ok")
    | none => (x, "exception:bad-op")
  | ["tick"] => showOut (tick x)
  | "resume" :: rest => match rest.mapM parseX with
    | some p => showOut (resume x p)
    | none => (x, "exception:bad-op")
  | [] => (x, "")
  | _ => (x, "exception:bad-op")

end Oratio.Driver.ExecD
