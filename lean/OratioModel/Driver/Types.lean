/-
Model driver for the instance registry (property C17).
  class <id> <super ids...>      declare a type with its direct supertypes (declaration order)
  new <class id> <item id>       type::new_instance
  dom <class id>                 the instances a new existential of the type ranges over
  enum <id> own <v...> inc <e...>   declare an enum
  vals <enum id>                 enum_type::get_all_instances
Every line answers with the list asked for (or `ok`).
-/
import OratioModel.Driver.Proto
import OratioModel.Core.Types

namespace Oratio.Driver.TypesD
open Oratio Oratio.Driver Oratio.Types

structure St where
  supers : List (Nat × List Nat) := []
  store : List (Nat × List Nat) := []
  own : List (Nat × List Nat) := []
  inc : List (Nat × List Nat) := []

def look (l : List (Nat × List Nat)) (k : Nat) : List Nat := ((l.find? (fun e => e.1 == k)).map (·.2)).getD []
def put (l : List (Nat × List Nat)) (k : Nat) (v : List Nat) : List (Nat × List Nat) :=
  if l.any (fun e => e.1 == k) then l.map (fun e => if e.1 == k then (k, v) else e) else l ++ [(k, v)]

def showL (l : List Nat) : String := " ".intercalate (l.map toString)

def step (s : St) (line : String) : St × String :=
  match tokens line with
  | "case" :: _ => ({}, "ok")
  | "class" :: c :: sups =>
    match c.toNat?, sups.mapM String.toNat? with
    | some c, some sups => ({ s with supers := put s.supers c sups }, "ok")
    | _, _ => (s, "exception:bad-op")
  | ["new", c, i] =>
    match c.toNat?, i.toNat? with
    | some c, some i =>
      let h : Hier := ⟨look s.supers⟩
      let order := bfs h (s.supers.length * s.supers.length + s.supers.length + 2) [c]
      let store := order.foldl (fun st u => put st u (look st u ++ [i])) s.store
      ({ s with store := store }, showL order)
    | _, _ => (s, "exception:bad-op")
  | ["dom", c] =>
    match c.toNat? with
    | some c => (s, showL (look s.store c))
    | none => (s, "exception:bad-op")
  | "enum" :: e :: rest =>
    let (ownT, incT) := (rest.takeWhile (· != "inc"), (rest.dropWhile (· != "inc")).drop 1)
    match e.toNat?, (ownT.drop 1).mapM String.toNat?, incT.mapM String.toNat? with
    | some e, some o, some i => ({ s with own := put s.own e o, inc := put s.inc e i }, "ok")
    | _, _, _ => (s, "exception:bad-op")
  | ["vals", e] =>
    match e.toNat? with
    | some e => (s, showL (allValues ⟨look s.own, look s.inc⟩ (s.own.length + 1) e))
    | none => (s, "exception:bad-op")
  | [] => (s, "")
  | _ => (s, "exception:bad-op")

end Oratio.Driver.TypesD
