/-
Model driver for the network with its theories (linear real arithmetic and the two difference
logics; properties C10, C12, C08 and the LRA correspondence of tools/checks/lra_probe.py); twin of
/verif/harness/net.cpp.
-/
import OratioModel.Driver.Sat
import OratioModel.Net.Net

namespace Oratio.Driver.NetD
open Oratio Oratio.Driver Oratio.Driver.EncD Oratio.Driver.SatD

def showI (x : Int) : String := if x == idlInf then "inf" else toString x
def showIRv (x : IR) : String := showIR x

def showDl {α : Type} (sh : α → String) (O : DOps α) (t : Dl α) : String :=
  let n := t.nVars
  let ds := (List.range n).map (fun i => "[" ++ " ".intercalate ((List.range n).map (fun j => sh (Dl.d O t i j))) ++ "]")
  let ps := (List.range n).map (fun i => "[" ++ " ".intercalate ((List.range n).map (fun j =>
    let x := Dl.p t i j; if x == noPred then "-" else toString x)) ++ "]")
  let cs := t.distConstr.map (fun e => s!" {e.1.1}>{e.1.2}={e.2}")
  let vd := t.varDists.map (fun c => s!" {c.b}={c.src}>{c.dst}:" ++ sh c.dist)
  s!"n={n} d:" ++ String.join ds ++ " p:" ++ String.join ps ++ " c:" ++ String.join cs ++ s!" layers:{t.layers.length} vd:" ++ String.join vd

def insertStr {β : Type} (x : String × β) : List (String × β) → List (String × β)
  | [] => [x]
  | y :: t => if x.1 < y.1 then x :: y :: t else y :: insertStr x t
def sortByKey {β : Type} (l : List (String × β)) : List (String × β) := l.foldr insertStr []
def insertIdx {β : Type} (x : Nat × β) : List (Nat × β) → List (Nat × β)
  | [] => [x]
  | y :: t => if x.1 < y.1 then x :: y :: t else y :: insertIdx x t

/-- dump of the whole `lra_theory` state; twin of `access::lra_str` -/
def showLra (t : Lra) : String :=
  let n := t.nVars
  let vals := (List.range n).map (fun v => " " ++ showIR (t.value v))
  let bs := (List.range n).map (fun v => " [" ++ showIR (t.lb v) ++ " " ++ showLit (t.lbReason v) ++ " " ++ showIR (t.ub v) ++ " " ++ showLit (t.ubReason v) ++ "]")
  let tab := t.tableau.map (fun r => s!" {r.1}=" ++ showLin r.2 ++ ";")
  let asr := (t.vAsrts.foldr (fun a acc => insertIdx a acc) []).map (fun a =>
    s!" {a.1}=" ++ showLit a.2.b ++ s!":x{a.2.x}" ++ (if a.2.o = .leq then "<=" else ">=") ++ showIR a.2.v)
  let aw := (List.range n).filterMap (fun v => match t.aWatches.getD v [] with
    | [] => none
    | w => some (s!" {v}:" ++ ",".intercalate (w.map toString)))
  let tw := (List.range n).filterMap (fun v => match t.tWatches.getD v [] with
    | [] => none
    | w => some (s!" {v}:" ++ ",".intercalate (w.map toString)))
  let ly := t.layers.reverse.map (fun l => "{" ++ String.join ((l.foldr (fun e acc => insertIdx e acc) []).map (fun e =>
    s!" {e.1}=" ++ showIR e.2.value ++ " " ++ showLit e.2.reason)) ++ "}")
  let ex := (sortByKey t.exprs).map (fun e => " \"" ++ e.1 ++ s!"\"={e.2};")
  let sa := (sortByKey t.sAsrts).map (fun e => " \"" ++ e.1 ++ "\"=" ++ showLit e.2 ++ ";")
  s!"n={n} v:" ++ String.join vals ++ " b:" ++ String.join bs ++ " t:" ++ String.join tab ++ " a:" ++ String.join asr ++
    " aw:" ++ String.join aw ++ " tw:" ++ String.join tw ++ s!" layers:{t.layers.length}" ++ String.join ly ++
    " ex:" ++ String.join ex ++ " sa:" ++ String.join sa

def state (n : Net) : String :=
  " | " ++ showValsS n.sat ++ " | " ++ showSearch n.sat ++ " | idl " ++ showDl showI idlOps n.idl ++ " | rdl " ++ showDl showIRv rdlOps n.rdl ++
    (if n.lra.nVars > 0 then " | lra " ++ showLra n.lra else "") ++
    (if n.sat.dead then " #dead" else "")

def withLogN (n0 : Net) (r : Option (Bool × Net)) : String × Net :=
  match r with
  | none => ("fuel", n0)
  | some (b, n') =>
    let new := n'.sat.log.drop n0.sat.log.length
    (showB b ++ String.join (new.map (fun c => " L[" ++ " ".intercalate (c.map showLit) ++ "]")), n')

def parseRel : String → Option Dl.Rel
  | "lt" => some .lt | "leq" => some .leq | "eq" => some .eq | "geq" => some .geq | "gt" => some .gt | _ => none

def linInRange (n : Nat) (l : Lin) : Bool := l.vars.all (fun t => t.1 < n)

/-- run a token parser on the remaining tokens -/
def runP {β : Type} (p : P β) (toks : List String) : Option β :=
  match p.run toks with
  | .ok (x, _) => some x
  | .error _ => none

/-- the theory-level operations, generic in the theory -/
def dlExec {α : Type} (O : DOps α) (sh : α → String) (parseDist : P α)
    (get : Net → Dl α) (newVar : Net → Nat × Net) (newDist : Net → Nat → Nat → α → Lit × Net)
    (newRel : Net → Dl.Rel → Lin → Lin → Option (Lit × Net))
    (n : Net) (op : String) (args : List String) : Option (String × Net) :=
  let t := get n
  let pair (p : α × α) : String := sh p.1 ++ " " ++ sh p.2
  match op with
  | "nv" => let (v, n') := newVar n; some (toString v, n')
  | "dist" => (runP (do let f ← nat; let to ← nat; let d ← parseDist; pure (f, to, d)) args).bind fun (f, to, d) =>
      if f < t.nVars ∧ to < t.nVars ∧ n.sat.rootLevel then let (l, n') := newDist n f to d; some (showLit l, n') else none
  | "rel" => match args with
    | r :: rest => (parseRel r).bind fun r => (runP (do let a ← linexp; let b ← linexp; pure (a, b)) rest).bind fun (a, b) =>
        if linInRange t.nVars a && linInRange t.nVars b && n.sat.rootLevel then
          match newRel n r a b with
          | some (l, n') => some (showLit l, n')
          | none => some ("invalid", n)
        else none
    | [] => none
  | "bounds" => (runP linexp args).bind fun a =>
      if linInRange t.nVars a then some ((match Dl.boundsLin O t a with | some p => pair p | none => "invalid"), n) else none
  | "distance" => (runP (do let a ← linexp; let b ← linexp; pure (a, b)) args).bind fun (a, b) =>
      if linInRange t.nVars a && linInRange t.nVars b then
        some ((match Dl.distanceLin O t a b with | some p => pair p | none => "invalid"), n) else none
  | "equates" => (runP (do let a ← linexp; let b ← linexp; pure (a, b)) args).bind fun (a, b) =>
      if linInRange t.nVars a && linInRange t.nVars b then
        some ((match Dl.equatesLin O t a b with | some b => showB b | none => "invalid"), n) else none
  | "vdist" => (runP (do let f ← nat; let to ← nat; pure (f, to)) args).bind fun (f, to) =>
      if f < t.nVars ∧ to < t.nVars then some (pair (Dl.distance O t f to), n) else none
  | _ => none

/-- an optional `;` between the two expressions of a relation -/
def linPair : P (Lin × Lin) := do
  let a ← linexp
  match (← get) with
  | ";" :: rest => set rest
  | _ => pure ()
  let b ← linexp
  pure (a, b)

def parseLRel : String → Option LRel
  | "lt" => some .lt | "leq" => some .leq | "geq" => some .geq | "gt" => some .gt | _ => none

/-- coefficients and constants of a query must be finite and the coefficients non-zero (the
    C++ arithmetic asserts otherwise) -/
def linOk (n : Nat) (l : Lin) : Bool :=
  l.vars.all (fun t => t.1 < n && t.2.den != 0 && t.2.num != 0) && l.known.den != 0

/-- the operations of `lra_theory` -/
def lraExec (n : Net) (op : String) (args : List String) : Option (String × Net) :=
  let t := n.lra
  match op with
  | "nv" => if args.isEmpty && n.sat.rootLevel then (let (v, n') := n.lraNewVar; some (toString v, n')) else none
  | "nvl" | "nvlraw" => (runP linexp args).bind fun a =>
      if !linOk t.nVars a then none
      else if a.vars.isEmpty || !n.sat.rootLevel then some ("pre", n)
      else match n.lraNewVarLin a with
        | some (v, n') => some (toString v, n')
        | none => some ("assert", n)
  | "lt" | "leq" | "geq" | "gt" | "eq" => (runP linPair args).bind fun (a, b) =>
      if !(linOk t.nVars a && linOk t.nVars b) then none
      else if !n.sat.rootLevel then some ("pre", n)
      else
        let r := match parseLRel op with
          | some r => n.lraNewRel r a b
          | none => n.lraNewEq a b
        match r with
        | some (l, n') => some (showLit l, n')
        | none => some ("assert", n)
  | "val" => (runP linexp args).bind fun a =>
      if linOk t.nVars a then some (showIR (t.valueLin a), n) else none
  | "bounds" => (runP linexp args).bind fun a =>
      if linOk t.nVars a then
        let b := t.boundsLin a
        some (showIR b.1 ++ " " ++ showIR b.2 ++ " " ++ showIR (t.lbLin a) ++ " " ++ showIR (t.ubLin a), n)
      else none
  | "eqs" => (runP linPair args).bind fun (a, b) =>
      if linOk t.nVars a && linOk t.nVars b then some (showB (t.equates a b), n) else none
  | "setlb" | "setub" | "set" =>
      (runP (do let x ← nat; let v ← irat; let p ← next; pure (x, v, p)) args).bind fun (x, v, p) =>
      (parseLit p).bind fun p =>
        if !(x < t.nVars && inRange n.sat [p] && v.rat.den != 0 && v.inf.den != 0) then none
        -- the reason must hold and belong to the current decision level (a conflict it takes part in is analysed there)
        else if n.sat.value p ≠ some true || !n.sat.queue.isEmpty || n.sat.level.getD p.var 0 != n.sat.decisionLevel then some ("pre", n)
        else
          let f := if op == "setlb" then Lra.setLb else if op == "setub" then Lra.setUb else Lra.setEq
          let l0 := n.sat.log.length
          let (c, n') := n.lraSet f x v p
          let lg := String.join ((n'.sat.log.drop l0).map (fun c => " L[" ++ " ".intercalate (c.map showLit) ++ "]"))
          match c with
          | none => some ("T" ++ lg, n')
          -- `theory::cnfl` is left non-empty: the theory must not be used further
          | some c => some ("F C[" ++ " ".intercalate (c.map showLit) ++ "]" ++ lg, { n' with sat := { n'.sat with dead := true } })
  | _ => none

def liftSat (n : Net) (r : Option (String × Sat)) : Option (String × Net) := r.map fun (o, s) => (o, { n with sat := s })

def exec (n : Net) (toks : List String) : Option (String × Net) :=
  match toks with
  | [] => none
  | op :: args =>
    if op.startsWith "idl." then
      dlExec idlOps showI int (·.idl) Net.idlNewVar Net.idlNewDistance Net.idlNewRel n (op.drop 4).toString args
    else if op.startsWith "rdl." then
      dlExec rdlOps showIRv irat (·.rdl) Net.rdlNewVar Net.rdlNewDistance Net.rdlNewRel n (op.drop 4).toString args
    else if op.startsWith "lra." then lraExec n (op.drop 4).toString args
    else match op, args with
      | "prop", [] => some (withLogN n (n.propagate fuel))
      | "assume", [p] => (parseLit p).bind fun p =>
          if !inRange n.sat [p] then none
          else if !n.sat.queue.isEmpty then some ("queue", n)
          else if n.sat.value p ≠ none then some ("defined", n)
          else some (withLogN n (n.assume p fuel))
      | "pop", [] => if n.sat.rootLevel then some ("root", n) else some ("ok", n.pop)
      | "next", [] => if !n.sat.queue.isEmpty then some ("queue", n) else some (withLogN n (n.next fuel))
      | "bj", [k] => k.toNat?.bind fun k =>
          -- a theory reports the negations of the `k` most recent trail literals as a conflict
          if !(n.sat.queue.isEmpty && 1 ≤ k && k ≤ n.sat.trail.length) then some ("pre", n)
          else some (withLogN n (n.backtrackAnalyzeAndBackjump ((n.sat.trail.take k).map Lit.neg) fuel))
      | "check", ls => (parseLits ls).bind fun ls =>
          if !inRange n.sat ls then none
          else
            let distinct := (ls.map (·.var)).eraseDups.length == ls.length
            if !(n.sat.queue.isEmpty && ls.all (fun l => n.sat.value l = none) && distinct) then some ("pre", n)
            else some (withLogN n (n.check ls fuel))
      | _, _ =>
        -- root-level SAT operations are those of the pure SAT driver
        if op == "simp" then none else liftSat n (SatD.exec n.sat toks)

/-- driver state: the network and the literals returned so far by the `lra.<relation>` requests of
    the case.  A token `$k` (`!$k`) of a later operation stands for the k-th of them (its negation). -/
structure DState where
  net : Net
  rets : List Lit

def isRelOp (op : String) : Bool := ["lra.lt", "lra.leq", "lra.eq", "lra.geq", "lra.gt"].contains op

/-- replace the `$k` / `!$k` tokens (k-th returned literal / its negation), the `?j` / `!?j` tokens
    (positive / negative literal of the `j mod u`-th of the `u` currently unassigned SAT variables,
    in ascending order) and the `^j` tokens (the LRA variable `n-1-j`, `n` the current number of
    LRA variables: `^0` is the newest); `none` = no such thing -/
def resolveRefs (d : DState) (toks : List String) : Option (List String) :=
  let un := (List.range d.net.sat.nvars).filter (fun v => d.net.sat.vals.getD v none == none)
  let unassigned (j : Nat) : Option Nat := if un.isEmpty then none else un[j % un.length]?
  toks.mapM fun tk =>
    if tk.startsWith "$" then ((tk.drop 1).toString.toNat?.bind (d.rets[·]?)).map showLit
    else if tk.startsWith "!$" then ((tk.drop 2).toString.toNat?.bind (d.rets[·]?)).map (fun l => showLit l.neg)
    else if tk.startsWith "?" then ((tk.drop 1).toString.toNat?.bind unassigned).map (fun v => showLit ⟨v, true⟩)
    else if tk.startsWith "!?" then ((tk.drop 2).toString.toNat?.bind unassigned).map (fun v => showLit ⟨v, false⟩)
    else if tk.startsWith "^" then (tk.drop 1).toString.toNat?.bind fun j =>
      if j < d.net.lra.nVars then some (toString (d.net.lra.nVars - 1 - j)) else none
    else some tk

def step (st : Option DState) (line : String) : Option DState × String :=
  match tokens line with
  | [] => (st, "")
  | "case" :: _ => (some ⟨Net.init, []⟩, line)
  | toks => match st with
    | none => (st, "exception:bad-op")
    | some d => match resolveRefs d toks with
      | none => (st, "exception:bad-op")
      | some toks => match exec d.net toks with
        | none => (st, "exception:bad-op")
        | some (r, n') =>
          let rets := match toks.head?, parseLit r with
            | some op, some l => if isRelOp op then d.rets ++ [l] else d.rets
            | _, _ => d.rets
          (some ⟨n', rets⟩, r ++ state n')

end Oratio.Driver.NetD
