/-
Model driver for the network with difference-logic theories (properties C10, C12, C08); twin of
/verif/harness/net.cpp.
-/
import OratioModel.Driver.Sat
import OratioModel.Net.Net

namespace Oratio.Driver.NetD
open Oratio Oratio.Driver Oratio.Driver.EncD Oratio.Driver.SatD

def showI (x : Int) : String := if x == idlInf then "inf" else toString x
def showIRv (x : IR) : String := showIR x

def showDl {α : Type} (sh : α → String) (O : DOps α) (t : Dl α) : String :=
  let n := t.nVars
  let ds := (List.range n).map (fun i => "[" ++ " ".intercalate ((List.range n).map (fun j => sh (Dl.d O t i j))) ++ "]")
  let ps := (List.range n).map (fun i => "[" ++ " ".intercalate ((List.range n).map (fun j =>
    let x := Dl.p t i j; if x == noPred then "-" else toString x)) ++ "]")
  let cs := t.distConstr.map (fun e => s!" {e.1.1}>{e.1.2}={e.2}")
  let vd := t.varDists.map (fun c => s!" {c.b}={c.src}>{c.dst}:" ++ sh c.dist)
  s!"n={n} d:" ++ String.join ds ++ " p:" ++ String.join ps ++ " c:" ++ String.join cs ++ s!" layers:{t.layers.length} vd:" ++ String.join vd

def state (n : Net) : String :=
  " | " ++ showValsS n.sat ++ " | " ++ showSearch n.sat ++ " | idl " ++ showDl showI idlOps n.idl ++ " | rdl " ++ showDl showIRv rdlOps n.rdl ++
    (if n.sat.dead then " #dead" else "")

def withLogN (n0 : Net) (r : Option (Bool × Net)) : String × Net :=
  match r with
  | none => ("fuel", n0)
  | some (b, n') =>
    let new := n'.sat.log.drop n0.sat.log.length
    (showB b ++ String.join (new.map (fun c => " L[" ++ " ".intercalate (c.map showLit) ++ "]")), n')

def parseRel : String → Option Dl.Rel
  | "lt" => some .lt | "leq" => some .leq | "eq" => some .eq | "geq" => some .geq | "gt" => some .gt | _ => none

def linInRange (n : Nat) (l : Lin) : Bool := l.vars.all (fun t => t.1 < n)

/-- run a token parser on the remaining tokens -/
def runP {β : Type} (p : P β) (toks : List String) : Option β :=
  match p.run toks with
  | .ok (x, _) => some x
  | .error _ => none

/-- the theory-level operations, generic in the theory -/
def dlExec {α : Type} (O : DOps α) (sh : α → String) (parseDist : P α)
    (get : Net → Dl α) (newVar : Net → Nat × Net) (newDist : Net → Nat → Nat → α → Lit × Net)
    (newRel : Net → Dl.Rel → Lin → Lin → Option (Lit × Net))
    (n : Net) (op : String) (args : List String) : Option (String × Net) :=
  let t := get n
  let pair (p : α × α) : String := sh p.1 ++ " " ++ sh p.2
  match op with
  | "nv" => let (v, n') := newVar n; some (toString v, n')
  | "dist" => (runP (do let f ← nat; let to ← nat; let d ← parseDist; pure (f, to, d)) args).bind fun (f, to, d) =>
      if f < t.nVars ∧ to < t.nVars ∧ n.sat.rootLevel then let (l, n') := newDist n f to d; some (showLit l, n') else none
  | "rel" => match args with
    | r :: rest => (parseRel r).bind fun r => (runP (do let a ← linexp; let b ← linexp; pure (a, b)) rest).bind fun (a, b) =>
        if linInRange t.nVars a && linInRange t.nVars b && n.sat.rootLevel then
          match newRel n r a b with
          | some (l, n') => some (showLit l, n')
          | none => some ("invalid", n)
        else none
    | [] => none
  | "bounds" => (runP linexp args).bind fun a =>
      if linInRange t.nVars a then some ((match Dl.boundsLin O t a with | some p => pair p | none => "invalid"), n) else none
  | "distance" => (runP (do let a ← linexp; let b ← linexp; pure (a, b)) args).bind fun (a, b) =>
      if linInRange t.nVars a && linInRange t.nVars b then
        some ((match Dl.distanceLin O t a b with | some p => pair p | none => "invalid"), n) else none
  | "equates" => (runP (do let a ← linexp; let b ← linexp; pure (a, b)) args).bind fun (a, b) =>
      if linInRange t.nVars a && linInRange t.nVars b then
        some ((match Dl.equatesLin O t a b with | some b => showB b | none => "invalid"), n) else none
  | "vdist" => (runP (do let f ← nat; let to ← nat; pure (f, to)) args).bind fun (f, to) =>
      if f < t.nVars ∧ to < t.nVars then some (pair (Dl.distance O t f to), n) else none
  | _ => none

def liftSat (n : Net) (r : Option (String × Sat)) : Option (String × Net) := r.map fun (o, s) => (o, { n with sat := s })

def exec (n : Net) (toks : List String) : Option (String × Net) :=
  match toks with
  | [] => none
  | op :: args =>
    if op.startsWith "idl." then
      dlExec idlOps showI int (·.idl) Net.idlNewVar Net.idlNewDistance Net.idlNewRel n (op.drop 4).toString args
    else if op.startsWith "rdl." then
      dlExec rdlOps showIRv irat (·.rdl) Net.rdlNewVar Net.rdlNewDistance Net.rdlNewRel n (op.drop 4).toString args
    else match op, args with
      | "prop", [] => some (withLogN n (n.propagate fuel))
      | "assume", [p] => (parseLit p).bind fun p =>
          if !inRange n.sat [p] then none
          else if !n.sat.queue.isEmpty then some ("queue", n)
          else if n.sat.value p ≠ none then some ("defined", n)
          else some (withLogN n (n.assume p fuel))
      | "pop", [] => if n.sat.rootLevel then some ("root", n) else some ("ok", n.pop)
      | "next", [] => if !n.sat.queue.isEmpty then some ("queue", n) else some (withLogN n (n.next fuel))
      | "check", ls => (parseLits ls).bind fun ls =>
          if !inRange n.sat ls then none
          else
            let distinct := (ls.map (·.var)).eraseDups.length == ls.length
            if !(n.sat.queue.isEmpty && ls.all (fun l => n.sat.value l = none) && distinct) then some ("pre", n)
            else some (withLogN n (n.check ls fuel))
      | _, _ =>
        -- root-level SAT operations are those of the pure SAT driver
        if op == "simp" then none else liftSat n (SatD.exec n.sat toks)

def step (st : Option Net) (line : String) : Option Net × String :=
  match tokens line with
  | [] => (st, "")
  | "case" :: _ => (some Net.init, line)
  | toks => match st with
    | none => (st, "exception:bad-op")
    | some n => match exec n toks with
      | none => (st, "exception:bad-op")
      | some (r, n') => (some n', r ++ state n')

end Oratio.Driver.NetD
