/-
Line protocol shared by the model drivers: token cursor, parsers and canonical printers.
Every printer has a twin in /verif/harness/common.h.
-/
import OratioModel.Arith.Rational
import OratioModel.Arith.InfRational
import OratioModel.Arith.Lin

namespace Oratio.Driver

/-- token cursor in the `Except String` monad -/
abbrev P := StateT (List String) (Except String)

def next : P String := do
  match (← get) with
  | [] => throw "bad-op"
  | t :: ts => set ts; pure t

def int : P Int := do
  match (← next).toInt? with
  | some i => pure i
  | none => throw "bad-op"

def nat : P Nat := do
  match (← next).toNat? with
  | some i => pure i
  | none => throw "bad-op"

def parseRat (s : String) : Except String R :=
  match s.splitOn "/" with
  | [a, b] => match a.toInt?, b.toInt? with
    | some n, some d => pure (R.mk2 n d)
    | _, _ => throw "bad-op"
  | _ => throw "bad-op"

def rat : P R := do
  match parseRat (← next) with
  | .ok r => pure r
  | .error e => throw e

def irat : P IR := do
  match (← next).splitOn "," with
  | [a, b] => match parseRat a, parseRat b with
    | .ok x, .ok y => pure ⟨x, y⟩
    | _, _ => throw "bad-op"
  | _ => throw "bad-op"

def linexp : P Lin := do
  let h ← next
  if !h.startsWith "L" then throw "bad-op"
  match (h.drop 1).toString.toNat? with
  | none => throw "bad-op"
  | some n =>
    let mut m : List (Nat × R) := []
    for _ in [0:n] do
      let v ← nat
      let c ← rat
      m := Lin.insert m v c
    let k ← rat
    pure ⟨m, k⟩

def showR (r : R) : String := s!"{r.num}/{r.den}"
def showIR (r : IR) : String := showR r.rat ++ "," ++ showR r.inf
def showB (b : Bool) : String := if b then "T" else "F"
def showLin (l : Lin) : String :=
  let s := l.vars.foldl (fun s t => s ++ s!" {t.1} " ++ showR t.2) s!"L{l.vars.length}"
  s ++ " " ++ showR l.known
def showS (s : String) : String := "S:" ++ s

def tokens (line : String) : List String :=
  (line.splitOn " ").filter (· ≠ "") |>.map (fun s => s.trimAscii.toString) |>.filter (· ≠ "")

end Oratio.Driver
