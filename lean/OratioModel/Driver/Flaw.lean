/-
Model driver for the clauses the planner posts around flaws and resolvers (property C03): the runner reads the
flaw graph of a solved problem from the implementation (literals of phi / rho / sigma, exclusivity, causes) and asks
the model which clauses `flaw::expand`, `flaw::add_resolver`, `activate_*::apply`, `unify_atom::apply` and
`new_causal_link` post for it; each of them must be a consequence of the implementation's clause database.
  expand   <phi> <0|1 exclusive> <rho> ...
  activate <rho> <sigma>
  unify    <rho> <sigmaA> <sigmaT> <eq> <actT> <phiT>
  causal   <rho> <phiPre>
Literals are `+v` / `-v`.  Answer: the clauses, `[l l ..][l ..]`.
-/
import OratioModel.Driver.Proto
import OratioModel.Driver.Enc
import OratioModel.Solver.Flaw

namespace Oratio.Driver.FlawD
open Oratio Oratio.Driver Oratio.Driver.EncD Oratio.Flaw

def showCnf (c : Cnf) : String := String.join (c.map (fun cl => "[" ++ " ".intercalate (cl.map showLit) ++ "]"))

def step (line : String) : String :=
  match tokens line with
  | "expand" :: phi :: ex :: rhos =>
    match parseLit phi, rhos.mapM parseLit with
    | some p, some rs => showCnf (expandClauses p rs (ex == "1"))
    | _, _ => "exception:bad-op"
  | ["activate", rho, sigma] =>
    match parseLit rho, parseLit sigma with
    | some r, some s => showCnf (activateClauses r s)
    | _, _ => "exception:bad-op"
  | ["unify", rho, sa, st, eq, actT, phiT] =>
    match parseLit rho, parseLit sa, parseLit st, parseLit eq, parseLit actT, parseLit phiT with
    | some r, some a, some t, some e, some ac, some p => showCnf (unifyClauses r a t e ac p)
    | _, _, _, _, _, _ => "exception:bad-op"
  | ["causal", rho, phi] =>
    match parseLit rho, parseLit phi with
    | some r, some p => showCnf (causalClauses r p)
    | _, _ => "exception:bad-op"
  | [] => ""
  | _ => "exception:bad-op"

end Oratio.Driver.FlawD
