/-
Model driver for the full `sat_core` model without theories (property C07); twin of
/verif/harness/sat.cpp.
-/
import OratioModel.Driver.Enc
import OratioModel.Sat.Core

namespace Oratio.Driver.SatD
open Oratio Oratio.Driver Oratio.Driver.EncD

def fuel : Nat := 1000000

def showValsS (s : Sat) : String :=
  String.ofList (s.vals.map (fun v => match v with | some true => 'T' | some false => 'F' | none => 'U'))

def posOf (s : Sat) (id : Nat) : String :=
  match s.cls.findIdx? (fun c => c.1 == id) with
  | some i => toString i
  | none => "?"

def showSearch (s : Sat) : String :=
  let tr := s.trail.reverse.map (fun l =>
    " " ++ showLit l ++ "@" ++ toString (s.level.getD l.var 0) ++
      (match s.reason.getD l.var none with | some id => "r" ++ posOf s id | none => ""))
  let dec := s.decisions.reverse.map (fun l => " " ++ showLit l)
  let cls := s.cls.map (fun c => "[" ++ " ".intercalate (c.2.map showLit) ++ "]")
  let ws := (List.range s.watches.length).filterMap (fun i =>
    match s.watches.getD i [] with
    | [] => none
    | w => some (" " ++ showIdx i ++ ":" ++ ",".intercalate (w.map (posOf s))))
  "trail:" ++ String.join tr ++ " | dec:" ++ String.join dec ++ " | q:" ++ toString s.queue.length ++
    " | cls:" ++ String.join cls ++ " | w:" ++ String.join ws

def inRange (s : Sat) (ls : List Lit) : Bool := ls.all (fun l => l.var < s.nvars)

/-- result token followed by the clauses recorded during the operation -/
def withLog (s0 : Sat) (r : Option (Bool × Sat)) : String × Sat :=
  match r with
  | none => ("fuel", s0)
  | some (b, s') =>
    let new := s'.log.drop s0.log.length
    (showB b ++ String.join (new.map (fun c => " L[" ++ " ".intercalate (c.map showLit) ++ "]")), s')

def exec (s : Sat) (toks : List String) : Option (String × Sat) :=
  match toks with
  | ["v"] => let (v, s') := s.newVar; some (toString v, s')
  | ["prop"] => some (withLog s (s.propagate fuel))
  | ["assume", p] => match parseLit p with
    | some p => if !inRange s [p] then none
      else if !s.queue.isEmpty then some ("queue", s)
      else if s.value p ≠ none then some ("defined", s)
      else some (withLog s (s.assume p fuel))
    | none => none
  | ["pop"] => if s.rootLevel then some ("root", s) else some ("ok", s.pop)
  | ["next"] => if !s.queue.isEmpty then some ("queue", s) else some (withLog s (s.next fuel))
  | "check" :: ls => match parseLits ls with
    | some ls => if !inRange s ls then none
      else
        let distinct := (ls.map (·.var)).eraseDups.length == ls.length
        if !(s.queue.isEmpty && ls.all (fun l => s.value l = none) && distinct) then some ("pre", s)
        else some (withLog s (s.check ls fuel))
    | none => none
  | ["simp"] => if !s.rootLevel then some ("notroot", s) else some (withLog s (s.simplifyDb fuel))
  | op :: rest =>
    if !s.rootLevel then (if ["c", "eq", "conj", "disj", "amo", "exo"].contains op then some ("notroot", s) else none)
    else match op, parseLits rest with
      | "c", some ls => if inRange s ls then let (b, s') := s.newClause ls; some (showB b, s') else none
      | "eq", some [a, b] => if inRange s [a, b] then let (l, s') := s.newEq a b; some (showLit l, s') else none
      | "conj", some ls => if inRange s ls then let (l, s') := s.newConj ls; some (showLit l, s') else none
      | "disj", some ls => if inRange s ls then let (l, s') := s.newDisj ls; some (showLit l, s') else none
      | "amo", some ls => if inRange s ls then let (l, s') := s.newAtMostOne ls; some (showLit l, s') else none
      | "exo", some ls => if inRange s ls then let (l, s') := s.newExctOne ls; some (showLit l, s') else none
      | _, _ => none
  | [] => none

def step (st : Option Sat) (line : String) : Option Sat × String :=
  match tokens line with
  | [] => (st, "")
  | "case" :: _ => (some Sat.init, line)
  | toks => match st with
    | none => (st, "exception:bad-op")
    | some s => match exec s toks with
      | none => (st, "exception:bad-op")
      | some (r, s') => (some s', r ++ " | " ++ showValsS s' ++ " | " ++ showSearch s' ++ (if s'.dead then " #dead" else ""))

end Oratio.Driver.SatD
