/-
Model driver for expression evaluation (property C16, evaluation part).
  evala <nvars> <offset> <hex of a RIDDLE expression>
The variables `x0 … x{nvars-1}` of the program are the LRA variables `offset … offset+nvars-1` (the runner reads the
offset from the implementation's own output: the first variables belong to origin, horizon and the solver);
the answer is `to_string` of the resulting linear expression, or `error:<what>`.
-/
import OratioModel.Driver.Proto
import OratioModel.Riddle.Parser
import OratioModel.Core.Eval

namespace Oratio.Driver.EvalD
open Oratio Oratio.Driver Oratio.Riddle Oratio.Eval

def hexVal (c : Char) : Option Nat :=
  if '0' ≤ c ∧ c ≤ '9' then some (c.toNat - '0'.toNat)
  else if 'a' ≤ c ∧ c ≤ 'f' then some (c.toNat - 'a'.toNat + 10)
  else none

def unhex : List Char → Option (List Int)
  | [] => some []
  | a :: b :: rest => match hexVal a, hexVal b, unhex rest with
    | some x, some y, some r => some (((x * 16 + y : Nat) : Int) :: r)
    | _, _, _ => none
  | _ => none

def step (line : String) : String :=
  match tokens line with
  | ["evala", n, off, h] =>
    match n.toNat?, off.toNat?, unhex h.toList with
    | some n, some off, some bytes =>
      match lex bytes with
      | .error _ => "error:lex"
      | .ok toks =>
        match parseExpr toks with
        | .error _ => "error:parse"
        | .ok (e, _) =>
          let env : Name → Option Lin := fun nm =>
            (List.range n).findSome? (fun i => if nm == strInts ("x" ++ toString i) then some (Lin.var (i + off) R.one) else none)
          match evalA constFree env e with
          | .ok l => Lin.toStr l
          | .error err => "error:" ++ (match err with | .unknownId => "id" | .nonLinear => "nonlinear" | .notArith => "notarith" | .arity => "arity" | .divZero => "divzero")
    | _, _, _ => "exception:bad-op"
  | [] => ""
  | _ => "exception:bad-op"

end Oratio.Driver.EvalD
