/-
Model driver for the RIDDLE parser (property C16); twin of /verif/harness/riddle_parse.cpp.

Input line : `parse <hex bytes of the program text>`
Output line: the canonical s-expression of the compilation unit, or `error:<message>` (the
text given to `parser::error` / `lexer::error`, without the `[line, col] ` prefix), or
`ub:<what>` where the C++ has undefined behaviour (the probe does not compare these lines;
no such place is left in the model: `C16_parser_no_ub`).

The C++ parser pulls tokens lazily, so the model parser is given the tokens that precede the
first lexer error; when it asks for more (`PErr.lexer`) the lexer's message is printed.
-/
import OratioModel.Driver.Riddle
import OratioModel.Riddle.Parser

namespace Oratio.Driver.RiddleParseD
open Oratio Oratio.Driver Oratio.Riddle Oratio.Driver.RiddleD

/-- the tokens up to and including `EOF`, or up to the first lexer error -/
def lexPrefix : Nat → Stream → List Tok → List Tok × Option LexErr
  | 0, _, acc => (acc.reverse, some .invalidToken)
  | fuel + 1, s, acc =>
    match nextTok (s.length + 2) s with
    | .error e => (acc.reverse, some e)
    | .ok (.sym .EOF, _) => ((Tok.sym .EOF :: acc).reverse, none)
    | .ok (t, r) => lexPrefix fuel r (t :: acc)

def sx (items : List String) : String := "(" ++ " ".intercalate items ++ ")"

def nameS (n : Name) : String := String.ofList (n.map (fun c => Char.ofNat (if c < 0 then c + 256 else c).toNat))
def qidS (q : QId) : String := "[" ++ ".".intercalate (q.map nameS) ++ "]"
def strS (s : List Int) : String := "x" ++ hex s

def uopS : UOp → String
  | .plus => "uplus" | .minus => "uminus" | .not => "not"
def bopS : BOp → String
  | .eq => "eq" | .neq => "neq" | .lt => "lt" | .leq => "leq" | .geq => "geq" | .gt => "gt" | .impl => "impl"
def nopS : NOp → String
  | .disj => "or" | .conj => "and" | .xor => "xor" | .add => "add" | .sub => "sub" | .mul => "mul" | .div => "div"

mutual
def exprS : Expr → String
  | .bool b => sx ["bool", showB b]
  | .int n => sx ["int", toString n]
  | .real r => sx ["real", showR r]
  | .str s => sx ["str", strS s]
  | .cast tp e => sx ["cast", qidS tp, exprS e]
  | .un op e => sx [uopS op, exprS e]
  | .ctor tp args => sx ("new" :: qidS tp :: exprsS args)
  | .bin op l r => sx [bopS op, exprS l, exprS r]
  | .call ids fn args => sx ("call" :: qidS ids :: nameS fn :: exprsS args)
  | .id ids => sx ["id", qidS ids]
  | .nary op es => sx (nopS op :: exprsS es)
def exprsS : List Expr → List String
  | [] => []
  | e :: es => exprS e :: exprsS es
end

def optExprS : Option Expr → String
  | some e => exprS e
  | none => "_"

mutual
def stmtS : Stmt → String
  | .localField tp vars => sx ("local" :: qidS tp :: vars.map (fun v => sx [nameS v.1, optExprS v.2]))
  | .assign ids i e => sx ["assign", qidS ids, nameS i, exprS e]
  | .expr e => sx ["expr", exprS e]
  | .disj conjs => sx ("disj" :: conjsS conjs)
  | .block ss => sx ("block" :: stmtsS ss)
  | .formula isf n scp pn assns =>
    sx ((if isf then "fact" else "goal") :: nameS n :: qidS scp :: nameS pn :: assns.map (fun a => sx [nameS a.1, exprS a.2]))
  | .ret e => sx ["return", exprS e]
def stmtsS : List Stmt → List String
  | [] => []
  | s :: ss => stmtS s :: stmtsS ss
def conjsS : List (List Stmt × Option Expr) → List String
  | [] => []
  | (ss, e) :: cs => sx ("conj" :: optExprS e :: stmtsS ss) :: conjsS cs
end

def paramsS (ps : List Param) : String := sx (ps.map (fun p => sx [qidS p.tp, nameS p.name]))

def methodS (m : MethodDecl) : String := sx ("method" :: qidS m.rt :: nameS m.name :: paramsS m.pars :: stmtsS m.body)
def predS (p : PredDecl) : String :=
  sx ("predicate" :: nameS p.name :: paramsS p.pars :: sx (p.supers.map qidS) :: stmtsS p.body)
def fieldS (f : FieldDecl) : String := sx ("field" :: qidS f.tp :: f.vars.map (fun v => sx ["var", nameS v.name, optExprS v.init]))
def ctorS (c : CtorDecl) : String :=
  sx ("ctor" :: paramsS c.pars :: sx ("inits" :: c.inits.map (fun i => sx (nameS i.1 :: exprsS i.2))) :: stmtsS c.body)

mutual
def typeS : TypeDecl → String
  | .typedef n p e => sx ["typedef", nameS n, nameS p, exprS e]
  | .enum n vals refs => sx ["enum", nameS n, sx (vals.map strS), sx (refs.map qidS)]
  | .cls n bcs fs cs ms ps ts =>
    sx ["class", nameS n, sx (bcs.map qidS), sx ("fields" :: fs.map fieldS), sx ("ctors" :: cs.map ctorS),
        sx ("methods" :: ms.map methodS), sx ("preds" :: ps.map predS), sx ("types" :: typesS ts)]
def typesS : List TypeDecl → List String
  | [] => []
  | t :: ts => typeS t :: typesS ts
end

def unitS (u : CompUnit) : String :=
  sx ["unit", sx ("methods" :: u.methods.map methodS), sx ("preds" :: u.preds.map predS),
      sx ("types" :: typesS u.types), sx ("stmts" :: stmtsS u.stmts)]

def run (s : Stream) : String :=
  let (toks, lerr) := lexPrefix (s.length + 2) s []
  match parseUnit toks with
  | .ok u => unitS u
  | .error (.msg m) => "error:" ++ m
  | .error .lexer => match lerr with
    | some e => "error:" ++ errMsg e
    | none => "model:advanced-past-EOF"
  | .error (.ub w) => "ub:" ++ w
  | .error .fuel => "model:out-of-fuel"

def step (line : String) : String :=
  match tokens line with
  | ["parse"] => run []
  | ["parse", h] => match unhex h.toList with
    | some s => run s
    | none => "exception:bad-op"
  | [] => ""
  | _ => "exception:bad-op"

end Oratio.Driver.RiddleParseD
