/-
Model driver for the timeline sweeps (properties C04, C05): the runner feeds the atoms of a solution
(read from the implementation's own JSON) and compares the model's timeline with the one the
implementation extracted.
  svtl  <origin> <horizon> <id>:<start>:<end> ...
  rrtl  <origin> <horizon> <id>:<start>:<end>:<amount> ...
  svpk  <id>:<start>:<end> ...                      (pairs reported by the sweep)
  rrpk  <capacity> <id>:<start>:<end>:<amount> ...  (pulses above the capacity)
Times are `n/d,n/d`.
-/
import OratioModel.Driver.Proto
import OratioModel.Solver.Sweep

namespace Oratio.Driver.SweepD
open Oratio Oratio.Driver Oratio.Sweep

def parseQ (s : String) : Option Rat :=
  match s.splitOn "/" with
  | [a, b] => match a.toInt?, b.toNat? with
    | some n, some d => if d == 0 then none else some (mkRat n d)
    | _, _ => none
  | _ => none

def parseTime (s : String) : Option Time :=
  match s.splitOn "," with
  | [a, b] => match parseQ a, parseQ b with
    | some x, some y => some (x, y)
    | _, _ => none
  | _ => none

def parseAtom (s : String) : Option TAtom :=
  match s.splitOn ":" with
  | [i, a, b] => match i.toNat?, parseTime a, parseTime b with
    | some i, some a, some b => some { id := i, start := a, stop := b }
    | _, _, _ => none
  | [i, a, b, c] => match i.toNat?, parseTime a, parseTime b, parseTime c with
    | some i, some a, some b, some c => some { id := i, start := a, stop := b, amount := c }
    | _, _, _, _ => none
  | _ => none

def showQ (q : Rat) : String := s!"{q.num}/{q.den}"
def showT (t : Time) : String := showQ t.1 ++ "," ++ showQ t.2

def insNat (x : Nat) : List Nat → List Nat
  | [] => [x]
  | y :: t => if x ≤ y then x :: y :: t else y :: insNat x t

def showSeg (withUsage : Bool) (s : Segment) : String :=
  "[" ++ showT s.lo ++ " " ++ showT s.hi ++ " {" ++ " ".intercalate ((s.atoms.foldr insNat []).map toString) ++ "}" ++
    (if withUsage then " " ++ showT s.usage else "") ++ "]"

def step (line : String) : String :=
  match tokens line with
  | "svtl" :: o :: h :: rest =>
    match parseTime o, parseTime h, rest.mapM parseAtom with
    | some o, some h, some as => String.join ((svTimeline as o h).map (showSeg false))
    | _, _, _ => "exception:bad-op"
  | "rrtl" :: o :: h :: rest =>
    match parseTime o, parseTime h, rest.mapM parseAtom with
    | some o, some h, some as => String.join ((rrTimeline as o h).map (showSeg true))
    | _, _, _ => "exception:bad-op"
  | "svpk" :: rest =>
    match rest.mapM parseAtom with
    | some as => " ".intercalate ((svPeaks as).map (fun p => s!"{min p.1 p.2}-{max p.1 p.2}"))
    | none => "exception:bad-op"
  | "rrpk" :: c :: rest =>
    match parseTime c, rest.mapM parseAtom with
    | some c, some as => " ".intercalate ((rrPeaks as c).map showT)
    | _, _ => "exception:bad-op"
  | [] => ""
  | _ => "exception:bad-op"

end Oratio.Driver.SweepD
