/-
Instances, domains and enum unions (/repo/core/type.cpp, enum_type.cpp, constructor.cpp):

* `type::new_instance`      registers the new item with the type and, breadth first, with every
                            supertype reached (no visited set: with a diamond the common ancestor is
                            reached, and receives the item, once per path);
* `type::new_existential`   the domain of an object variable is the type's current `instances`
                            (a single instance: the instance itself);
* `enum_type::get_all_instances`  own values, then the values of every included enum, recursively.

Types are numbers; `supers t` are the direct supertypes in declaration order.
-/
namespace Oratio.Types

structure Hier where
  supers : Nat → List Nat

/-- the queue loop of `new_instance`: visit the front, enqueue its supertypes -/
def bfs (h : Hier) : Nat → List Nat → List Nat
  | 0, _ => []
  | _, [] => []
  | fuel + 1, t :: q => t :: bfs h fuel (q ++ h.supers t)

/-- per-type instance lists -/
abbrev Store := Nat → List Nat

/-- `new_instance(t)` creating item `i` -/
def newInstance (h : Hier) (fuel : Nat) (st : Store) (t i : Nat) : Store :=
  (bfs h fuel [t]).foldl (fun st u => fun x => if x = u then st x ++ [i] else st x) st

/-- `new_existential`: what the variable may take -/
def existential (st : Store) (t : Nat) : List Nat := st t

/-- reflexive-transitive supertype relation -/
inductive Sub (h : Hier) : Nat → Nat → Prop
  | refl (t : Nat) : Sub h t t
  | step {t u v : Nat} : u ∈ h.supers t → Sub h u v → Sub h t v

/-- a creation history: (class, item) pairs in order -/
def run (h : Hier) (fuel : Nat) (ops : List (Nat × Nat)) : Store :=
  ops.foldl (fun st op => newInstance h fuel st op.1 op.2) (fun _ => [])

structure Enums where
  own : Nat → List Nat
  inc : Nat → List Nat

/-- `get_all_instances` -/
def allValues (e : Enums) : Nat → Nat → List Nat
  | 0, _ => []
  | fuel + 1, t => e.own t ++ (e.inc t).flatMap (allValues e fuel)

inductive Includes (e : Enums) : Nat → Nat → Prop
  | refl (t : Nat) : Includes e t t
  | step {t u v : Nat} : u ∈ e.inc t → Includes e u v → Includes e t v

end Oratio.Types
