/-
Evaluation of arithmetic RIDDLE expressions into linear expressions
(/repo/core/core_parser.cpp `*_expression::evaluate`, /repo/core/core.cpp `add / sub / mult / div / minus`):

* `a + b + …`   `lin l; for each operand: l += operand`
* `a − b − …`   `l += first; l -= each other`
* `a * b * …`   the FIRST operand that is not a constant (its bounds differ) is kept, every other operand must be a
                constant and multiplies it (in order); if all are constants the first is multiplied by the others;
                two non-constant operands are reported as a non-linear expression
* `a / b / …`   every operand but the first must be a constant (else: error "non-linear") different from zero
                (else: error "division by zero"); the first is divided by their product
* `−a`, `+a`, literals, identifiers

`constOf l` says whether the network already decides `l` (`lb(l) = ub(l)`) and to which value; with fresh, unbounded
variables this is "`l` has no variable".
-/
import OratioModel.Riddle.Ast
import OratioModel.Arith.Lin

namespace Oratio.Eval
open Oratio Oratio.Riddle

abbrev ConstOf := Lin → Option R

/-- unbounded variables: an expression is decided iff it has no variable -/
def constFree : ConstOf := fun l => if l.vars.isEmpty then some l.known else none

inductive Err where
  | unknownId | nonLinear | notArith | arity | divZero
deriving Repr, DecidableEq

def mulAll (c : ConstOf) (ls : List Lin) : Except Err Lin :=
  match ls with
  | [] => .error .arity
  | first :: rest =>
    match ls.findIdx? (fun l => (c l).isNone) with
    | some i =>
      let v := ls.getD i Lin.empty
      (List.range ls.length).foldlM (fun (acc : Lin) j =>
        if j == i then pure acc
        else match c (ls.getD j Lin.empty) with
          | some k => pure (Lin.mulAssignR acc k)
          | none => .error .nonLinear) v
    | none =>
      rest.foldlM (fun (acc : Lin) l => match c l with
        | some k => pure (Lin.mulAssignR acc k)
        | none => .error .nonLinear) first

def divAllCore (c : ConstOf) (ls : List Lin) : Except Err Lin :=
  match ls with
  | first :: d :: rest =>
    match c d with
    | none => .error .nonLinear
    | some k0 =>
      match rest.foldlM (fun (acc : R) l => match c l with
          | some k => pure (R.mulAssign acc k)
          | none => (.error .nonLinear : Except Err R)) k0 with
      | .error e => .error e
      | .ok k => .ok (Lin.divR first k)
  | _ => .error .arity

/-- the checks `division_expression::evaluate` makes on the divisors, in order, before calling `core::div`:
    a divisor that is not a constant is a non-linear expression, a zero divisor a division by zero -/
def divCheck (c : ConstOf) : List Lin → Option Err
  | [] => none
  | l :: ls => match c l with
    | none => some .nonLinear
    | some k => if k.isZero then some .divZero else divCheck c ls

def divAll (c : ConstOf) (ls : List Lin) : Except Err Lin :=
  match divCheck c ls.tail with
  | some e => .error e
  | none => divAllCore c ls

mutual
/-- `expression::evaluate` for arithmetic expressions -/
def evalA (c : ConstOf) (env : Name → Option Lin) : Expr → Except Err Lin
  | .real r => .ok (Lin.const r)
  | .int n => .ok (Lin.const (R.ofInt n))
  | .id [x] => match env x with
    | some l => .ok l
    | none => .error .unknownId
  | .un .minus e => (evalA c env e).map Lin.neg
  | .un .plus e => evalA c env e
  | .nary .add es => (evalL c env es).map (fun ls => ls.foldl Lin.addAssign Lin.empty)
  | .nary .sub es => (evalL c env es).map (fun ls => match ls with
      | [] => Lin.empty
      | l :: rest => rest.foldl Lin.subAssign (Lin.addAssign Lin.empty l))
  | .nary .mul es => (evalL c env es).bind (mulAll c)
  | .nary .div es => (evalL c env es).bind (divAll c)
  | _ => .error .notArith
def evalL (c : ConstOf) (env : Name → Option Lin) : List Expr → Except Err (List Lin)
  | [] => .ok []
  | e :: es => do
    let l ← evalA c env e
    let ls ← evalL c env es
    pure (l :: ls)
end

end Oratio.Eval
