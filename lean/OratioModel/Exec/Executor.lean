/-
The dispatch loop of the executor (/repo/executor/executor.cpp: `tick`, `build_timelines`,
`dont_start_yet`, `dont_end_yet`), with the planner abstracted away: whenever the loop asks for
delays the caller hands back the adapted plan (the implementation calls `solve()`), so every
statement about the model holds for ANY behaviour of the planner.

A plan is the list of the active Interval / Impulse atoms with the current values of their time
points (an impulse has `start = stop = at`).  Times are ε-rationals ordered lexicographically.
-/
import OratioModel.Solver.Sweep

namespace Oratio.Exec
open Oratio.Sweep (Time tlt tle insertPulse)

structure XAtom where
  id : Nat
  impulse : Bool
  start : Time
  stop : Time
deriving Repr, DecidableEq

inductive Event where
  | starting (ids : List Nat)
  | ending (ids : List Nat)
  | start (ids : List Nat)
  | stop (ids : List Nat)
  /-- `dont_start_yet` / `dont_end_yet` honoured: the atom's point must move to at least `value + amount` -/
  | delayStart (id : Nat) (amount : Rat)
  | delayEnd (id : Nat) (amount : Rat)
  | tick (now : Rat)
deriving Repr, DecidableEq

structure Exec where
  now : Rat
  upt : Rat
  started : List Nat := []
  ended : List Nat := []
  dontStart : List (Nat × Rat) := []
  dontEnd : List (Nat × Rat) := []
  /-- `s_atms`, `e_atms`: pulse ↦ atoms (insertion order of the plan) -/
  sAtms : List (Time × List Nat) := []
  eAtms : List (Time × List Nat) := []
  pulses : List Time := []
  /-- requests the client will make from the `starting` / `ending` callbacks: (tick number, atom, amount) -/
  cbStart : List (Nat × Nat × Rat) := []
  cbEnd : List (Nat × Nat × Rat) := []
  tickNo : Nat := 0
deriving Repr

def addAt (m : List (Time × List Nat)) (p : Time) (i : Nat) : List (Time × List Nat) :=
  if m.any (fun e => e.1 == p) then m.map (fun e => if e.1 == p then (e.1, if e.2.contains i then e.2 else e.2 ++ [i]) else e)
  else m ++ [(p, [i])]

def atPulse (m : List (Time × List Nat)) (p : Time) : List Nat :=
  ((m.find? (fun e => e.1 == p)).map (·.2)).getD []

/-- `build_timelines`: atoms already ended are left out, atoms already started get no start pulse -/
def buildTimelines (x : Exec) (plan : List XAtom) : Exec :=
  let x := { x with sAtms := [], eAtms := [], pulses := [] }
  plan.foldl (fun x a =>
    if x.ended.contains a.id then x
    else if a.impulse then
      { x with sAtms := addAt x.sAtms a.start a.id, eAtms := addAt x.eAtms a.start a.id, pulses := insertPulse a.start x.pulses }
    else
      let x := if x.started.contains a.id then x
               else { x with sAtms := addAt x.sAtms a.start a.id, pulses := insertPulse a.start x.pulses }
      { x with eAtms := addAt x.eAtms a.stop a.id, pulses := insertPulse a.stop x.pulses }) x

def insertReq (m : List (Nat × Rat)) (i : Nat) (q : Rat) : List (Nat × Rat) :=
  if m.any (fun e => e.1 == i) then m else m ++ [(i, q)]       -- unordered_map::insert keeps the first

/-- outcome of the loop: finished (time advanced) or waiting for the adapted plan -/
inductive Outcome where
  | done
  | needPlan
deriving Repr, DecidableEq

/-- one iteration of `manage_tick` on the first pulse (which is `≤ now`) -/
def iteration (x : Exec) (p : Time) : Exec × List Event × Bool :=
  let s := atPulse x.sAtms p
  let e := atPulse x.eAtms p
  let ev : List Event := (if s.isEmpty then [] else [.starting s]) ++ (if e.isEmpty then [] else [.ending e])
  -- the callbacks may register requests now
  let ds := (x.cbStart.filter (fun r => r.1 == x.tickNo && s.contains r.2.1)).foldl (fun m r => insertReq m r.2.1 r.2.2) x.dontStart
  let de := (x.cbEnd.filter (fun r => r.1 == x.tickNo && e.contains r.2.1)).foldl (fun m r => insertReq m r.2.1 r.2.2) x.dontEnd
  let delayedS := s.filter (fun i => ds.any (fun r => r.1 == i))
  let delayedE := e.filter (fun i => de.any (fun r => r.1 == i))
  let evD : List Event :=
    delayedS.map (fun i => .delayStart i (((ds.find? (fun r => r.1 == i)).map (·.2)).getD 0)) ++
    delayedE.map (fun i => .delayEnd i (((de.find? (fun r => r.1 == i)).map (·.2)).getD 0))
  let x := { x with dontStart := ds.filter (fun r => !delayedS.contains r.1), dontEnd := de.filter (fun r => !delayedE.contains r.1) }
  if !(delayedS.isEmpty && delayedE.isEmpty) then (x, ev ++ evD, true)
  else
    let x := { x with started := x.started ++ s.filter (fun i => !x.started.contains i),
                      ended := x.ended ++ e.filter (fun i => !x.ended.contains i),
                      pulses := x.pulses.drop 1 }
    (x, ev ++ (if s.isEmpty then [] else [.start s]) ++ (if e.isEmpty then [] else [.stop e]), false)

/-- the `manage_tick` loop -/
def manage (fuel : Nat) (x : Exec) : Exec × List Event × Outcome :=
  match fuel with
  | 0 => (x, [], .needPlan)
  | fuel + 1 =>
    match x.pulses with
    | [] => ({ x with now := x.now + x.upt }, [.tick (x.now + x.upt)], .done)
    | p :: _ =>
      if tle p (x.now, 0) then
        let (x', ev, wait) := iteration x p
        if wait then (x', ev, .needPlan)
        else let (x'', ev', o) := manage fuel x'; (x'', ev ++ ev', o)
      else ({ x with now := x.now + x.upt }, [.tick (x.now + x.upt)], .done)

/-- `tick()` up to its first request for an adapted plan (or to its end) -/
def tick (x : Exec) : Exec × List Event × Outcome :=
  let x := { x with tickNo := x.tickNo + 1 }
  manage (x.pulses.length + 1) x

/-- continuing the same tick once the planner has adapted the plan -/
def resume (x : Exec) (plan : List XAtom) : Exec × List Event × Outcome :=
  let x := buildTimelines x plan
  manage (x.pulses.length + 1) x

end Oratio.Exec
