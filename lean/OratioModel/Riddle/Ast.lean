/-
Abstract syntax of RIDDLE as built by `riddle::parser` (/repo/riddle/riddle_parser.h,
namespace `riddle::ast`).  One constructor per C++ node class, except that the node classes
which differ only in their operator are grouped under an operator tag:

* `Expr.un`   : `plus_expression`, `minus_expression`, `not_expression`
* `Expr.bin`  : `eq_`, `neq_`, `lt_`, `leq_`, `geq_`, `gt_`, `implication_expression`
* `Expr.nary` : `disjunction_`, `conjunction_`, `exct_one_`, `addition_`, `subtraction_`,
                `multiplication_`, `division_expression` (a `std::vector` of operands)

Identifiers are the bytes of the `id_token` (`List Int`, as in `Tok.id`); a qualified
identifier (`std::vector<id_token>`) is a list of them.  Primitive type keywords appear, as in
the C++, as identifiers spelled `bool`, `int`, `real`, `tp`, `string`.

Core Lean only (compiled into the native driver).
-/
import OratioModel.Riddle.Lexer

namespace Oratio.Riddle

abbrev Name := List Int
abbrev QId := List Name

inductive UOp where
  | plus | minus | not
deriving DecidableEq, Repr, Inhabited

inductive BOp where
  | eq | neq | lt | leq | geq | gt | impl
deriving DecidableEq, Repr, Inhabited

inductive NOp where
  | disj | conj | xor | add | sub | mul | div
deriving DecidableEq, Repr, Inhabited

inductive Expr where
  | bool (b : Bool)
  | int (n : Int)
  | real (r : R)
  | str (s : List Int)
  | cast (tp : QId) (e : Expr)
  | un (op : UOp) (e : Expr)
  /-- `constructor_expression`: `new T(args)` -/
  | ctor (tp : QId) (args : List Expr)
  | bin (op : BOp) (l r : Expr)
  /-- `function_expression`: `ids.fn(args)` -/
  | call (ids : QId) (fn : Name) (args : List Expr)
  | id (ids : QId)
  | nary (op : NOp) (es : List Expr)
deriving Repr, Inhabited

inductive Stmt where
  /-- `local_field_statement`: the C++ keeps two parallel vectors `names` / `xprs` (a null
      pointer for a missing initialiser) -/
  | localField (tp : QId) (vars : List (Name × Option Expr))
  | assign (ids : QId) (id : Name) (e : Expr)
  | expr (e : Expr)
  | disj (conjs : List (List Stmt × Option Expr))
  | block (ss : List Stmt)
  | formula (isFact : Bool) (name : Name) (scope : QId) (pred : Name) (assns : List (Name × Expr))
  | ret (e : Expr)
deriving Repr, Inhabited

structure Param where
  tp : QId
  name : Name
deriving Repr, Inhabited

structure MethodDecl where
  rt : QId
  name : Name
  pars : List Param
  body : List Stmt
deriving Repr, Inhabited

structure PredDecl where
  name : Name
  pars : List Param
  supers : List QId
  body : List Stmt
deriving Repr, Inhabited

structure VarDecl where
  name : Name
  init : Option Expr
deriving Repr, Inhabited

structure FieldDecl where
  tp : QId
  vars : List VarDecl
deriving Repr, Inhabited

structure CtorDecl where
  pars : List Param
  inits : List (Name × List Expr)
  body : List Stmt
deriving Repr, Inhabited

inductive TypeDecl where
  | typedef (name : Name) (prim : Name) (e : Expr)
  | enum (name : Name) (vals : List (List Int)) (refs : List QId)
  | cls (name : Name) (bases : List QId) (fields : List FieldDecl) (ctors : List CtorDecl)
      (methods : List MethodDecl) (preds : List PredDecl) (types : List TypeDecl)
deriving Repr, Inhabited

/-- `compilation_unit(ms, ps, ts, stmnts)` -/
structure CompUnit where
  methods : List MethodDecl
  preds : List PredDecl
  types : List TypeDecl
  stmts : List Stmt
deriving Repr, Inhabited

end Oratio.Riddle
