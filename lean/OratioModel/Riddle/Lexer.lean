/-
Model of `riddle::lexer` (/repo/riddle/riddle_lexer.{h,cpp}).

Input: the bytes of the text as `unsigned char` values (`Int` in 0..255); `next_char()` returns
`-1` at the end of the input only (the functions still test for `-1` inside the stream, as the
C++ does; with byte-valued streams those tests never fire).  Line/column bookkeeping is
omitted (it only decorates error messages).
Keywords: the C++ walks a hand-written trie letter by letter and falls back to `finish_id`;
that is "read the maximal run of identifier characters, then look the word up", which is what
the model does (the token-level correspondence ties the two, keyword by keyword and on every
prefix / extension of a keyword).
-/
import OratioModel.Arith.Rational

namespace Oratio.Riddle

inductive Sym where
  | BOOL | INT | REAL | TP | STRING | TYPEDEF | ENUM | CLASS | GOAL | FACT | PREDICATE | NEW | OR
  | THIS | VOID | RETURN | DOT | COMMA | COLON | SEMICOLON | LPAREN | RPAREN | LBRACKET | RBRACKET
  | LBRACE | RBRACE | PLUS | MINUS | STAR | SLASH | AMP | BAR | EQ | GT | LT | BANG | EQEQ | LTEQ
  | GTEQ | BANGEQ | IMPLICATION | CARET | EOF
deriving DecidableEq, Repr, Inhabited

inductive Tok where
  | sym (s : Sym)
  | id (name : List Int)
  | bool (b : Bool)
  | int (n : Int)
  | real (r : R)
  | str (s : List Int)
deriving DecidableEq, Repr, Inhabited

inductive LexErr where
  | newlineInString | unterminatedString | unterminatedComment | invalidNumeric | outOfRange | invalidToken
  | fuel   -- the model's own bound on re-entries was exhausted (never happens: `C18_lexer_total`)
deriving DecidableEq, Repr

def ch (c : Char) : Int := c.toNat

def isDigit (c : Int) : Bool := ch '0' ≤ c && c ≤ ch '9'
/-- `is_id_part` -/
def isIdPart (c : Int) : Bool :=
  c == ch '_' || (ch 'a' ≤ c && c ≤ ch 'z') || (ch 'A' ≤ c && c ≤ ch 'Z') || isDigit c
def isIdStart (c : Int) : Bool := c == ch '_' || (ch 'a' ≤ c && c ≤ ch 'z') || (ch 'A' ≤ c && c ≤ ch 'Z')
def isSpace (c : Int) : Bool := c == ch ' ' || c == ch '\t' || c == ch '\r' || c == ch '\n'

/-- the input as the lexer consumes it: the head is the current character `ch`; the empty
    list is end of input (`ch == -1`); the byte 0xFF also reads as `-1` -/
abbrev Stream := List Int

def cur (s : Stream) : Int := s.headD (-1)

def strInts (s : String) : List Int := s.toList.map ch

/-- the keyword table of the hand-written trie -/
def keywords : List (String × Tok) :=
  [("bool", .sym .BOOL), ("class", .sym .CLASS), ("enum", .sym .ENUM), ("fact", .sym .FACT), ("false", .bool false),
   ("goal", .sym .GOAL), ("int", .sym .INT), ("new", .sym .NEW), ("or", .sym .OR), ("predicate", .sym .PREDICATE),
   ("real", .sym .REAL), ("return", .sym .RETURN), ("string", .sym .STRING), ("tp", .sym .TP), ("true", .bool true),
   ("typedef", .sym .TYPEDEF), ("void", .sym .VOID)]

def wordTok (w : List Int) : Tok :=
  match keywords.find? (fun k => strInts k.1 == w) with
  | some k => k.2
  | none => .id w

/-- value of a digit string (`std::stol` on digits) -/
def digitsVal (ds : List Int) : Int := ds.foldl (fun a d => a * 10 + (d - ch '0')) 0

def longMax : Int := 9223372036854775807

/-- maximal run of characters satisfying `p` (`p (-1)` is false for every `p` used) -/
def takeRun (p : Int → Bool) : Stream → List Int × Stream
  | [] => ([], [])
  | c :: r => if p c then let (w, r') := takeRun p r; (c :: w, r') else ([], c :: r)

/-- body of a string literal (the stream starts after the opening quote); returns the
    contents and the stream after the closing quote -/
def lexString : Stream → Except LexErr (List Int × Stream)
  | [] => .error .unterminatedString
  | c :: r =>
    if c == ch '"' then .ok ([], r)
    else if c == ch '\\' then
      match r with
      | [] => .error .unterminatedString
      | e :: r' =>
        if e == -1 then .error .unterminatedString
        else match lexString r' with
          | .ok (w, r'') => .ok (e :: w, r'')
          | .error x => .error x
    else if c == ch '\r' || c == ch '\n' then .error .newlineInString
    else if c == -1 then .error .unterminatedString
    else match lexString r with
      | .ok (w, r') => .ok (c :: w, r')
      | .error x => .error x

/-- inside `/* … */`; `star` = the previous character was a `*` -/
def skipBlock (star : Bool) : Stream → Except LexErr Stream
  | [] => .error .unterminatedComment
  | c :: r =>
    if c == -1 then .error .unterminatedComment
    else if star && c == ch '/' then .ok r
    else skipBlock (c == ch '*') r

/-- inside `// …`: up to (not including) the end of line; `none` = end of input reached -/
def skipLine : Stream → Option Stream
  | [] => none
  | c :: r => if c == ch '\r' || c == ch '\n' then some (c :: r) else if c == -1 then none else skipLine r

/-- numeric literal starting with a digit: `[0-9]+ ('.' [0-9]*)?` -/
def lexNumber (s : Stream) : Except LexErr (Tok × Stream) :=
  let (intgr, r) := takeRun isDigit s
  if cur r == ch '.' then
    let (dec, r') := takeRun isDigit (r.drop 1)
    if cur r' == ch '.' then .error .invalidNumeric
    else if dec.length > 18 then .error .outOfRange
    else
      let n := digitsVal (intgr ++ dec)
      if n > longMax then .error .outOfRange else .ok (.real (R.mk2 n (10 ^ dec.length)), r')
  else
    let n := digitsVal intgr
    if n > longMax then .error .outOfRange else .ok (.int n, r)

/-- `lexer::next()`; the fuel bounds the re-entries after white space and comments -/
def nextTok : Nat → Stream → Except LexErr (Tok × Stream)
  | 0, _ => .error .fuel
  | fuel + 1, s =>
    match s with
    | [] => .ok (.sym .EOF, [])
    | c :: r =>
      if c == -1 then .ok (.sym .EOF, r)
      else if isSpace c then
        let r' := r.dropWhile isSpace
        if cur r' == -1 then .ok (.sym .EOF, r'.drop 1) else nextTok fuel r'
      else if c == ch '"' then
        match lexString r with
        | .ok (w, r') => .ok (.str w, r')
        | .error e => .error e
      else if c == ch '/' then
        if cur r == ch '/' then
          match skipLine (r.drop 1) with
          | none => .ok (.sym .EOF, [])
          | some r' => nextTok fuel r'
        else if cur r == ch '*' then
          match skipBlock false (r.drop 1) with
          | .ok r' => nextTok fuel r'
          | .error e => .error e
        else .ok (.sym .SLASH, r)
      else if c == ch '=' then (if cur r == ch '=' then .ok (.sym .EQEQ, r.drop 1) else .ok (.sym .EQ, r))
      else if c == ch '>' then (if cur r == ch '=' then .ok (.sym .GTEQ, r.drop 1) else .ok (.sym .GT, r))
      else if c == ch '<' then (if cur r == ch '=' then .ok (.sym .LTEQ, r.drop 1) else .ok (.sym .LT, r))
      else if c == ch '+' then .ok (.sym .PLUS, r)
      else if c == ch '-' then (if cur r == ch '>' then .ok (.sym .IMPLICATION, r.drop 1) else .ok (.sym .MINUS, r))
      else if c == ch '*' then .ok (.sym .STAR, r)
      else if c == ch '|' then .ok (.sym .BAR, r)
      else if c == ch '&' then .ok (.sym .AMP, r)
      else if c == ch '^' then .ok (.sym .CARET, r)
      else if c == ch '!' then (if cur r == ch '=' then .ok (.sym .BANGEQ, r.drop 1) else .ok (.sym .BANG, r))
      else if c == ch '.' then
        if isDigit (cur r) then
          let (dec, r') := takeRun isDigit r
          if cur r' == ch '.' then .error .invalidNumeric
          else if dec.length > 18 then .error .outOfRange
          else
            let n := digitsVal dec
            if n > longMax then .error .outOfRange else .ok (.real (R.mk2 n (10 ^ dec.length)), r')
        else .ok (.sym .DOT, r)
      else if c == ch ',' then .ok (.sym .COMMA, r)
      else if c == ch ';' then .ok (.sym .SEMICOLON, r)
      else if c == ch ':' then .ok (.sym .COLON, r)
      else if c == ch '(' then .ok (.sym .LPAREN, r)
      else if c == ch ')' then .ok (.sym .RPAREN, r)
      else if c == ch '[' then .ok (.sym .LBRACKET, r)
      else if c == ch ']' then .ok (.sym .RBRACKET, r)
      else if c == ch '{' then .ok (.sym .LBRACE, r)
      else if c == ch '}' then .ok (.sym .RBRACE, r)
      else if isDigit c then lexNumber s
      else if isIdStart c then
        let (w, r') := takeRun isIdPart s
        .ok (wordTok w, r')
      else .error .invalidToken

/-- the token stream up to and including `EOF`, as the parser pulls it -/
def lexAll : Nat → Stream → Except LexErr (List Tok)
  | 0, _ => .error .fuel
  | fuel + 1, s =>
    match nextTok (s.length + 2) s with
    | .error e => .error e
    | .ok (.sym .EOF, _) => .ok [.sym .EOF]
    | .ok (t, r) => match lexAll fuel r with
      | .ok ts => .ok (t :: ts)
      | .error e => .error e

def lex (s : Stream) : Except LexErr (List Tok) := lexAll (s.length + 2) s

end Oratio.Riddle
