/-
Model of `riddle::parser` (/repo/riddle/riddle_parser.cpp): a transcription, function by
function, of the hand-written recursive-descent / precedence-climbing parser.

State.  The C++ keeps `tks` (all tokens pulled from the lexer so far), `pos` and the current
token `tk = tks[pos-1]`.  Here the state is the list of tokens from the current one on: the
head is `tk`, `next()` is the tail, `backtrack(c_pos)` is "continue with the list saved at
`c_pos`".  The C++ pulls tokens lazily, so a lexer error is raised at the moment the parser
ADVANCES onto a token the lexer cannot produce.  The model is given the tokens that precede
the first lexer error (all of them, ending in `EOF`, if there is none); advancing beyond the
last one (`adv`) is the result `PErr.lexer`, which the driver prints as the lexer's message.

Results.  `PErr.msg s` is `parser::error(s)` (the text without the `[line, col] ` prefix),
`PErr.lexer` as above, `PErr.ub` is reserved for places where the C++ has undefined behaviour
(none at present: the one such place, the unchecked `static_cast<id_token *>` of the name
after a `,` in a local field with a qualified type, has been fixed in the C++), `PErr.fuel`
is "out of fuel" — it is never accepted silently and `C16_parser_total` proves it unreachable
from the entry points.

Recursion.  Every loop/recursion through `_expression`, `_statement`, `_class_declaration`
is by structural recursion on an explicit fuel argument; the entry points `parseExpr`,
`parseStmt`, `parseClass`, `parseUnit` pass a fuel that is linear in the number of tokens.

Core Lean only (compiled into the native driver).
-/
import OratioModel.Riddle.Ast

namespace Oratio.Riddle

inductive PErr where
  | msg (s : String)
  | lexer
  | ub (what : String)
  | fuel
deriving DecidableEq, Repr, Inhabited

/-- result of a parsing function: a value and the remaining tokens (head = current `tk`) -/
notation:max "PR " α:max => Except PErr (α × List Tok)

/-! ### error texts (the argument of `parser::error`) -/
def eId : String := "expected identifier.."
def eSemi : String := "expected ';'.."
def eLParen : String := "expected '('.."
def eRParen : String := "expected ')'.."
def eLBrace : String := "expected '{'.."
def eRBrace : String := "expected '}'.."
def eRBracket : String := "expected ']'.."
def eType : String := "expected either 'bool' or 'int' or 'real' or 'string' or an identifier.."
def eDecl : String := "expected either 'typedef' or 'enum' or 'class' or 'predicate' or 'void' or identifier.."
def eMember : String := "expected either '(' or '=' or ';'.."
def ePrimary : String := "expected either '(' or '+' or '-' or '!' or '[' or 'new' or a literal or an identifier.."

/-! ### token primitives -/

/-- `tk = next()`: the lexer must be able to deliver the following token -/
def adv : List Tok → Except PErr (List Tok)
  | _ :: t :: r => .ok (t :: r)
  | _ => .error .lexer

/-- `tk->sym == s` -/
def isSym (s : Sym) : List Tok → Bool
  | .sym s' :: _ => s == s'
  | _ => false

/-- `match(s)` -/
def matchSym (s : Sym) (toks : List Tok) : Except PErr (Bool × List Tok) :=
  if isSym s toks then do let t ← adv toks; pure (true, t) else pure (false, toks)

/-- `if (!match(s)) error(m);` -/
def expectSym (s : Sym) (m : String) (toks : List Tok) : Except PErr (List Tok) :=
  if isSym s toks then adv toks else .error (.msg m)

/-- `if (!match(ID_ID)) error("expected identifier.."); … tks[pos - 2]` -/
def expectId (toks : List Tok) : PR Name :=
  match toks with
  | .id n :: _ => do let t ← adv toks; pure (n, t)
  | [] => .error .lexer
  | _ => .error (.msg eId)

/-- `while (match(DOT_ID)) { if (!match(ID_ID)) error("expected identifier.."); ids.emplace_back(…); }` -/
def dotIds : List Tok → PR QId
  | .sym .DOT :: .id n :: t :: r => do
    let (ns, r') ← dotIds (t :: r)
    pure (n :: ns, r')
  | .sym .DOT :: .id _ :: [] => .error .lexer
  | .sym .DOT :: [] => .error .lexer
  | .sym .DOT :: _ :: _ => .error (.msg eId)
  | toks => .ok ([], toks)

/-- `do { if (!match(ID_ID)) error(…); ids.emplace_back(…); } while (match(DOT_ID));` -/
def qid (toks : List Tok) : PR QId := do
  let (n, t1) ← expectId toks
  let (ns, t2) ← dotIds t1
  pure (n :: ns, t2)

def primName : Sym → Option Name
  | .BOOL => some (strInts "bool")
  | .INT => some (strInts "int")
  | .REAL => some (strInts "real")
  | .TP => some (strInts "tp")
  | .STRING => some (strInts "string")
  | _ => none

/-- the type `switch` shared by parameters and field declarations -/
def parType (toks : List Tok) : PR QId :=
  match toks with
  | .sym s :: _ =>
    match primName s with
    | some n => do let t ← adv toks; pure ([n], t)
    | none => .error (.msg eType)
  | .id n :: _ => do
    let t ← adv toks
    let (ns, t') ← dotIds t
    pure (n :: ns, t')
  | [] => .error .lexer
  | _ => .error (.msg eType)

/-- `do { item } while (match(sep));` -/
def sepBy1 {α : Type} (item : List Tok → PR α) (sep : Sym) : Nat → List Tok → PR (List α)
  | 0, _ => .error .fuel
  | f + 1, toks => do
    let (x, t1) ← item toks
    let (b, t2) ← matchSym sep t1
    if b then do
      let (xs, t3) ← sepBy1 item sep f t2
      pure (x :: xs, t3)
    else pure ([x], t1)

/-- `while (!match(close)) xs.emplace_back(item());` -/
def untilSym {α : Type} (item : List Tok → PR α) (close : Sym) : Nat → List Tok → PR (List α)
  | 0, _ => .error .fuel
  | f + 1, toks => do
    let (b, t1) ← matchSym close toks
    if b then pure ([], t1)
    else do
      let (x, t2) ← item toks
      let (xs, t3) ← untilSym item close f t2
      pure (x :: xs, t3)

/-! ### expressions: `parser::_expression(pr)` -/

inductive OpKind where
  | bin (op : BOp)
  | nary (op : NOp)
deriving DecidableEq, Repr

/-- The `while` condition and the `switch` of `_expression(pr)` as a table: the node the
    operator builds and its level `l` (the operator is taken iff `l ≥ pr`).  In every case the
    right operand(s) are parsed by `_expression(l + 1)`. -/
def opInfo : Sym → Option (OpKind × Nat)
  | .EQEQ => some (.bin .eq, 0)
  | .BANGEQ => some (.bin .neq, 0)
  | .LT => some (.bin .lt, 1)
  | .LTEQ => some (.bin .leq, 1)
  | .GTEQ => some (.bin .geq, 1)
  | .GT => some (.bin .gt, 1)
  | .IMPLICATION => some (.bin .impl, 1)
  | .BAR => some (.nary .disj, 1)
  | .AMP => some (.nary .conj, 1)
  | .CARET => some (.nary .xor, 1)
  | .PLUS => some (.nary .add, 2)
  | .MINUS => some (.nary .sub, 2)
  | .STAR => some (.nary .mul, 3)
  | .SLASH => some (.nary .div, 3)
  | _ => none

/-- the `switch` after `'(' qualified-id ')'`: the beginning of an operand -/
def operandStart : List Tok → Bool
  | .bool _ :: _ => true
  | .int _ :: _ => true
  | .real _ :: _ => true
  | .str _ :: _ => true
  | .id _ :: _ => true
  | .sym .LPAREN :: _ => true
  | .sym .BANG :: _ => true
  | .sym .NEW :: _ => true
  | _ => false

/-- The look-ahead after `(` that decides cast vs parenthesis (the C++ backtracks afterwards,
    so nothing is consumed; a lexer error met while looking ahead is raised):
    `do { if (!match(ID_ID)) { is_cast = false; break; } } while (match(DOT_ID));`
    `if (is_cast && match(RPAREN_ID)) switch (tk->sym) { operand start: break; default: is_cast = false; } else is_cast = false;` -/
def castLook : List Tok → Except PErr Bool
  | .id _ :: t :: r =>
    match t with
    | .sym .DOT => (match r with | [] => .error .lexer | _ :: _ => castLook r)
    | .sym .RPAREN => (match r with | [] => .error .lexer | _ :: _ => .ok (operandStart r))
    | _ => .ok false
  | .id _ :: [] => .error .lexer
  | _ => .ok false

def splitLast (n : Name) (ns : List Name) : QId × Name := ((n :: ns).dropLast, (n :: ns).getLastD n)

mutual
/-- `_expression(pr)` -/
def pExpr : Nat → Nat → List Tok → PR Expr
  | 0, _, _ => .error .fuel
  | f + 1, pr, toks => do
    let (e, t1) ← pPrimary f toks
    pLoop f pr e t1

/-- the first `switch` of `_expression` -/
def pPrimary : Nat → List Tok → PR Expr
  | 0, _ => .error .fuel
  | f + 1, toks =>
    match toks with
    | [] => .error .lexer
    | .bool b :: _ => do let t ← adv toks; pure (.bool b, t)
    | .int n :: _ => do let t ← adv toks; pure (.int n, t)
    | .real r :: _ => do let t ← adv toks; pure (.real r, t)
    | .str s :: _ => do let t ← adv toks; pure (.str s, t)
    | .sym .LPAREN :: _ => do
      let t1 ← adv toks
      let isCast ← castLook t1
      if isCast then do
        let (ids, t2) ← qid t1
        let t3 ← expectSym .RPAREN eRParen t2
        let (x, t4) ← pExpr f 0 t3
        pure (.cast ids x, t4)
      else do
        let (x, t2) ← pExpr f 0 t1
        let t3 ← expectSym .RPAREN eRParen t2
        pure (x, t3)
    | .sym .PLUS :: _ => do
      let t1 ← adv toks
      let (x, t2) ← pExpr f 4 t1
      pure (.un .plus x, t2)
    | .sym .MINUS :: _ => do
      let t1 ← adv toks
      let (x, t2) ← pExpr f 4 t1
      pure (.un .minus x, t2)
    | .sym .BANG :: _ => do
      let t1 ← adv toks
      let (x, t2) ← pExpr f 4 t1
      pure (.un .not x, t2)
    | .sym .NEW :: _ => do
      let t1 ← adv toks
      let (ids, t2) ← qid t1
      let t3 ← expectSym .LPAREN eLParen t2
      let (args, t4) ← pCallArgs f t3
      pure (.ctor ids args, t4)
    | .id n :: _ => do
      let t1 ← adv toks
      let (ns, t2) ← dotIds t1
      let (b, t3) ← matchSym .LPAREN t2
      if b then do
        let (args, t4) ← pCallArgs f t3
        let (is, fn) := splitLast n ns
        pure (.call is fn args, t4)
      else pure (.id (n :: ns), t2)
    | _ => .error (.msg ePrimary)

/-- `if (!match(RPAREN_ID)) { do { xprs.emplace_back(_expression()); } while (match(COMMA_ID)); if (!match(RPAREN_ID)) error("expected ')'.."); }` -/
def pCallArgs : Nat → List Tok → PR (List Expr)
  | 0, _ => .error .fuel
  | f + 1, toks => do
    let (b, t1) ← matchSym .RPAREN toks
    if b then pure ([], t1)
    else do
      let (xs, t2) ← pArgs f toks
      let t3 ← expectSym .RPAREN eRParen t2
      pure (xs, t3)

/-- `do { xprs.emplace_back(_expression()); } while (match(COMMA_ID));` -/
def pArgs : Nat → List Tok → PR (List Expr)
  | 0, _ => .error .fuel
  | f + 1, toks => do
    let (x, t1) ← pExpr f 0 toks
    let (b, t2) ← matchSym .COMMA t1
    if b then do
      let (xs, t3) ← pArgs f t2
      pure (x :: xs, t3)
    else pure ([x], t1)

/-- the `while` loop of `_expression(pr)`; `e` is the expression built so far -/
def pLoop : Nat → Nat → Expr → List Tok → PR Expr
  | 0, _, _, _ => .error .fuel
  | f + 1, pr, e, toks =>
    match toks with
    | .sym s :: _ =>
      match opInfo s with
      | some (.bin op, lvl) =>
        if lvl ≥ pr then do
          let t1 ← adv toks
          let (r, t2) ← pExpr f (lvl + 1) t1
          pLoop f pr (.bin op e r) t2
        else pure (e, toks)
      | some (.nary op, lvl) =>
        if lvl ≥ pr then do
          let (xs, t1) ← pNary f s (lvl + 1) [e] toks
          pLoop f pr (.nary op xs) t1
        else pure (e, toks)
      | none => pure (e, toks)
    | [] => .error .lexer
    | _ => pure (e, toks)

/-- `while (match(s)) xprs.emplace_back(_expression(lvl));` -/
def pNary : Nat → Sym → Nat → List Expr → List Tok → PR (List Expr)
  | 0, _, _, _, _ => .error .fuel
  | f + 1, s, lvl, acc, toks =>
    if isSym s toks then do
      let t1 ← adv toks
      let (x, t2) ← pExpr f lvl t1
      pNary f s lvl (acc ++ [x]) t2
    else pure (acc, toks)
end

/-- fuel passed by the entry point `parseExpr` -/
def exprFuel (toks : List Tok) : Nat := 3 * toks.length + 2

/-- `_expression()` (default `pr = 0`) -/
def parseExpr (toks : List Tok) : PR Expr := pExpr (exprFuel toks) 0 toks

/-! ### statements: `parser::_statement()` -/

/-- `if (tk->sym == EQ_ID) { tk = next(); es.emplace_back(_expression()); } else es.emplace_back(nullptr);` -/
def optInit (toks : List Tok) : PR (Option Expr) :=
  if isSym .EQ toks then do
    let t1 ← adv toks
    let (e, t2) ← parseExpr t1
    pure (some e, t2)
  else pure (none, toks)

/-- one declarator of a local field with a primitive type -/
def localVar (toks : List Tok) : PR (Name × Option Expr) := do
  let (n, t1) ← expectId toks
  let (e, t2) ← optInit t1
  pure ((n, e), t2)

/-- one declarator of a local field with a qualified type:
    `if (tk->sym != ID_ID) error("expected identifier.."); ns.emplace_back(*static_cast<id_token *>(tk)); tk = next();` -/
def localVarU (toks : List Tok) : PR (Name × Option Expr) :=
  match toks with
  | .id n :: _ => do
    let t1 ← adv toks
    let (e, t2) ← optInit t1
    pure ((n, e), t2)
  | [] => .error .lexer
  | _ => .error (.msg eId)

/-- `if (match(LBRACKET_ID)) { e = _expression(); if (!match(RBRACKET_ID)) error("expected ']'.."); }` -/
def optCost (toks : List Tok) : PR (Option Expr) := do
  let (b, t1) ← matchSym .LBRACKET toks
  if b then do
    let (e, t2) ← parseExpr t1
    let t3 ← expectSym .RBRACKET eRBracket t2
    pure (some e, t3)
  else pure (none, toks)

/-- `assgn_name ':' _expression()` -/
def formulaArg (toks : List Tok) : PR (Name × Expr) := do
  let (n, t1) ← expectId toks
  let t2 ← expectSym .COLON "expected ':'.." t1
  let (e, t3) ← parseExpr t2
  pure ((n, e), t3)

/-- the tokens after a (qualified) identifier that send `_statement` to `_expression` -/
def exprFollow : Sym → Bool
  | .PLUS | .MINUS | .STAR | .SLASH | .LT | .LTEQ | .EQEQ | .GTEQ | .GT | .BANGEQ | .IMPLICATION
  | .BAR | .AMP | .CARET | .LPAREN | .SEMICOLON => true
  | _ => false

/-- `case FACT_ID: case GOAL_ID:` after `tk = next()` -/
def formulaBody (isFact : Bool) (toks : List Tok) : PR Stmt := do
  let (fn, t1) ← expectId toks
  let t2 ← expectSym .EQ "expected '='.." t1
  let t3 ← expectSym .NEW "expected 'new'.." t2
  let (scp, t4) ← qid t3
  let t5 ← expectSym .LPAREN eLParen t4
  let (b, t6) ← matchSym .RPAREN t5
  let (assns, t7) ←
    (if b then (pure ([], t6) : PR (List (Name × Expr)))
     else do
      let (as, u1) ← sepBy1 formulaArg .COMMA (t5.length + 1) t5
      let u2 ← expectSym .RPAREN eRParen u1
      pure (as, u2))
  let t8 ← expectSym .SEMICOLON eSemi t7
  pure (.formula isFact fn scp.dropLast (scp.getLastD []) assns, t8)

mutual
/-- `_statement()` -/
def pStmt : Nat → List Tok → PR Stmt
  | 0, _ => .error .fuel
  | f + 1, toks =>
    match toks with
    | [] => .error .lexer
    | .id n :: _ => do
      -- either a local field, an assignment or an expression..
      let t1 ← adv toks
      let (ns, t2) ← dotIds t1
      match t2 with
      | .id _ :: _ => do
        let (vars, t3) ← sepBy1 localVarU .COMMA (t2.length + 1) t2
        let t4 ← expectSym .SEMICOLON eSemi t3
        pure (.localField (n :: ns) vars, t4)
      | .sym .EQ :: _ => do
        let t3 ← adv t2
        let (e, t4) ← parseExpr t3
        let t5 ← expectSym .SEMICOLON eSemi t4
        let (is, i) := splitLast n ns
        pure (.assign is i e, t5)
      | .sym s :: _ =>
        if exprFollow s then do
          -- backtrack(c_pos)
          let (e, t3) ← parseExpr toks
          let t4 ← expectSym .SEMICOLON eSemi t3
          pure (.expr e, t4)
        else .error (.msg "expected either '=' or an identifier..")
      | [] => .error .lexer
      | _ => .error (.msg "expected either '=' or an identifier..")
    | .sym .LBRACE :: _ => do
      -- either a block or a disjunction..
      let t1 ← adv toks
      let (ss, t2) ← pBlockBody f t1
      if isSym .LBRACKET t2 || isSym .OR t2 then do
        let (e, t3) ← optCost t2
        let (conjs, t4) ← pDisjRest f t3
        pure (.disj ((ss, e) :: conjs), t4)
      else pure (.block ss, t2)
    | .sym .FACT :: _ => do
      let t1 ← adv toks
      formulaBody true t1
    | .sym .GOAL :: _ => do
      let t1 ← adv toks
      formulaBody false t1
    | .sym .RETURN :: _ => do
      let t1 ← adv toks
      let (e, t2) ← parseExpr t1
      let t3 ← expectSym .SEMICOLON eSemi t2
      pure (.ret e, t3)
    | .sym s :: _ =>
      match primName s with
      | some p => do
        -- a local field having a primitive type..
        let t1 ← adv toks
        let (vars, t2) ← sepBy1 localVar .COMMA (t1.length + 1) t1
        let t3 ← expectSym .SEMICOLON eSemi t2
        pure (.localField [p] vars, t3)
      | none => do
        let (e, t1) ← parseExpr toks
        let t2 ← expectSym .SEMICOLON eSemi t1
        pure (.expr e, t2)
    | _ => do
      let (e, t1) ← parseExpr toks
      let t2 ← expectSym .SEMICOLON eSemi t1
      pure (.expr e, t2)

/-- `do { stmnts.emplace_back(_statement()); } while (!match(RBRACE_ID));` -/
def pBlockBody : Nat → List Tok → PR (List Stmt)
  | 0, _ => .error .fuel
  | f + 1, toks => do
    let (s, t1) ← pStmt f toks
    let (b, t2) ← matchSym .RBRACE t1
    if b then pure ([s], t2)
    else do
      let (ss, t3) ← pBlockBody f t1
      pure (s :: ss, t3)

/-- `while (!match(RBRACE_ID)) stmnts.emplace_back(_statement());` -/
def pStmts : Nat → List Tok → PR (List Stmt)
  | 0, _ => .error .fuel
  | f + 1, toks => do
    let (b, t1) ← matchSym .RBRACE toks
    if b then pure ([], t1)
    else do
      let (s, t2) ← pStmt f toks
      let (ss, t3) ← pStmts f t2
      pure (s :: ss, t3)

/-- `while (match(OR_ID)) { '{' statements '}' [ '[' cost ']' ] }` -/
def pDisjRest : Nat → List Tok → PR (List (List Stmt × Option Expr))
  | 0, _ => .error .fuel
  | f + 1, toks => do
    let (b, t1) ← matchSym .OR toks
    if b then do
      let t2 ← expectSym .LBRACE eLBrace t1
      let (ss, t3) ← pStmts f t2
      let (e, t4) ← optCost t3
      let (conjs, t5) ← pDisjRest f t4
      pure ((ss, e) :: conjs, t5)
    else pure ([], toks)
end

def stmtFuel (toks : List Tok) : Nat := 3 * toks.length + 2

def parseStmt (toks : List Tok) : PR Stmt := pStmt (stmtFuel toks) toks

/-- `if (!match(LBRACE_ID)) error("expected '{'.."); while (!match(RBRACE_ID)) stmnts.emplace_back(_statement());` -/
def body (toks : List Tok) : PR (List Stmt) := do
  let t1 ← expectSym .LBRACE eLBrace toks
  untilSym parseStmt .RBRACE (t1.length + 1) t1

/-! ### declarations -/

def param (toks : List Tok) : PR Param := do
  let (tp, t1) ← parType toks
  let (n, t2) ← expectId t1
  pure (⟨tp, n⟩, t2)

/-- `if (!match(LPAREN_ID)) error(…); if (!match(RPAREN_ID)) { do { … } while (match(COMMA_ID)); if (!match(RPAREN_ID)) error(…); }` -/
def params (toks : List Tok) : PR (List Param) := do
  let t1 ← expectSym .LPAREN eLParen toks
  let (b, t2) ← matchSym .RPAREN t1
  if b then pure ([], t2)
  else do
    let (ps, t3) ← sepBy1 param .COMMA (t1.length + 1) t1
    let t4 ← expectSym .RPAREN eRParen t3
    pure (ps, t4)

/-- `_typedef_declaration()` -/
def parseTypedef (toks : List Tok) : PR TypeDecl := do
  let t1 ← expectSym .TYPEDEF "expected 'typedef'.." toks
  match t1 with
  | .sym s :: _ =>
    match primName s with
    | some p => do
      let t2 ← adv t1
      let (e, t3) ← parseExpr t2
      let (n, t4) ← expectId t3
      let t5 ← expectSym .SEMICOLON eSemi t4
      pure (.typedef n p e, t5)
    | none => .error (.msg "expected primitive type..")
  | [] => .error .lexer
  | _ => .error (.msg "expected primitive type..")

/-- one alternative of an enum: a brace list of string literals or a reference to an enum -/
def enumAlt (toks : List Tok) : PR (List (List Int) ⊕ QId) :=
  match toks with
  | .sym .LBRACE :: _ => do
    let t1 ← adv toks
    let strLit : List Tok → PR (List Int) := fun ts =>
      match ts with
      | .str s :: _ => do let u ← adv ts; pure (s, u)
      | [] => .error .lexer
      | _ => .error (.msg "expected string literal..")
    let (ss, t2) ← sepBy1 strLit .COMMA (t1.length + 1) t1
    let t3 ← expectSym .RBRACE eRBrace t2
    pure (.inl ss, t3)
  | .id n :: _ => do
    let t1 ← adv toks
    let (ns, t2) ← dotIds t1
    pure (.inr (n :: ns), t2)
  | [] => .error .lexer
  | _ => .error (.msg "expected either '{' or identifier..")

/-- `_enum_declaration()` -/
def parseEnum (toks : List Tok) : PR TypeDecl := do
  let t1 ← expectSym .ENUM "expected 'enum'.." toks
  let (n, t2) ← expectId t1
  let (alts, t3) ← sepBy1 enumAlt .BAR (t2.length + 1) t2
  let t4 ← expectSym .SEMICOLON eSemi t3
  let es := alts.flatMap (fun a => match a with | .inl ss => ss | .inr _ => [])
  let trs := alts.filterMap (fun a => match a with | .inl _ => none | .inr q => some q)
  pure (.enum n es trs, t4)

/-- `name [ '=' _expression() ]` of a field declaration -/
def varDecl (toks : List Tok) : PR VarDecl := do
  let (n, t1) ← expectId toks
  let (b, t2) ← matchSym .EQ t1
  if b then do
    let (e, t3) ← parseExpr t2
    pure (⟨n, some e⟩, t3)
  else pure (⟨n, none⟩, t1)

/-- `_field_declaration()` -/
def parseField (toks : List Tok) : PR FieldDecl := do
  let (tp, t1) ← parType toks
  let (vs, t2) ← sepBy1 varDecl .COMMA (t1.length + 1) t1
  let t3 ← expectSym .SEMICOLON eSemi t2
  pure (⟨tp, vs⟩, t3)

/-- the return type of `_method_declaration()` when it is not `void`: a primitive type keyword
    (`switch (tk->sym)`) or, `default:`, a qualified identifier -/
def retType (toks : List Tok) : PR QId :=
  match toks with
  | .sym s :: _ =>
    match primName s with
    | some p => do let t ← adv toks; pure ([p], t)
    | none => qid toks
  | _ => qid toks

/-- `_method_declaration()` -/
def parseMethod (toks : List Tok) : PR MethodDecl := do
  let (b, t1) ← matchSym .VOID toks
  let (rt, t2) ← (if b then (pure ([], t1) : PR QId) else retType toks)
  let (n, t3) ← expectId t2
  let (ps, t4) ← params t3
  let (ss, t5) ← body t4
  pure (⟨rt, n, ps, ss⟩, t5)

/-- `pn '(' [ _expression() { ',' _expression() } ] ')'` of a constructor's initialisation list -/
def initItem (toks : List Tok) : PR (Name × List Expr) := do
  let (n, t1) ← expectId toks
  let t2 ← expectSym .LPAREN eLParen t1
  let (b, t3) ← matchSym .RPAREN t2
  if b then pure ((n, []), t3)
  else do
    let (xs, t4) ← sepBy1 parseExpr .COMMA (t2.length + 1) t2
    let t5 ← expectSym .RPAREN eRParen t4
    pure ((n, xs), t5)

/-- `_constructor_declaration()` -/
def parseCtor (toks : List Tok) : PR CtorDecl := do
  let (_, t1) ← expectId toks
  let (ps, t2) ← params t1
  let (b, t3) ← matchSym .COLON t2
  let (il, t4) ← (if b then sepBy1 initItem .COMMA (t3.length + 1) t3 else (pure ([], t2) : PR (List (Name × List Expr))))
  let (ss, t5) ← body t4
  pure (⟨ps, il, ss⟩, t5)

/-- `_predicate_declaration()` -/
def parsePredicate (toks : List Tok) : PR PredDecl := do
  let t1 ← expectSym .PREDICATE "expected 'predicate'.." toks
  let (n, t2) ← expectId t1
  let (ps, t3) ← params t2
  let (b, t4) ← matchSym .COLON t3
  let (pl, t5) ← (if b then sepBy1 qid .COMMA (t4.length + 1) t4 else (pure ([], t3) : PR (List QId)))
  let (ss, t6) ← body t5
  pure (⟨n, ps, pl, ss⟩, t6)

inductive Member where
  | field (d : FieldDecl)
  | ctor (d : CtorDecl)
  | method (d : MethodDecl)
  | pred (d : PredDecl)
  | type (d : TypeDecl)
deriving Inhabited

inductive MemberKind where
  | field | ctor | method
deriving DecidableEq, Repr

/-- the look-ahead of `_class_declaration` on a member that starts with a primitive type -/
def lookPrimMember (toks : List Tok) : Except PErr MemberKind := do
  let t1 ← adv toks
  let (_, t2) ← expectId t1
  match t2 with
  | .sym .LPAREN :: _ => pure .method
  | .sym .EQ :: _ => pure .field
  | .sym .COMMA :: _ => pure .field
  | .sym .SEMICOLON :: _ => pure .field
  | [] => .error .lexer
  | _ => .error (.msg eMember)

/-- `switch (tk->sym) { case LPAREN_ID: method; case EQ_ID: case COMMA_ID: case SEMICOLON_ID: field; default: error }` -/
def memberTail (toks : List Tok) : Except PErr MemberKind :=
  match toks with
  | .sym .LPAREN :: _ => pure .method
  | .sym .EQ :: _ => pure .field
  | .sym .COMMA :: _ => pure .field
  | .sym .SEMICOLON :: _ => pure .field
  | [] => .error .lexer
  | _ => .error (.msg eMember)

/-- the look-ahead of `_class_declaration` on a member that starts with an identifier -/
def lookIdMember (toks : List Tok) : Except PErr MemberKind := do
  let t1 ← adv toks
  match t1 with
  | .sym .LPAREN :: _ => pure .ctor
  | .sym .DOT :: _ => do
    let (_, t2) ← dotIds t1
    let (_, t3) ← expectId t2
    memberTail t3
  | .id _ :: _ => do
    let t2 ← adv t1
    memberTail t2
  | [] => .error .lexer
  | _ => .error (.msg "expected either '(' or '.' or an identifier..")

mutual
/-- `_class_declaration()` -/
def pClass : Nat → List Tok → PR TypeDecl
  | 0, _ => .error .fuel
  | f + 1, toks => do
    let t1 ← expectSym .CLASS "expected 'class'.." toks
    let (n, t2) ← expectId t1
    let (b, t3) ← matchSym .COLON t2
    let (bcs, t4) ← (if b then sepBy1 qid .COMMA (t3.length + 1) t3 else (pure ([], t2) : PR (List QId)))
    let t5 ← expectSym .LBRACE eLBrace t4
    let (ms, t6) ← pMembers f t5
    let fs := ms.filterMap (fun m => match m with | .field d => some d | _ => none)
    let cs := ms.filterMap (fun m => match m with | .ctor d => some d | _ => none)
    let mds := ms.filterMap (fun m => match m with | .method d => some d | _ => none)
    let ps := ms.filterMap (fun m => match m with | .pred d => some d | _ => none)
    let ts := ms.filterMap (fun m => match m with | .type d => some d | _ => none)
    pure (.cls n bcs fs cs mds ps ts, t6)

/-- `while (!match(RBRACE_ID)) switch (tk->sym) { … }` of `_class_declaration` -/
def pMembers : Nat → List Tok → PR (List Member)
  | 0, _ => .error .fuel
  | f + 1, toks => do
    let (b, t1) ← matchSym .RBRACE toks
    if b then pure ([], t1)
    else do
      let (m, t2) ← pMember f toks
      let (ms, t3) ← pMembers f t2
      pure (m :: ms, t3)

def pMember : Nat → List Tok → PR Member
  | 0, _ => .error .fuel
  | f + 1, toks =>
    match toks with
    | [] => .error .lexer
    | .sym .TYPEDEF :: _ => do let (d, t) ← parseTypedef toks; pure (.type d, t)
    | .sym .ENUM :: _ => do let (d, t) ← parseEnum toks; pure (.type d, t)
    | .sym .CLASS :: _ => do let (d, t) ← pClass f toks; pure (.type d, t)
    | .sym .PREDICATE :: _ => do let (d, t) ← parsePredicate toks; pure (.pred d, t)
    | .sym .VOID :: _ => do let (d, t) ← parseMethod toks; pure (.method d, t)
    | .id _ :: _ => do
      -- either a constructor, a method or a field declaration..
      match (← lookIdMember toks) with
      | .ctor => do let (d, t) ← parseCtor toks; pure (.ctor d, t)
      | .method => do let (d, t) ← parseMethod toks; pure (.method d, t)
      | .field => do let (d, t) ← parseField toks; pure (.field d, t)
    | .sym s :: _ =>
      match primName s with
      | some _ => do
        -- either a primitive type method or a field declaration..
        match (← lookPrimMember toks) with
        | .method => do let (d, t) ← parseMethod toks; pure (.method d, t)
        | _ => do let (d, t) ← parseField toks; pure (.field d, t)
      | none => .error (.msg eDecl)
    | _ => .error (.msg eDecl)
end

def classFuel (toks : List Tok) : Nat := 3 * toks.length + 3

def parseClass (toks : List Tok) : PR TypeDecl := pClass (classFuel toks) toks

/-! ### compilation unit: `parser::parse()` -/

inductive TopItem where
  | type (d : TypeDecl)
  | method (d : MethodDecl)
  | pred (d : PredDecl)
  | stmt (s : Stmt)
deriving Inhabited

/-- the look-ahead of `parse()` on an identifier: `ID {'.' ID} ID '('` announces a method -/
def lookTopMethod (toks : List Tok) : Except PErr Bool := do
  let t1 ← adv toks
  let (_, t2) ← dotIds t1
  match t2 with
  | .id _ :: _ => do
    let t3 ← adv t2
    if isSym .LPAREN t3 then do
      let _ ← adv t3
      pure true
    else pure false
  | _ => pure false

/-- the look-ahead of `parse()` on a primitive type keyword: `tk = next(); if (match(ID_ID) && tk->sym == LPAREN_ID)`
    announces a method, anything else a statement (a local field) -/
def lookTopPrimMethod (toks : List Tok) : Except PErr Bool := do
  let t1 ← adv toks
  match t1 with
  | .id _ :: _ => do
    let t2 ← adv t1
    pure (isSym .LPAREN t2)
  | _ => pure false

/-- one iteration of the `while (tk->sym != EOF_ID)` loop of `parse()` -/
def topItem (toks : List Tok) : PR TopItem :=
  match toks with
  | [] => .error .lexer
  | .sym .TYPEDEF :: _ => do let (d, t) ← parseTypedef toks; pure (.type d, t)
  | .sym .ENUM :: _ => do let (d, t) ← parseEnum toks; pure (.type d, t)
  | .sym .CLASS :: _ => do let (d, t) ← parseClass toks; pure (.type d, t)
  | .sym .PREDICATE :: _ => do let (d, t) ← parsePredicate toks; pure (.pred d, t)
  | .sym .VOID :: _ => do let (d, t) ← parseMethod toks; pure (.method d, t)
  | .sym .LBRACE :: _ => do let (s, t) ← parseStmt toks; pure (.stmt s, t)
  | .sym .BANG :: _ => do let (s, t) ← parseStmt toks; pure (.stmt s, t)
  | .sym .FACT :: _ => do let (s, t) ← parseStmt toks; pure (.stmt s, t)
  | .sym .GOAL :: _ => do let (s, t) ← parseStmt toks; pure (.stmt s, t)
  | .bool _ :: _ => do let (s, t) ← parseStmt toks; pure (.stmt s, t)
  | .int _ :: _ => do let (s, t) ← parseStmt toks; pure (.stmt s, t)
  | .real _ :: _ => do let (s, t) ← parseStmt toks; pure (.stmt s, t)
  | .str _ :: _ => do let (s, t) ← parseStmt toks; pure (.stmt s, t)
  | .sym .LPAREN :: _ => do let (s, t) ← parseStmt toks; pure (.stmt s, t)
  | .sym .PLUS :: _ => do let (s, t) ← parseStmt toks; pure (.stmt s, t)
  | .sym .MINUS :: _ => do let (s, t) ← parseStmt toks; pure (.stmt s, t)
  | .sym .NEW :: _ => do let (s, t) ← parseStmt toks; pure (.stmt s, t)
  | .id _ :: _ => do
    if (← lookTopMethod toks) then do let (d, t) ← parseMethod toks; pure (.method d, t)
    else do let (s, t) ← parseStmt toks; pure (.stmt s, t)
  | .sym s :: _ =>
    match primName s with
    | some _ => do
      -- either a primitive type method or a local field..
      if (← lookTopPrimMethod toks) then do let (d, t) ← parseMethod toks; pure (.method d, t)
      else do let (s, t) ← parseStmt toks; pure (.stmt s, t)
    | none => .error (.msg eDecl)

/-- `while (tk->sym != EOF_ID) { … }` -/
def topLoop : Nat → List Tok → Except PErr (List TopItem)
  | 0, _ => .error .fuel
  | f + 1, toks =>
    if isSym .EOF toks then pure []
    else do
      let (x, t1) ← topItem toks
      let xs ← topLoop f t1
      pure (x :: xs)

/-- `parser::parse()`.  `toks` are the tokens the lexer delivers (see the header). -/
def parseUnit (toks : List Tok) : Except PErr CompUnit := do
  let items ← topLoop (toks.length + 1) toks
  let ms := items.filterMap (fun m => match m with | .method d => some d | _ => none)
  let ps := items.filterMap (fun m => match m with | .pred d => some d | _ => none)
  let ts := items.filterMap (fun m => match m with | .type d => some d | _ => none)
  let ss := items.filterMap (fun m => match m with | .stmt d => some d | _ => none)
  pure ⟨ms, ps, ts, ss⟩

end Oratio.Riddle
