/-
Parallel tableau update of `lra_theory::pivot` (PARALLELIZE) and the thread pool it runs on
(/repo/smt/arith/lra/lra_theory.cpp:441-512, /repo/smt/concurrent/thread_pool.cpp).

One task per row containing the entering variable.  A task reads its OWN row and the (copied)
pivot expression, rewrites its own row, and inserts / erases ITSELF in the watch lists
`t_watches[v]`, each such update under the mutex of `v`.  The model makes the granularity
explicit: a task is a list of atomic steps, each owned by the task's row; a schedule is any
sequence of steps in which every task's steps keep their order.

The shared state is kept extensional (a row table and a membership relation for the watch
lists), so "same result" is plain equality.
-/
namespace Oratio.Par

/-- a row: variable ↦ coefficient (0 = absent), and the known term, over any coefficient type -/
structure Row (α : Type) where
  coeff : Nat → α
  known : α

structure Shared (α : Type) where
  rows : Nat → Option (Row α)
  /-- `watch v r`: row `r` is in `t_watches[v]` -/
  watch : Nat → Nat → Bool

inductive Step (α : Type) where
  /-- private write of the task's own row (no lock) -/
  | setRow (r : Nat) (row : Row α)
  /-- `t_watches[v].emplace(r)` under `t_mtxs[v]` -/
  | watchIns (v r : Nat)
  /-- `t_watches[v].erase(r)` under `t_mtxs[v]` -/
  | watchDel (v r : Nat)

def Step.owner {α : Type} : Step α → Nat
  | .setRow r _ => r
  | .watchIns _ r => r
  | .watchDel _ r => r

/-- the memory a step touches WITHOUT holding a lock (`none`: the access is under the mutex of the variable) -/
def Step.unsynchronised {α : Type} : Step α → Option Nat
  | .setRow r _ => some r
  | _ => none

def Shared.apply {α : Type} (σ : Shared α) : Step α → Shared α
  | .setRow r row => { σ with rows := fun x => if x = r then some row else σ.rows x }
  | .watchIns v r => { σ with watch := fun v' r' => if v' = v ∧ r' = r then true else σ.watch v' r' }
  | .watchDel v r => { σ with watch := fun v' r' => if v' = v ∧ r' = r then false else σ.watch v' r' }

def Shared.run {α : Type} (σ : Shared α) (l : List (Step α)) : Shared α := l.foldl Shared.apply σ

/-- the steps of the task of row `r`: the new row (computed from the old row and the pivot expression only) and
    one watch update per variable of the pivot expression, as the lambda in `pivot` does.
    `expr` lists the (variable, coefficient) pairs of the pivot expression; `cc` is the row's coefficient of the
    entering variable; `isZero` tests a coefficient. -/
def taskSteps {α : Type} [Add α] [Mul α] (isZero : α → Bool) (zero : α) (xj : Nat) (expr : List (Nat × α)) (exprKnown : α)
    (r : Nat) (old : Row α) : List (Step α) :=
  let cc := old.coeff xj
  let base : Row α := { old with coeff := fun v => if v = xj then zero else old.coeff v }
  let upd := expr.foldl (fun (acc : Row α × List (Step α)) (vc : Nat × α) =>
    let (row, steps) := acc
    let (v, c) := vc
    if isZero (row.coeff v) then
      ({ row with coeff := fun x => if x = v then c * cc else row.coeff x }, steps ++ [.watchIns v r])
    else
      let s := row.coeff v + c * cc
      if isZero s then ({ row with coeff := fun x => if x = v then zero else row.coeff x }, steps ++ [.watchDel v r])
      else ({ row with coeff := fun x => if x = v then s else row.coeff x }, steps)) (base, [])
  [.setRow r { upd.1 with known := upd.1.known + exprKnown * cc }] ++ upd.2

/-! ### the thread pool: enqueue / take / finish / join -/

structure Pool where
  queue : List Nat := []
  running : List Nat := []
  done : List Nat := []
  enqueued : List Nat := []

inductive PoolStep where
  | enqueue (t : Nat)
  /-- a worker pops the front task (`active++`) -/
  | take
  /-- a worker finishes task `t` (`active--`) -/
  | finish (t : Nat)

def Pool.step (p : Pool) : PoolStep → Pool
  | .enqueue t => { p with queue := p.queue ++ [t], enqueued := p.enqueued ++ [t] }
  | .take => match p.queue with
    | [] => p
    | t :: q => { p with queue := q, running := p.running ++ [t] }
  | .finish t => if p.running.contains t then { p with running := p.running.erase t, done := p.done ++ [t] } else p

/-- what `join()` waits for: `active == 0 && tasks.empty()` -/
def Pool.joinable (p : Pool) : Bool := p.running.isEmpty && p.queue.isEmpty

end Oratio.Par
