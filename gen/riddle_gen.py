"""Grammar-directed generator of RIDDLE programs for the parser correspondence (property C16).

Everything is derived from one `random.Random(seed)`.

* `Gen(rng).program()`  -> (token list, meta): a mostly-valid program: all expression forms (literals,
  qualified ids, calls, `new`, casts, unary + - !, the relational / equality / implication operators, the n-ary
  | & ^ + - * /), random redundant parentheses, all statement forms (local fields with primitive and qualified
  types, assignments, expression statements, blocks, disjunctions with optional `[cost]`, fact / goal formulas,
  return), all declarations (typedef, enum with unions, classes with base lists, fields, constructors with
  initialisation lists, methods, predicates with parameter and supertype lists, nested types, top-level methods
  and predicates).
* `render(rng, toks)` -> program text with random white space and comments between the tokens.
* `mutate(rng, toks)` -> a malformed token list (deletion / insertion / swap / duplication / replacement).
* `stream(seed, n)`   -> n (text, meta) pairs: valid programs, mutants, and truncations at every token prefix and
  at character prefixes of some valid programs (the latter reach the lexer errors).

`meta` = {"kind": ..., "depth": max expression nesting depth, "ops": {operator: count}, "stmts": {...}, "decls": {...}}
"""
import random

KEYWORDS = ["bool", "int", "real", "tp", "string", "typedef", "enum", "class", "goal", "fact", "predicate", "new", "or",
            "void", "return", "true", "false"]
PRIMS = ["bool", "int", "real", "tp", "string"]
PUNCT = [".", ",", ":", ";", "(", ")", "[", "]", "{", "}", "+", "-", "*", "/", "&", "|", "=", ">", "<", "!", "==", "<=", ">=",
         "!=", "->", "^"]
IDS = ["a", "b", "c", "x", "y", "z", "f", "g", "p", "q", "A", "B", "C", "T", "tau", "origin", "horizon", "start", "end",
       "at", "duration", "this", "self", "_x", "x1", "Loc", "Robot", "classy", "inty", "newer", "orb", "tru", "voids", "re"]

BIN0 = ["==", "!="]
BIN1 = ["<", "<=", ">=", ">", "->"]
NARY1 = ["|", "&", "^"]
NARY2 = ["+", "-"]
NARY3 = ["*", "/"]


class Gen:
    def __init__(self, rng, quirk_aware=0.85):
        self.rng = rng
        # probability of avoiding constructs that the (current) parser is known to reject although a RIDDLE
        # grammar would plausibly have them (top-level statements starting with '(' etc.); keeps the valid share high
        self.quirk_aware = quirk_aware
        self.reset()

    def reset(self):
        self.ops = {}
        self.stmts = {}
        self.decls = {}
        self.maxdepth = 0

    def count(self, d, k):
        d[k] = d.get(k, 0) + 1

    # ------------------------------------------------------------------ lexical items
    def ident(self):
        r = self.rng
        if r.random() < 0.8:
            return r.choice(IDS)
        n = r.randint(1, 6)
        s = r.choice("abcdefghijklmnopqrstuvwxyzABCDEFGHIJKLMNOPQRSTUVWXYZ_")
        s += "".join(r.choice("abcdefghijklmnopqrstuvwxyz0123456789_") for _ in range(n))
        return s if s not in KEYWORDS else s + "_"

    def qid(self, maxlen=3):
        n = 1
        while n < maxlen and self.rng.random() < 0.3:
            n += 1
        out = []
        for i in range(n):
            if i:
                out.append(".")
            out.append(self.ident())
        return out

    def typ(self):
        return [self.rng.choice(PRIMS)] if self.rng.random() < 0.5 else self.qid()

    def literal(self):
        r = self.rng
        k = r.random()
        if k < 0.15:
            return [r.choice(["true", "false"])]
        if k < 0.5:
            return [str(r.choice([0, 1, 2, 3, 5, 10, 42, 100, r.randint(0, 10 ** 6), r.randint(0, 9223372036854775807)]))]
        if k < 0.8:
            form = r.random()
            if form < 0.6:
                return [f"{r.randint(0, 999)}.{r.randint(0, 999)}"]
            if form < 0.75:
                return [f".{r.randint(0, 99999)}"]
            if form < 0.9:
                return [f"{r.randint(0, 99)}."]
            return [f"{r.randint(0, 9)}.{'0' * r.randint(0, 3)}{r.randint(0, 9)}{'0' * r.randint(0, 3)}"]
        n = r.randint(0, 8)
        s = ""
        for _ in range(n):
            c = r.random()
            if c < 0.75:
                s += r.choice("abcXYZ 019_+-*/(){};.,")
            elif c < 0.8:
                s += r.choice("\x80\xa9\xe9\xfe\xff")       # bytes 0x80..0xFF (the text is encoded as latin-1)
            elif c < 0.9:
                s += "\\" + r.choice("\"\\nt")
            else:
                s += r.choice(["//", "/*", "*/", "\t"])
        return ['"' + s + '"']

    # ------------------------------------------------------------------ expressions
    def args(self, depth, lo=0, hi=3):
        n = self.rng.randint(lo, hi)
        out = []
        for i in range(n):
            if i:
                out.append(",")
            out += self.expr(depth + 1)
        return out

    def expr(self, depth=0, budget=None):
        """a random expression as a token list; `depth` is the nesting depth so far"""
        r = self.rng
        self.maxdepth = max(self.maxdepth, depth)
        stop = depth >= 6 or r.random() < 0.30 + 0.13 * depth
        if stop:
            e = self.atom(depth)
        else:
            k = r.random()
            if k < 0.10:
                op = r.choice(["+", "-", "!"])
                self.count(self.ops, "u" + op)
                e = [op] + self.expr(depth + 1)
            elif k < 0.18:
                self.count(self.ops, "cast")
                e = ["("] + self.qid() + [")"] + self.expr(depth + 1)
            elif k < 0.30:
                op = r.choice(BIN0 + BIN1)
                self.count(self.ops, op)
                e = self.expr(depth + 1) + [op] + self.expr(depth + 1)
            elif k < 0.42:
                op = r.choice(BIN0 + BIN1)
                self.count(self.ops, op)
                e = self.expr(depth + 1) + [op] + self.expr(depth + 1)
                if r.random() < 0.5:          # chains: a < b < c, a == b != c
                    op2 = r.choice(BIN0 + BIN1)
                    self.count(self.ops, op2)
                    e += [op2] + self.expr(depth + 1)
            else:
                op = r.choice(NARY1 + NARY2 + NARY2 + NARY3 + NARY3)
                n = r.choice([2, 2, 2, 3, 3, 4])
                e = self.expr(depth + 1)
                for _ in range(n - 1):
                    o = op if r.random() < 0.8 else r.choice(NARY1 + NARY2 + NARY3)   # mostly one operator: n-ary collection
                    self.count(self.ops, o)
                    e += [o] + self.expr(depth + 1)
        # redundant parentheses
        while r.random() < 0.18:
            self.count(self.ops, "paren")
            e = ["("] + e + [")"]
        return e

    def atom(self, depth):
        r = self.rng
        k = r.random()
        if k < 0.35:
            return self.literal()
        if k < 0.70 or (depth >= 4 and r.random() < 0.8):
            self.count(self.ops, "id")
            return self.qid()
        if k < 0.85:
            self.count(self.ops, "call")
            return self.qid() + ["("] + self.args(depth) + [")"]
        self.count(self.ops, "new")
        return ["new"] + self.qid() + ["("] + self.args(depth) + [")"]

    def top_expr(self, statement_start=False):
        """an expression; with `statement_start` it is (usually) made to begin the way the parser's statement
        switch wants (an identifier followed by an operator, a literal, '!' ...)"""
        r = self.rng
        e = self.expr(0)
        if statement_start and r.random() < 0.3:
            # an expression statement is recognised when it starts with ID followed by an operator / '(' / ';'
            # or with a token that is not an identifier, a primitive type, '{', fact, goal, return
            for _ in range(20):
                if e[0] in ("true", "false", "!") or e[0][0].isdigit() or (e[0][0] == "." and len(e[0]) > 1):
                    break
                if e[0] not in KEYWORDS and (e[0][0].isalpha() or e[0][0] == "_"):
                    break
                e = self.expr(0)
        return e

    # ------------------------------------------------------------------ statements
    def declarators(self, hi=3):
        out = []
        for i in range(self.rng.randint(1, hi)):
            if i:
                out.append(",")
            out.append(self.ident())
            if self.rng.random() < 0.5:
                out += ["="] + self.expr(0)
        return out

    def block_body(self, depth, in_method, lo=1, hi=3):
        out = []
        for _ in range(self.rng.randint(lo, hi)):
            out += self.stmt(depth + 1, in_method)
        return out

    def stmt(self, depth=0, in_method=False, top=False):
        r = self.rng
        k = r.random()
        if depth >= 3 and k >= 0.55 and k < 0.75:
            k = 0.1
        if k < 0.14:
            self.count(self.stmts, "local-prim")
            return [r.choice(PRIMS)] + self.declarators() + [";"]
        if k < 0.26:
            self.count(self.stmts, "local-qid")
            return self.qid() + self.declarators() + [";"]
        if k < 0.38:
            self.count(self.stmts, "assign")
            return self.qid() + ["="] + self.expr(0) + [";"]
        if k < 0.55:
            self.count(self.stmts, "expr")
            return self.top_expr(statement_start=top or r.random() < 0.5) + [";"]
        if k < 0.63:
            self.count(self.stmts, "block")
            lo = 1 if r.random() < self.quirk_aware else 0
            return ["{"] + self.block_body(depth, in_method, lo) + ["}"]
        if k < 0.75:
            self.count(self.stmts, "disjunction")
            lo = 1 if r.random() < self.quirk_aware else 0
            out = ["{"] + self.block_body(depth, in_method, lo) + ["}"]
            if r.random() < 0.4:
                out += ["["] + self.expr(1) + ["]"]
            for _ in range(r.randint(0 if r.random() < 0.15 else 1, 3)):
                out += ["or", "{"] + self.block_body(depth, in_method, 0) + ["}"]
                if r.random() < 0.4:
                    out += ["["] + self.expr(1) + ["]"]
            return out
        if k < 0.92:
            kw = r.choice(["fact", "goal"])
            self.count(self.stmts, kw)
            out = [kw, self.ident(), "=", "new"] + self.qid() + ["("]
            for i in range(r.randint(0, 3)):
                if i:
                    out.append(",")
                out += [self.ident(), ":"] + self.expr(1)
            return out + [")", ";"]
        if in_method or r.random() > self.quirk_aware:
            self.count(self.stmts, "return")
            return ["return"] + self.expr(0) + [";"]
        self.count(self.stmts, "expr")
        return self.top_expr(statement_start=True) + [";"]

    # ------------------------------------------------------------------ declarations
    def params(self):
        out = ["("]
        for i in range(self.rng.choice([0, 0, 1, 1, 2, 3])):
            if i:
                out.append(",")
            out += self.typ() + [self.ident()]
        return out + [")"]

    def body(self, in_method=True):
        out = ["{"]
        for _ in range(self.rng.choice([0, 1, 1, 2, 3])):
            out += self.stmt(1, in_method)
        return out + ["}"]

    def typedef(self):
        self.count(self.decls, "typedef")
        return ["typedef", self.rng.choice(PRIMS)] + self.expr(1) + [self.ident(), ";"]

    def enum(self):
        self.count(self.decls, "enum")
        out = ["enum", self.ident()]
        for i in range(self.rng.choice([1, 1, 2, 3])):
            if i:
                out.append("|")
            if self.rng.random() < 0.65:
                out.append("{")
                for j in range(self.rng.randint(1 if self.rng.random() < 0.9 else 0, 4)):
                    if j:
                        out.append(",")
                    out.append('"' + self.ident() + '"')
                out.append("}")
            else:
                out += self.qid()
        return out + [";"]

    def method(self, in_class):
        self.count(self.decls, "method")
        r = self.rng
        k = r.random()
        if k < 0.4:
            rt = ["void"]
        elif k < 0.7:
            rt = self.qid()
        else:
            rt = [r.choice(PRIMS)]
        return rt + [self.ident()] + self.params() + self.body(True)

    def predicate(self):
        self.count(self.decls, "predicate")
        out = ["predicate", self.ident()] + self.params()
        if self.rng.random() < 0.4:
            out.append(":")
            for i in range(self.rng.randint(1, 3)):
                if i:
                    out.append(",")
                out += self.qid()
        return out + self.body(False)

    def constructor(self, cname):
        self.count(self.decls, "constructor")
        out = [cname if self.rng.random() < 0.9 else self.ident()] + self.params()
        if self.rng.random() < 0.5:
            out.append(":")
            for i in range(self.rng.randint(1, 3)):
                if i:
                    out.append(",")
                out += [self.ident(), "("] + self.args(1) + [")"]
        return out + self.body(False)

    def field(self):
        self.count(self.decls, "field")
        r = self.rng
        if r.random() < 0.5:
            return [r.choice(PRIMS)] + self.declarators() + [";"]
        return self.qid() + self.declarators() + [";"]

    def klass(self, depth=0):
        self.count(self.decls, "class")
        r = self.rng
        name = self.ident()
        out = ["class", name]
        if r.random() < 0.4:
            out.append(":")
            for i in range(r.randint(1, 3)):
                if i:
                    out.append(",")
                out += self.qid()
        out.append("{")
        for _ in range(r.choice([0, 1, 2, 3, 4, 5])):
            k = r.random()
            if k < 0.30:
                out += self.field()
            elif k < 0.45:
                out += self.constructor(name)
            elif k < 0.62:
                out += self.method(True)
            elif k < 0.77:
                out += self.predicate()
            elif k < 0.85:
                out += self.typedef()
            elif k < 0.92:
                out += self.enum()
            elif depth < 2:
                out += self.klass(depth + 1)
            else:
                out += self.field()
        return out + ["}"]

    def program(self):
        self.reset()
        r = self.rng
        out = []
        mode = r.random()
        n = r.choice([1, 1, 2, 3, 4, 6])
        for _ in range(n):
            if mode < 0.35:
                k = 0.9          # statements / expressions only
            elif mode < 0.5:
                k = r.random() * 0.6
            else:
                k = r.random()
            if k < 0.18:
                out += self.klass()
            elif k < 0.26:
                out += self.predicate()
            elif k < 0.34:
                out += self.method(False)
            elif k < 0.40:
                out += self.typedef()
            elif k < 0.46:
                out += self.enum()
            else:
                out += self.stmt(0, False, top=True)
        meta = {"kind": "generated", "depth": self.maxdepth, "ops": dict(self.ops), "stmts": dict(self.stmts), "decls": dict(self.decls)}
        return out, meta


# ---------------------------------------------------------------------- rendering

def _wordy(t):
    return t[0].isalnum() or t[0] == "_" or t[0] == '"'


def render(rng, toks, plain=False):
    """join tokens with random white space / comments; no separator only where no two tokens can merge"""
    out = []
    prev = None
    for t in toks:
        if prev is not None:
            tight_ok = (prev in "(){}[],;" or t in "(){}[],;") and not (prev[-1] == "." or t[0] == ".")
            if prev == "." and not t[0].isdigit() and rng.random() < 0.7:
                tight_ok = True            # a.b
            if t == "." and not prev[-1].isdigit() and prev[-1] != "." and rng.random() < 0.7:
                tight_ok = True
            k = rng.random()
            if plain:
                sep = "" if tight_ok else " "
            elif tight_ok and k < 0.45:
                sep = ""
            elif k < 0.80:
                sep = " "
            elif k < 0.88:
                sep = "\n" + " " * rng.randint(0, 4)
            elif k < 0.91:
                sep = "\t"
            elif k < 0.93:
                sep = "\r\n"
            elif k < 0.96:
                sep = " /* " + rng.choice(["c", "a + b", "*", "**", "x /* y", "\n", "\xff", "\x80\xe9"]) + " */ "
            elif k < 0.99:
                sep = " // " + rng.choice(["c", "a + b;", "*/", ""]) + "\n"
            else:
                sep = "  "
            out.append(sep)
        out.append(t)
        prev = t
    s = "".join(out)
    if not plain:
        k = rng.random()
        if k < 0.1:
            s = s + "\n"
        elif k < 0.15:
            s = " " + s + " // end"
        elif k < 0.2:
            s = "/* head */" + s
    return s


# ---------------------------------------------------------------------- malformed inputs

def random_token(rng):
    k = rng.random()
    if k < 0.45:
        return rng.choice(PUNCT)
    if k < 0.7:
        return rng.choice(KEYWORDS)
    if k < 0.85:
        return rng.choice(IDS)
    if k < 0.97:
        return rng.choice(["1", "2.5", '"s"', "true"])
    return rng.choice(["$", "#", "@", '"open', "/* open", "1.2.3", "99999999999999999999", "\xff", "\x80", "\xe9", "a\xffb", '"\xff"', "/* \xff */"])


def mutate(rng, toks):
    toks = list(toks)
    n = rng.choice([1, 1, 1, 2, 3])
    what = []
    for _ in range(n):
        k = rng.random()
        if not toks:
            toks.append(random_token(rng))
            what.append("insert")
            continue
        i = rng.randrange(len(toks))
        if k < 0.3:
            del toks[i]
            what.append("delete")
        elif k < 0.55:
            toks.insert(i, random_token(rng))
            what.append("insert")
        elif k < 0.7 and len(toks) > 1:
            j = min(i + 1, len(toks) - 1)
            toks[i], toks[j] = toks[j], toks[i]
            what.append("swap")
        elif k < 0.8:
            toks.insert(i, toks[i])
            what.append("duplicate")
        else:
            toks[i] = random_token(rng)
            what.append("replace")
    return toks, "+".join(what)


# hand-written inputs: the cast / parenthesis decision, operator grouping quirks, look-ahead and lexer laziness,
# constructs the parser rejects or mishandles (see the findings in the C16 report)
CORPUS = [
    "x = (a) b;", "x = (a.b) c;", "x = (a) - b;", "x = (a) + b;", "x = (a) ! b;", "x = (a) new B();", "x = (a)(b);",
    "x = ((a)) b;", "x = (a) \"s\";", "x = (a) 1;", "x = (a) 1.5;", "x = (a) true;", "x = (a);", "x = (a) (b) c;",
    "x = (a) b + c * d;", "x = ((a) b) + c;", "x = (a.b.c) (d) + e;", "x = (1.0 + 2.0) * 3.0;", "x = (a + b) c;",
    "x = a | b < c;", "x = a < b | c;", "x = a == b < c;", "x = a < b == c;", "x = a < b < c;", "x = a == b == c != d;",
    "x = a -> b -> c;", "x = a | b | c & d & e ^ f;", "x = a + b + c - d - e + f;", "x = a * b * c / d / e * f;",
    "x = a - b - c;", "x = a - (b - c);", "x = (a - b) - c;", "x = (a + b) + c;", "x = a + (b + c);", "x = - a + b;",
    "x = - - a;", "x = ! ! a;", "x = - a * b;", "x = a * - b;", "x = a + - b;", "x = - (a + b);", "x = !a & b;",
    "x = !a == b;", "x = a < b + c * d;", "x = a * b + c < d;", "x = f();", "x = a.b.f(1, 2);", "x = new A.B(1, c);",
    "x = f(g(h()));", "x = f(a,);", "x = f(,a);", "x = new A;", "x = new (a);", "x = a.;", "x = a.1;", "x = .5.;",
    "(a + b) == c;", "-a == b;", "+a == b;", "new A();", "\"s\" == s;", "return a;", "{ (a + b) == c; -a == b; new A(); return a; }",
    "a;", "a.b;", "a.b.c();", "a b;", "a.b c;", "a b, c;", "a b = 1, c = 2;", "a b, 3;", "a b,;", "a b,", "a b, c d;",
    "real a, b = 1;", "real;", "real a, 3;", "a = 1;", "a.b.c = 1;", "a == 1;", "a, b;", "a) ;", "a ] ;", "a { }", "a or b;",
    "{ }", "{ } or { }", "{ a; }", "{ a; } or { b; }", "{ a; } [1] or { b; } [c + d] or { }", "{ a; } [1]", "{ a; } or", "{ a; } or { b; } or",
    "{ a; } [1", "{ a; } [] or { b; }", "{ { { a; } } }", "{ a; } { b; }",
    "fact f = new P();", "goal g = new a.b.P(x: 1, y: a + b);", "fact f = new P(x: 1,);", "fact f = new P(x 1);", "fact f = P();",
    "fact f new P();", "fact = new P();", "goal g = new P() ", "fact f = new P(x: );",
    "typedef real 5 x;", "typedef int a x;", "typedef foo 1 x;", "typedef real [0, 10] x;", "typedef real 1 2;",
    "enum E {\"a\", \"b\"} | {\"c\"} | F.G | H;", "enum E;", "enum E {};", "enum E {\"a\",};", "enum E {\"a\"} |;", "enum E {a};", "enum {\"a\"};",
    "class A { }", "class A : B, C.D { }", "class A : { }", "class A { A a, b; }", "class A { real a, b; }", "class A { A a; A.B b = c; }",
    "class A { real f() { return 1.0; } }", "class A { B f() { return b; } B.C g(int x, B.C y) { } void h() { } }",
    "class A { A() { } A(int a, B b) : x(a), y(), z(1, 2) { a = b; } }", "class A { A() : { } }", "class A { A() : x { } }",
    "class A { predicate P(int x) : Q, R.S { x > 0; } }", "class A { class B { class C { real x; } } enum E {\"e\"}; typedef int 0 T; }",
    "class A { a.b.c d; a.b.c f() { } a.b = 1; }", "class A { x }", "class A { 1 }", "class A { a. }", "class A { a b c; }", "class A",
    "class A { real x }", "class A { real 1; }", "class A { real x(; }",
    "predicate P() { }", "predicate P(int a, A.B b) : Q { a; }", "predicate P(,) { }", "predicate P(int) { }", "predicate P { }", "predicate (int a) { }",
    "void f() { }", "void f(int a) { return a; }", "A f() { }", "A.B f(real x) { }", "real f() { }", "void () { }", "void f { }", "f() { }", "a.b() { }",
    "a b() { } a.b c() { } a b(); a.b c(d);", "a b(", "a.b c(",
    "a = 1; $", "a = 1 $", "a $", "$", "a = \"abc", "a = /* x", "a = 1; // c", "a = 1.2.3;", "a = 99999999999999999999;",
    "(a) $", "x = (a) $", "x = (a. $", "x = (a $", "class A { a $", "class A { a. $", "class A { a b $", "class A { real $", "a. $", "a.b c $", "a b( $",
    "", ";", "}", ")", "or", "this.x = x;", "this;", "\xff a = 1;", "a = 1;\xff b = 2;",
    # forms accepted since the fixes of the C16 findings
    "real f() { return 1.0; }", "int f(int a, A b) { return a; } bool g() { } tp h() { } string s() { }", "real f;", "real f = 1, g;",
    "real f(", "real f)", "real f (a);", "real (f)();", "real $", "real f $", "real f( $", "int", "int f", "bool b() { } b();",
    "class A { real f() { return 1.0; } int g(real x) { } string s; bool b() { } tp t = 1, u; }", "class A { real f( }", "class A { real f() }",
    "class A { A a, b; A.B c = 1, d, e = 2; }", "class A { A a, b c; }", "class A { A a,; }", "class A { a.b c, d; a.b e(); }",
    "(a + b) == c;", "-a == b;", "+a == b;", "new A();", "\"s\" == s;", "(a) b;", "(a.b) c == d; (x);", "( $", "- $", "new $", "\"s\" $",
    "A a, 3;", "A a, b = 1, c;", "A.B a = 1, ;", "A a, real;",
    "s = \"\xff\x80\xe9\";", "a = 1; \x80 b = 2;", "a\xe9 = 1;", "\xe9 = 1;", "a = 1; // \xff\n b = 2;", "a = /* \xff */ 1;", "a = \"\\\xff\";",
    "a = \"abc\xff", "a = /* \xff",
]


def stream(seed, n, valid_share=0.45, mutant_share=0.33):
    """n (text, meta) pairs: the hand-written corpus, valid programs, mutants; the remaining share is truncations:
    every token prefix and some character prefixes of valid programs."""
    rng = random.Random(seed)
    g = Gen(rng)
    out = [(c, {"kind": "corpus", "depth": 0, "ops": {}, "stmts": {}, "decls": {}}) for c in CORPUS]
    n_valid = int(n * valid_share)
    n_mut = int(n * mutant_share)
    for _ in range(n_valid):
        toks, meta = g.program()
        out.append((render(rng, toks), meta))
    for _ in range(n_mut):
        toks, meta = g.program()
        mt, what = mutate(rng, toks)
        meta = dict(meta)
        meta["kind"] = "mutant"
        meta["mutation"] = what
        out.append((render(rng, mt), meta))
    while len(out) < n:
        toks, meta = g.program()
        if len(toks) > 120:
            continue
        plain = rng.random() < 0.5
        if rng.random() < 0.7:
            for i in range(len(toks)):
                m = dict(meta)
                m["kind"] = "token-prefix"
                out.append((render(rng, toks[:i], plain), m))
                if len(out) >= n:
                    break
        else:
            text = render(rng, toks, plain)
            step = 1 if len(text) < 150 else rng.randint(2, 5)
            for i in range(0, len(text), step):
                m = dict(meta)
                m["kind"] = "char-prefix"
                out.append((text[:i], m))
                if len(out) >= n:
                    break
    return out[:n]


if __name__ == "__main__":
    import sys
    seed = int(sys.argv[1]) if len(sys.argv) > 1 else 1
    for text, meta in stream(seed, int(sys.argv[2]) if len(sys.argv) > 2 else 10):
        print(meta["kind"], repr(text))
