// Correspondence harness for the full smt::sat_core without theories (property C07):
// root-level operations of enc.cpp plus assume / pop / next / check / simplify_db, with an
// exact dump of the search state after every operation and the clauses seen by the observers.
#include "enc_ops.h"

using namespace smt;
using oratio_verif::access;
using oratio_verif::lit_str;

static std::string learnt; // clauses recorded during the current operation

static void on_record(void *, const std::vector<lit> &lits)
{
  learnt += " L[";
  for (size_t i = 0; i < lits.size(); ++i)
    learnt += (i ? " " : "") + lit_str(lits[i]);
  learnt += "]";
}

int main()
{
  std::ios::sync_with_stdio(false);
  std::unique_ptr<sat_core> sat;
  std::string line;
  while (std::getline(std::cin, line))
  {
    hv::toks t(line);
    if (t.done())
    {
      std::cout << "\n";
      continue;
    }
    std::string res;
    learnt.clear();
    try
    {
      const std::string op = t.next();
      if (op == "case")
      {
        sat.release(); // never destroyed: a network on which an inconsistency was found is not meant to be used further
        sat.reset(new sat_core());
        sat->verif_record = on_record;
        std::cout << line << "\n";
        continue;
      }
      if (!sat)
        throw std::runtime_error("bad-op");
      if (op == "assume")
      {
        const lit p = hv::parse_lit(t.next());
        hv::check_lits(*sat, {p});
        if (access::queue_size(*sat) != 0)
          res = "queue"; // precondition: empty propagation queue
        else if (sat->value(p) != Undefined)
          res = "defined"; // decisions are taken on unassigned literals
        else
          res = hv::show(sat->assume(p));
      }
      else if (op == "pop")
      {
        if (sat->root_level())
          res = "root";
        else
        {
          sat->pop();
          res = "ok";
        }
      }
      else if (op == "next")
      {
        if (access::queue_size(*sat) != 0)
          res = "queue";
        else
          res = hv::show(sat->next());
      }
      else if (op == "check")
      {
        auto ls = hv::rest_lits(t);
        hv::check_lits(*sat, ls);
        bool ok = access::queue_size(*sat) == 0;
        for (const auto &l : ls)
          ok = ok && sat->value(l) == Undefined;
        // all distinct variables (each assumption must open a level)
        for (size_t i = 0; i < ls.size(); ++i)
          for (size_t j = i + 1; j < ls.size(); ++j)
            ok = ok && variable(ls[i]) != variable(ls[j]);
        if (!ok)
          res = "pre";
        else
          res = hv::show(sat->check(ls));
      }
      else if (op == "simp")
      {
        if (!sat->root_level())
          res = "notroot";
        else
          res = hv::show(sat->simplify_db());
      }
      else if (op == "v" || op == "prop")
      {
        if (!hv::enc_exec(*sat, op, t, res))
          throw std::runtime_error("bad-op");
      }
      else
      {
        // constructors and new_clause: root level only
        if (!sat->root_level())
          res = "notroot";
        else if (!hv::enc_exec(*sat, op, t, res))
          throw std::runtime_error("bad-op");
      }
      res += learnt + " | " + access::vals_str(*sat) + " | " + access::search_str(*sat);
    }
    catch (const std::exception &e)
    {
      res = std::string("exception:") + e.what();
    }
    std::cout << res << "\n";
  }
  return 0;
}
