// Correspondence harness for smt::rational / inf_rational / lin (property C15).
// Reads one operation per line on stdin, runs the real code, prints one canonical line.
#include "common.h"
#include <map>
#include <functional>

using namespace smt;
using namespace hv;

typedef std::function<std::string(toks &)> fn;

#define RR(name, expr) {"R." name, [](toks &t) { rational a = t.rat(); rational b = t.rat(); return show(expr); }}
#define RI(name, expr) {"R." name, [](toks &t) { rational a = t.rat(); long b = t.integer(); return show(expr); }}
#define IRr(name, expr) {"R." name, [](toks &t) { long a = t.integer(); rational b = t.rat(); return show(expr); }}
#define R1(name, expr) {"R." name, [](toks &t) { rational a = t.rat(); return show(expr); }}
#define RRA(name, stmt) {"R." name, [](toks &t) { rational a = t.rat(); rational b = t.rat(); stmt; return show(a); }}
#define RIA(name, stmt) {"R." name, [](toks &t) { rational a = t.rat(); long b = t.integer(); stmt; return show(a); }}

#define XX(name, expr) {"IR." name, [](toks &t) { inf_rational a = t.irat(); inf_rational b = t.irat(); return show(expr); }}
#define XR(name, expr) {"IR." name, [](toks &t) { inf_rational a = t.irat(); rational b = t.rat(); return show(expr); }}
#define XI(name, expr) {"IR." name, [](toks &t) { inf_rational a = t.irat(); long b = t.integer(); return show(expr); }}
#define RX(name, expr) {"IR." name, [](toks &t) { rational a = t.rat(); inf_rational b = t.irat(); return show(expr); }}
#define IX(name, expr) {"IR." name, [](toks &t) { long a = t.integer(); inf_rational b = t.irat(); return show(expr); }}
#define X1(name, expr) {"IR." name, [](toks &t) { inf_rational a = t.irat(); return show(expr); }}
#define XXA(name, stmt) {"IR." name, [](toks &t) { inf_rational a = t.irat(); inf_rational b = t.irat(); stmt; return show(a); }}
#define XRA(name, stmt) {"IR." name, [](toks &t) { inf_rational a = t.irat(); rational b = t.rat(); stmt; return show(a); }}
#define XIA(name, stmt) {"IR." name, [](toks &t) { inf_rational a = t.irat(); long b = t.integer(); stmt; return show(a); }}

#define LL(name, expr) {"Lin." name, [](toks &t) { lin a = t.linexp(); lin b = t.linexp(); return show(expr); }}
#define LR(name, expr) {"Lin." name, [](toks &t) { lin a = t.linexp(); rational b = t.rat(); return show(expr); }}
#define RL(name, expr) {"Lin." name, [](toks &t) { rational a = t.rat(); lin b = t.linexp(); return show(expr); }}
#define L1(name, expr) {"Lin." name, [](toks &t) { lin a = t.linexp(); return show(expr); }}
// compound assignments: both the returned copy and the updated object are shown
#define LLA(name, op) {"Lin." name, [](toks &t) { lin a = t.linexp(); lin b = t.linexp(); lin r = (a op b); return show(a) + " ; " + show(r); }}
#define LRA(name, op) {"Lin." name, [](toks &t) { lin a = t.linexp(); rational b = t.rat(); lin r = (a op b); return show(a) + " ; " + show(r); }}

static const std::map<std::string, fn> ops = {
    {"R.mk2", [](toks &t) { long n = t.integer(); long d = t.integer(); return show(rational(n, d)); }},
    {"R.ofInt", [](toks &t) { long n = t.integer(); return show(rational(n)); }},
    {"R.zero", [](toks &) { return show(rational()); }},
    {"R.consts", [](toks &) { return show(rational::ZERO) + " " + show(rational::ONE) + " " + show(rational::POSITIVE_INFINITY) + " " + show(rational::NEGATIVE_INFINITY); }},
    RR("ne", a != b), RR("lt", a < b), RR("le", a <= b), RR("eq", a == b), RR("ge", a >= b), RR("gt", a > b),
    RI("neI", a != b), RI("ltI", a < b), RI("leI", a <= b), RI("eqI", a == b), RI("geI", a >= b), RI("gtI", a > b),
    RR("add", a + b), RR("sub", a - b), RR("mul", a *b), RR("div", a / b),
    RI("addI", a + b), RI("subI", a - b), RI("mulI", a *b), RI("divI", a / b),
    RRA("addAssign", a += b), RRA("subAssign", a -= b), RRA("mulAssign", a *= b), RRA("divAssign", a /= b),
    RIA("addAssignI", a += b), RIA("subAssignI", a -= b), RIA("mulAssignI", a *= b), RIA("divAssignI", a /= b),
    IRr("iAdd", a + b), IRr("iSub", a - b), IRr("iMul", a *b), IRr("iDiv", a / b),
    R1("neg", -a), R1("toStr", to_string(a)),
    R1("isInteger", is_integer(a)), R1("isZero", is_zero(a)), R1("isPositive", is_positive(a)), R1("isPositiveOrZero", is_positive_or_zero(a)),
    R1("isNegative", is_negative(a)), R1("isNegativeOrZero", is_negative_or_zero(a)), R1("isInfinite", is_infinite(a)),
    R1("isPositiveInfinite", is_positive_infinite(a)), R1("isNegativeInfinite", is_negative_infinite(a)),

    {"IR.ofInt", [](toks &t) { long n = t.integer(); return show(inf_rational(n)); }},
    {"IR.ofR", [](toks &t) { rational r = t.rat(); return show(inf_rational(r)); }},
    {"IR.ofRI", [](toks &t) { rational r = t.rat(); long i = t.integer(); return show(inf_rational(r, i)); }},
    {"IR.mk2", [](toks &t) { long n = t.integer(); long d = t.integer(); return show(inf_rational(n, d)); }},
    {"IR.zero", [](toks &) { return show(inf_rational()); }},
    XX("ne", a != b), XX("lt", a < b), XX("le", a <= b), XX("eq", a == b), XX("ge", a >= b), XX("gt", a > b),
    XR("neR", a != b), XR("ltR", a < b), XR("leR", a <= b), XR("eqR", a == b), XR("geR", a >= b), XR("gtR", a > b),
    XI("neI", a != b), XI("ltI", a < b), XI("leI", a <= b), XI("eqI", a == b), XI("geI", a >= b), XI("gtI", a > b),
    XX("add", a + b), XX("sub", a - b),
    XR("addR", a + b), XR("subR", a - b), XR("mulR", a *b), XR("divR", a / b),
    XI("addI", a + b), XI("subI", a - b), XI("mulI", a *b), XI("divI", a / b),
    XXA("addAssign", a += b), XXA("subAssign", a -= b),
    XRA("addAssignR", a += b), XRA("subAssignR", a -= b), XRA("mulAssignR", a *= b), XRA("divAssignR", a /= b),
    XIA("addAssignI", a += b), XIA("subAssignI", a -= b), XIA("mulAssignI", a *= b), XIA("divAssignI", a /= b),
    X1("neg", -a),
    RX("rAdd", a + b), RX("rSub", a - b), RX("rMul", a *b), RX("rDiv", a / b),
    IX("iAdd", a + b), IX("iSub", a - b), IX("iMul", a *b), IX("iDiv", a / b),
    X1("isZero", is_zero(a)), X1("isPositive", is_positive(a)), X1("isPositiveOrZero", is_positive_or_zero(a)),
    X1("isNegative", is_negative(a)), X1("isNegativeOrZero", is_negative_or_zero(a)), X1("isInfinite", is_infinite(a)),
    X1("toStr", to_string(a)),

    {"Lin.empty", [](toks &) { return show(lin()); }},
    {"Lin.const", [](toks &t) { rational r = t.rat(); return show(lin(r)); }},
    {"Lin.var", [](toks &t) { long v = t.integer(); rational r = t.rat(); return show(lin(static_cast<var>(v), r)); }},
    LL("add", a + b), LR("addR", a + b), RL("rAdd", a + b),
    LL("sub", a - b), LR("subR", a - b), RL("rSub", a - b),
    LR("mulR", a *b), RL("rMul", a *b), LR("divR", a / b),
    LLA("addAssign", +=), LRA("addAssignR", +=), LLA("subAssign", -=), LRA("subAssignR", -=),
    LRA("mulAssignR", *=), LRA("divAssignR", /=),
    L1("neg", -a), L1("toStr", to_string(a)),
};

int main()
{
  std::ios::sync_with_stdio(false);
  std::string line;
  while (std::getline(std::cin, line))
  {
    toks t(line);
    if (t.done())
    {
      std::cout << "\n";
      continue;
    }
    try
    {
      const auto it = ops.find(t.next());
      if (it == ops.end())
        std::cout << "bad-op\n";
      else
        std::cout << it->second(t) << "\n";
    }
    catch (const std::exception &e)
    {
      std::cout << "exception:" << e.what() << "\n";
    }
  }
  return 0;
}
