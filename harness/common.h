// Common helpers of the correspondence harnesses: line protocol, canonical printing.
#pragma once
#include <string>
#include <vector>
#include <sstream>
#include <iostream>
#include <stdexcept>
#include "rational.h"
#include "inf_rational.h"
#include "lin.h"

namespace hv
{
  using namespace smt;

  struct toks
  {
    std::vector<std::string> t;
    size_t i = 0;
    explicit toks(const std::string &line)
    {
      std::istringstream is(line);
      std::string w;
      while (is >> w)
        t.push_back(w);
    }
    bool done() const { return i >= t.size(); }
    const std::string &next()
    {
      if (i >= t.size())
        throw std::runtime_error("bad-op");
      return t[i++];
    }
    long integer() { return std::stol(next()); }
    rational rat()
    { // n/d
      const std::string &s = next();
      const auto p = s.find('/');
      if (p == std::string::npos)
        throw std::runtime_error("bad-op");
      return rational(std::stol(s.substr(0, p)), std::stol(s.substr(p + 1)));
    }
    inf_rational irat()
    { // n/d,n/d
      const std::string &s = next();
      const auto c = s.find(',');
      if (c == std::string::npos)
        throw std::runtime_error("bad-op");
      toks a(s.substr(0, c)), b(s.substr(c + 1));
      return inf_rational(a.rat(), b.rat());
    }
    lin linexp()
    { // L<n> v c ... k
      const std::string &h = next();
      if (h.empty() || h[0] != 'L')
        throw std::runtime_error("bad-op");
      const long n = std::stol(h.substr(1));
      lin l;
      for (long j = 0; j < n; ++j)
      {
        const var v = static_cast<var>(integer());
        l.vars.emplace(v, rat());
      }
      l.known_term = rat();
      return l;
    }
  };

  inline std::string show(const rational &r) { return std::to_string(r.numerator()) + "/" + std::to_string(r.denominator()); }
  inline std::string show(const inf_rational &r) { return show(r.get_rational()) + "," + show(r.get_infinitesimal()); }
  inline std::string show(bool b) { return b ? "T" : "F"; }
  inline std::string show(const lin &l)
  {
    std::string s = "L" + std::to_string(l.vars.size());
    for (const auto &[v, c] : l.vars)
      s += " " + std::to_string(v) + " " + show(c);
    return s + " " + show(l.known_term);
  }
  inline std::string show(const std::string &s) { return "S:" + s; }
} // namespace hv
