// Correspondence harness for riddle::lexer (properties C16, C18): token streams of arbitrary byte strings.
#include "common.h"
#include "riddle_lexer.h"
#include <sstream>
#include <memory>

using namespace riddle;

static std::string unhex(const std::string &h)
{
  std::string s;
  for (size_t i = 0; i + 1 < h.size(); i += 2)
    s.push_back(static_cast<char>(std::stoi(h.substr(i, 2), nullptr, 16)));
  return s;
}

static std::string hex(const std::string &s)
{
  static const char *d = "0123456789abcdef";
  std::string h;
  for (unsigned char c : s)
  {
    h.push_back(d[c >> 4]);
    h.push_back(d[c & 15]);
  }
  return h;
}

static const char *names[] = {"BOOL", "INT", "REAL", "TP", "STRING", "TYPEDEF", "ENUM", "CLASS", "GOAL", "FACT", "PREDICATE", "NEW", "OR",
                              "THIS", "VOID", "RETURN", "DOT", "COMMA", "COLON", "SEMICOLON", "LPAREN", "RPAREN", "LBRACKET", "RBRACKET",
                              "LBRACE", "RBRACE", "PLUS", "MINUS", "STAR", "SLASH", "AMP", "BAR", "EQ", "GT", "LT", "BANG", "EQEQ", "LTEQ",
                              "GTEQ", "BANGEQ", "IMPLICATION", "CARET", "ID", "BoolLiteral", "IntLiteral", "RealLiteral", "StringLiteral", "EOF"};

int main()
{
  std::ios::sync_with_stdio(false);
  std::string line;
  while (std::getline(std::cin, line))
  {
    hv::toks t(line);
    if (t.done())
    {
      std::cout << "\n";
      continue;
    }
    std::string res;
    try
    {
      const std::string op = t.next();
      if (op != "lex")
        throw std::runtime_error("bad-op");
      std::istringstream is(t.done() ? std::string() : unhex(t.next()));
      lexer lex(is);
      size_t guard = 0;
      while (true)
      {
        std::unique_ptr<token> tk(lex.next());
        if (!tk)
        {
          res += " null";
          break;
        }
        switch (tk->sym)
        {
        case ID_ID:
          res += " ID:" + hex(static_cast<id_token &>(*tk).id);
          break;
        case BoolLiteral_ID:
          res += std::string(" BOOL:") + (static_cast<bool_token &>(*tk).val ? "T" : "F");
          break;
        case IntLiteral_ID:
          res += " INT:" + std::to_string(static_cast<int_token &>(*tk).val);
          break;
        case RealLiteral_ID:
          res += " REAL:" + hv::show(static_cast<real_token &>(*tk).val);
          break;
        case StringLiteral_ID:
          res += " STR:" + hex(static_cast<string_token &>(*tk).str);
          break;
        default:
          res += std::string(" ") + names[tk->sym];
        }
        if (tk->sym == EOF_ID || ++guard > 100000)
          break;
      }
    }
    catch (const std::invalid_argument &e)
    {
      const std::string w = e.what();
      const auto p = w.find("] ");
      res += " error:" + (p == std::string::npos ? w : w.substr(p + 2));
    }
    catch (const std::exception &e)
    {
      res += std::string(" exception:") + e.what();
    }
    std::cout << (res.empty() ? res : res.substr(1)) << "\n";
  }
  return 0;
}
