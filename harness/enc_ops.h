// Root-level sat_core operations shared by the enc / ov / net harnesses.
#pragma once
#include "common.h"
#include "access.h"
#include <memory>

namespace hv
{
  using namespace smt;
  using oratio_verif::access;
  using oratio_verif::lit_str;

  inline lit parse_lit(const std::string &s)
  {
    if (s.size() < 2 || (s[0] != '+' && s[0] != '-'))
      throw std::runtime_error("bad-op");
    return lit(static_cast<var>(std::stol(s.substr(1))), s[0] == '+');
  }

  inline std::vector<lit> rest_lits(toks &t)
  {
    std::vector<lit> ls;
    while (!t.done())
      ls.push_back(parse_lit(t.next()));
    return ls;
  }

  inline void check_lits(const sat_core &sat, const std::vector<lit> &ls)
  {
    for (const auto &l : ls)
      if (variable(l) >= access::nvars(sat))
        throw std::runtime_error("bad-op");
  }

  // returns false if `op` is not a root-level encoder operation
  inline bool enc_exec(sat_core &sat, const std::string &op, toks &t, std::string &res)
  {
    if (op == "v")
      res = std::to_string(sat.new_var());
    else if (op == "c")
    {
      auto ls = rest_lits(t);
      check_lits(sat, ls);
      res = show(sat.new_clause(ls));
    }
    else if (op == "eq")
    {
      lit a = parse_lit(t.next()), b = parse_lit(t.next());
      check_lits(sat, {a, b});
      res = lit_str(sat.new_eq(a, b));
    }
    else if (op == "conj" || op == "disj" || op == "amo" || op == "exo")
    {
      auto ls = rest_lits(t);
      check_lits(sat, ls);
      res = lit_str(op == "conj" ? sat.new_conj(ls) : op == "disj" ? sat.new_disj(ls) : op == "amo" ? sat.new_at_most_one(ls) : sat.new_exct_one(ls));
    }
    else if (op == "prop")
      res = show(sat.propagate());
    else
      return false;
    return true;
  }

  inline std::string enc_state_simplified(const sat_core &sat) { return " | " + access::vals_str(sat) + " | " + access::clauses_simplified_str(sat); }
  inline std::string enc_state(const sat_core &sat) { return " | " + access::vals_str(sat) + " | " + access::clauses_str(sat); }
} // namespace hv
