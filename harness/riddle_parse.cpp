// Correspondence harness for riddle::parser (property C16): the AST of arbitrary program texts.
//
// Input line : parse <hex bytes of the program text>
// Output line: the canonical s-expression of the compilation unit, or error:<message> (the text given to
//              parser::error / lexer::error without the "[line, col] " prefix).
//
// The parser's 41 node factories are virtual: the subclass below builds the normal node and records the
// s-expression of the node in a side table keyed by the node's address (children are looked up there).
// Twin of /verif/lean/OratioModel/Driver/RiddleParse.lean (same printers, same names).
#include "common.h"
#include "riddle_parser.h"
#include <sstream>
#include <memory>
#include <unordered_map>

using namespace riddle;
using namespace riddle::ast;

static std::string unhex(const std::string &h)
{
  std::string s;
  for (size_t i = 0; i + 1 < h.size(); i += 2)
    s.push_back(static_cast<char>(std::stoi(h.substr(i, 2), nullptr, 16)));
  return s;
}

static std::string hex(const std::string &s)
{
  static const char *d = "0123456789abcdef";
  std::string h;
  for (unsigned char c : s)
  {
    h.push_back(d[c >> 4]);
    h.push_back(d[c & 15]);
  }
  return h;
}

using strs = std::vector<std::string>;

static std::string sx(const strs &items)
{
  std::string s = "(";
  for (size_t i = 0; i < items.size(); ++i)
  {
    if (i)
      s += " ";
    s += items[i];
  }
  return s + ")";
}

static std::string name_s(const id_token &t) { return t.id; }
static std::string qid_s(const std::vector<id_token> &q)
{
  std::string s = "[";
  for (size_t i = 0; i < q.size(); ++i)
  {
    if (i)
      s += ".";
    s += q[i].id;
  }
  return s + "]";
}
static std::string str_s(const string_token &t) { return "x" + hex(t.str); }

using params_t = std::vector<std::pair<const std::vector<id_token>, const id_token>>;

class printing_parser : public parser
{
public:
  printing_parser(std::istream &is) : parser(is) {}

  std::string of(const void *p) const
  {
    if (!p)
      return "_";
    const auto it = tbl.find(p);
    if (it == tbl.end())
      return "<unknown-node>";
    return it->second;
  }

private:
  mutable std::unordered_map<const void *, std::string> tbl;

  template <typename T>
  T *rec(T *n, const std::string &s) const
  {
    tbl[static_cast<const void *>(n)] = s;
    return n;
  }

  template <typename T>
  void app(strs &v, const std::vector<T> &ns) const
  {
    for (const auto &n : ns)
      v.push_back(of(n));
  }

  std::string params_s(const params_t &pars) const
  {
    strs v;
    for (const auto &p : pars)
      v.push_back(sx({qid_s(p.first), name_s(p.second)}));
    return sx(v);
  }

  // the declarations..
  method_declaration *new_method_declaration(const std::vector<id_token> &rt, const id_token &n, const params_t &pars, const std::vector<const statement *> &stmnts) const noexcept override
  {
    strs v{"method", qid_s(rt), name_s(n), params_s(pars)};
    app(v, stmnts);
    return rec(new method_declaration(rt, n, pars, stmnts), sx(v));
  }
  predicate_declaration *new_predicate_declaration(const id_token &n, const params_t &pars, const std::vector<std::vector<id_token>> &pl, const std::vector<const statement *> &stmnts) const noexcept override
  {
    strs sup;
    for (const auto &q : pl)
      sup.push_back(qid_s(q));
    strs v{"predicate", name_s(n), params_s(pars), sx(sup)};
    app(v, stmnts);
    return rec(new predicate_declaration(n, pars, pl, stmnts), sx(v));
  }
  typedef_declaration *new_typedef_declaration(const id_token &n, const id_token &pt, const expression *e) const noexcept override
  {
    return rec(new typedef_declaration(n, pt, e), sx({"typedef", name_s(n), name_s(pt), of(e)}));
  }
  enum_declaration *new_enum_declaration(const id_token &n, const std::vector<string_token> &es, const std::vector<std::vector<id_token>> &trs) const noexcept override
  {
    strs vals, refs;
    for (const auto &e : es)
      vals.push_back(str_s(e));
    for (const auto &q : trs)
      refs.push_back(qid_s(q));
    return rec(new enum_declaration(n, es, trs), sx({"enum", name_s(n), sx(vals), sx(refs)}));
  }
  class_declaration *new_class_declaration(const id_token &n, const std::vector<std::vector<id_token>> &bcs, const std::vector<const field_declaration *> &fs, const std::vector<const constructor_declaration *> &cs, const std::vector<const method_declaration *> &ms, const std::vector<const predicate_declaration *> &ps, const std::vector<const type_declaration *> &ts) const noexcept override
  {
    strs b, f{"fields"}, c{"ctors"}, m{"methods"}, p{"preds"}, t{"types"};
    for (const auto &q : bcs)
      b.push_back(qid_s(q));
    app(f, fs);
    app(c, cs);
    app(m, ms);
    app(p, ps);
    app(t, ts);
    return rec(new class_declaration(n, bcs, fs, cs, ms, ps, ts), sx({"class", name_s(n), sx(b), sx(f), sx(c), sx(m), sx(p), sx(t)}));
  }
  variable_declaration *new_variable_declaration(const id_token &n, const expression *const e = nullptr) const noexcept override
  {
    return rec(new variable_declaration(n, e), sx({"var", name_s(n), of(e)}));
  }
  field_declaration *new_field_declaration(const std::vector<id_token> &tp, const std::vector<const variable_declaration *> &ds) const noexcept override
  {
    strs v{"field", qid_s(tp)};
    app(v, ds);
    return rec(new field_declaration(tp, ds), sx(v));
  }
  constructor_declaration *new_constructor_declaration(const params_t &pars, const std::vector<std::pair<const id_token, const std::vector<const expression *>>> &il, const std::vector<const statement *> &stmnts) const noexcept override
  {
    strs inits{"inits"};
    for (const auto &i : il)
    {
      strs one{name_s(i.first)};
      app(one, i.second);
      inits.push_back(sx(one));
    }
    strs v{"ctor", params_s(pars), sx(inits)};
    app(v, stmnts);
    return rec(new constructor_declaration(pars, il, stmnts), sx(v));
  }
  compilation_unit *new_compilation_unit(const std::vector<const method_declaration *> &ms, const std::vector<const predicate_declaration *> &ps, const std::vector<const type_declaration *> &ts, const std::vector<const statement *> &stmnts) const noexcept override
  {
    strs m{"methods"}, p{"preds"}, t{"types"}, s{"stmts"};
    app(m, ms);
    app(p, ps);
    app(t, ts);
    app(s, stmnts);
    return rec(new compilation_unit(ms, ps, ts, stmnts), sx({"unit", sx(m), sx(p), sx(t), sx(s)}));
  }

  // the statements..
  local_field_statement *new_local_field_statement(const std::vector<id_token> &ft, const std::vector<id_token> &ns, const std::vector<const expression *> &es) const noexcept override
  {
    strs v{"local", qid_s(ft)};
    for (size_t i = 0; i < ns.size(); ++i)
      v.push_back(sx({name_s(ns[i]), i < es.size() ? of(es[i]) : std::string("<missing>")}));
    if (es.size() != ns.size())
      v.push_back("<length-mismatch>");
    return rec(new local_field_statement(ft, ns, es), sx(v));
  }
  assignment_statement *new_assignment_statement(const std::vector<id_token> &is, const id_token &i, const expression *const e) const noexcept override
  {
    return rec(new assignment_statement(is, i, e), sx({"assign", qid_s(is), name_s(i), of(e)}));
  }
  expression_statement *new_expression_statement(const expression *const e) const noexcept override
  {
    return rec(new expression_statement(e), sx({"expr", of(e)}));
  }
  disjunction_statement *new_disjunction_statement(const std::vector<std::pair<const std::vector<const statement *>, const expression *const>> &conjs) const noexcept override
  {
    strs v{"disj"};
    for (const auto &c : conjs)
    {
      strs one{"conj", of(c.second)};
      app(one, c.first);
      v.push_back(sx(one));
    }
    return rec(new disjunction_statement(conjs), sx(v));
  }
  conjunction_statement *new_conjunction_statement(const std::vector<const statement *> &stmnts) const noexcept override
  {
    strs v{"block"};
    app(v, stmnts);
    return rec(new conjunction_statement(stmnts), sx(v));
  }
  formula_statement *new_formula_statement(const bool &isf, const id_token &fn, const std::vector<id_token> &scp, const id_token &pn, const std::vector<std::pair<const id_token, const expression *const>> &assns) const noexcept override
  {
    strs v{isf ? "fact" : "goal", name_s(fn), qid_s(scp), name_s(pn)};
    for (const auto &a : assns)
      v.push_back(sx({name_s(a.first), of(a.second)}));
    return rec(new formula_statement(isf, fn, scp, pn, assns), sx(v));
  }
  return_statement *new_return_statement(const expression *const e) const noexcept override
  {
    return rec(new return_statement(e), sx({"return", of(e)}));
  }

  // the expressions..
  bool_literal_expression *new_bool_literal_expression(const bool_token &l) const noexcept override
  {
    return rec(new bool_literal_expression(l), sx({"bool", hv::show(l.val)}));
  }
  int_literal_expression *new_int_literal_expression(const int_token &l) const noexcept override
  {
    return rec(new int_literal_expression(l), sx({"int", std::to_string(l.val)}));
  }
  real_literal_expression *new_real_literal_expression(const real_token &l) const noexcept override
  {
    return rec(new real_literal_expression(l), sx({"real", hv::show(l.val)}));
  }
  string_literal_expression *new_string_literal_expression(const string_token &l) const noexcept override
  {
    return rec(new string_literal_expression(l), sx({"str", str_s(l)}));
  }
  cast_expression *new_cast_expression(const std::vector<id_token> &tp, const expression *const e) const noexcept override
  {
    return rec(new cast_expression(tp, e), sx({"cast", qid_s(tp), of(e)}));
  }
  plus_expression *new_plus_expression(const expression *const e) const noexcept override
  {
    return rec(new plus_expression(e), sx({"uplus", of(e)}));
  }
  minus_expression *new_minus_expression(const expression *const e) const noexcept override
  {
    return rec(new minus_expression(e), sx({"uminus", of(e)}));
  }
  not_expression *new_not_expression(const expression *const e) const noexcept override
  {
    return rec(new not_expression(e), sx({"not", of(e)}));
  }
  constructor_expression *new_constructor_expression(const std::vector<id_token> &it, const std::vector<const expression *> &es) const noexcept override
  {
    strs v{"new", qid_s(it)};
    app(v, es);
    return rec(new constructor_expression(it, es), sx(v));
  }
  eq_expression *new_eq_expression(const expression *const l, const expression *const r) const noexcept override
  {
    return rec(new eq_expression(l, r), sx({"eq", of(l), of(r)}));
  }
  neq_expression *new_neq_expression(const expression *const l, const expression *const r) const noexcept override
  {
    return rec(new neq_expression(l, r), sx({"neq", of(l), of(r)}));
  }
  lt_expression *new_lt_expression(const expression *const l, const expression *const r) const noexcept override
  {
    return rec(new lt_expression(l, r), sx({"lt", of(l), of(r)}));
  }
  leq_expression *new_leq_expression(const expression *const l, const expression *const r) const noexcept override
  {
    return rec(new leq_expression(l, r), sx({"leq", of(l), of(r)}));
  }
  geq_expression *new_geq_expression(const expression *const l, const expression *const r) const noexcept override
  {
    return rec(new geq_expression(l, r), sx({"geq", of(l), of(r)}));
  }
  gt_expression *new_gt_expression(const expression *const l, const expression *const r) const noexcept override
  {
    return rec(new gt_expression(l, r), sx({"gt", of(l), of(r)}));
  }
  function_expression *new_function_expression(const std::vector<id_token> &is, const id_token &fn, const std::vector<const expression *> &es) const noexcept override
  {
    strs v{"call", qid_s(is), name_s(fn)};
    app(v, es);
    return rec(new function_expression(is, fn, es), sx(v));
  }
  id_expression *new_id_expression(const std::vector<id_token> &is) const noexcept override
  {
    return rec(new id_expression(is), sx({"id", qid_s(is)}));
  }
  implication_expression *new_implication_expression(const expression *const l, const expression *const r) const noexcept override
  {
    return rec(new implication_expression(l, r), sx({"impl", of(l), of(r)}));
  }
  template <typename N>
  N *nary(const char *tag, const std::vector<const expression *> &es) const
  {
    strs v{tag};
    app(v, es);
    return rec(new N(es), sx(v));
  }
  disjunction_expression *new_disjunction_expression(const std::vector<const expression *> &es) const noexcept override { return nary<disjunction_expression>("or", es); }
  conjunction_expression *new_conjunction_expression(const std::vector<const expression *> &es) const noexcept override { return nary<conjunction_expression>("and", es); }
  exct_one_expression *new_exct_one_expression(const std::vector<const expression *> &es) const noexcept override { return nary<exct_one_expression>("xor", es); }
  addition_expression *new_addition_expression(const std::vector<const expression *> &es) const noexcept override { return nary<addition_expression>("add", es); }
  subtraction_expression *new_subtraction_expression(const std::vector<const expression *> &es) const noexcept override { return nary<subtraction_expression>("sub", es); }
  multiplication_expression *new_multiplication_expression(const std::vector<const expression *> &es) const noexcept override { return nary<multiplication_expression>("mul", es); }
  division_expression *new_division_expression(const std::vector<const expression *> &es) const noexcept override { return nary<division_expression>("div", es); }
};

int main()
{
  std::ios::sync_with_stdio(false);
  std::string line;
  while (std::getline(std::cin, line))
  {
    hv::toks t(line);
    if (t.done())
    {
      std::cout << "\n";
      continue;
    }
    std::string res;
    try
    {
      const std::string op = t.next();
      if (op != "parse")
        throw std::runtime_error("bad-op");
      std::istringstream is(t.done() ? std::string() : unhex(t.next()));
      printing_parser p(is);
      std::unique_ptr<compilation_unit> cu(p.parse());
      res = p.of(cu.get());
    }
    catch (const std::invalid_argument &e)
    {
      const std::string w = e.what();
      const auto p = w.find("] ");
      res = "error:" + (p == std::string::npos ? w : w.substr(p + 2));
    }
    catch (const std::exception &e)
    {
      res = std::string("exception:") + e.what();
    }
    std::cout << res << "\n" << std::flush; // flushed: a crash on a later line must not swallow this one
  }
  return 0;
}
