// Debugging aid (not a registered check): solves one program and logs every clause given to new_clause (N) and every
// recorded clause (R) with the decision level, then the LRA state, so that tools/trace_check.py can look for a
// recorded clause that is not a consequence of what was added before it.
#include "solver.h"
#include "access.h"
#include <iostream>
#include <sstream>
#include <fstream>

using namespace ratio;

static solver *g = nullptr;
static void on_clause(const char *k, const std::vector<smt::lit> &lits)
{
  std::cout << k << " " << g->get_sat_core().decision_level() << " :";
  for (const auto &l : lits)
    std::cout << " " << (sign(l) ? "+" : "-") << variable(l);
  std::cout << " | dec:";
  for (const auto &l : g->get_sat_core().get_decisions())
    std::cout << " " << (sign(l) ? "+" : "-") << variable(l);
  std::cout << "\n";
}
static void on_new(void *, const std::vector<smt::lit> &lits) { on_clause("N", lits); }
static void on_rec(void *, const std::vector<smt::lit> &lits) { on_clause("R", lits); }

int main(int argc, char *argv[])
{
  std::ifstream in(argv[1]);
  std::stringstream ss;
  ss << in.rdbuf();
  g = new solver();
  g->get_sat_core().verif_new_clause = on_new;
  g->get_sat_core().verif_record = on_rec;
  bool res = false;
  try
  {
    g->read(ss.str());
    res = g->solve();
    std::cout << "RESULT " << (res ? "T" : "F") << "\n";
  }
  catch (const std::exception &e)
  {
    std::cout << "RESULT error " << e.what() << "\n";
  }
  std::cout << "LRA" << oratio_verif::access::lra_str(g->get_lra_theory()) << "\n";
  return 0;
}
