// Read-only access to the private state of the smt classes (enabled by the
// PSTLAB_ORATIO_VERIF friend declarations in /repo).
#pragma once
#include "sat_core.h"
#include "clause.h"
#include "lra_theory.h"
#include "lra_constraint.h"
#include "idl_theory.h"
#include "rdl_theory.h"
#include "ov_theory.h"
#include <algorithm>
#include <string>
#include <vector>

namespace oratio_verif
{
  using namespace smt;

  inline std::string lit_str(const lit &l) { return (sign(l) ? "+" : "-") + std::to_string(variable(l)); }

  struct access
  {
    static size_t nvars(const sat_core &s) { return s.assigns.size(); }
    static const std::vector<lbool> &assigns(const sat_core &s) { return s.assigns; }
    static const std::vector<lit> &trail(const sat_core &s) { return s.trail; }
    static const std::vector<size_t> &trail_lim(const sat_core &s) { return s.trail_lim; }
    static const std::vector<size_t> &level(const sat_core &s) { return s.level; }
    static const std::vector<constr *> &reason(const sat_core &s) { return s.reason; }
    static size_t queue_size(const sat_core &s) { return s.prop_q.size(); }
    static size_t nexprs(const sat_core &s) { return s.exprs.size(); }

    // the clause database (every constr is a clause in this code base)
    static std::vector<std::vector<lit>> clauses(const sat_core &s)
    {
      std::vector<std::vector<lit>> res;
      for (const auto &c : s.constrs)
        if (const clause *cl = dynamic_cast<const clause *>(c))
          res.push_back(cl->get_lits());
      return res;
    }
    static std::vector<lit> reason_lits(const sat_core &s, var v)
    {
      if (const clause *cl = dynamic_cast<const clause *>(s.reason[v]))
        return cl->get_lits();
      return {};
    }

    // exact dump of the search state: trail with levels and reasons, decisions, clauses in creation order with
    // their literals in storage order, watch lists (clauses numbered by position in `constrs`)
    static std::string search_str(const sat_core &s)
    {
      std::string r = "trail:";
      for (const auto &l : s.trail)
      {
        r += " " + lit_str(l) + "@" + std::to_string(s.level[variable(l)]);
        if (s.reason[variable(l)])
        {
          const auto it = std::find(s.constrs.begin(), s.constrs.end(), s.reason[variable(l)]);
          r += "r" + (it == s.constrs.end() ? std::string("?") : std::to_string(it - s.constrs.begin()));
        }
      }
      r += " | dec:";
      for (const auto &l : s.decisions)
        r += " " + lit_str(l);
      r += " | q:" + std::to_string(s.prop_q.size()) + " | cls:";
      for (const auto &c : clauses(s))
      {
        r += "[";
        for (size_t i = 0; i < c.size(); ++i)
          r += (i ? " " : "") + lit_str(c[i]);
        r += "]";
      }
      r += " | w:";
      for (size_t i = 0; i < s.watches.size(); ++i)
        if (!s.watches[i].empty())
        {
          r += " " + std::string((i & 1) ? "+" : "-") + std::to_string(i >> 1) + ":";
          for (size_t k = 0; k < s.watches[i].size(); ++k)
          {
            const auto it = std::find(s.constrs.begin(), s.constrs.end(), s.watches[i][k]);
            r += (k ? "," : "") + (it == s.constrs.end() ? std::string("?") : std::to_string(it - s.constrs.begin()));
          }
        }
      return r;
    }

    // difference logic: distance and predecessor matrices over the existing variables, the responsible constraints
    template <typename T>
    static std::string dl_str(const T &th)
    {
      std::string r = "n=" + std::to_string(th.n_vars) + " d:";
      for (size_t i = 0; i < th.n_vars; ++i)
      {
        r += "[";
        for (size_t j = 0; j < th.n_vars; ++j)
          r += (j ? " " : "") + dl_val(th._dists[i][j]);
        r += "]";
      }
      r += " p:";
      for (size_t i = 0; i < th.n_vars; ++i)
      {
        r += "[";
        for (size_t j = 0; j < th.n_vars; ++j)
          r += (j ? " " : "") + (th._preds[i][j] == std::numeric_limits<size_t>::max() ? std::string("-") : std::to_string(th._preds[i][j]));
        r += "]";
      }
      r += " c:";
      for (const auto &[k, c] : th.dist_constr)
        r += " " + std::to_string(k.first) + ">" + std::to_string(k.second) + "=" + std::to_string(variable(c->b));
      r += " layers:" + std::to_string(th.layers.size()) + " vd:";
      std::vector<var> bs;
      for (const auto &[b, c] : th.var_dists)
        bs.push_back(b);
      std::sort(bs.begin(), bs.end());
      for (const auto &b : bs)
      {
        const auto &c = th.var_dists.at(b);
        r += " " + std::to_string(b) + "=" + std::to_string(c->from) + ">" + std::to_string(c->to) + ":" + dl_val(c->dist);
      }
      return r;
    }
    // linear real arithmetic: values, bounds with their reasons, tableau rows in the order of the map, assertions by
    // controlling variable, assertion watches (vector order), row watches (sorted by basic variable), the undo layers
    // (oldest first, each sorted by bound index), the expression and assertion tables sorted by key
    static size_t lra_nvars(const lra_theory &th) { return th.vals.size(); }
    static std::string lin_str(const lin &l)
    {
      std::string s = "L" + std::to_string(l.vars.size());
      for (const auto &[v, c] : l.vars)
        s += " " + std::to_string(v) + " " + std::to_string(c.numerator()) + "/" + std::to_string(c.denominator());
      return s + " " + std::to_string(l.known_term.numerator()) + "/" + std::to_string(l.known_term.denominator());
    }
    static std::string lra_str(const lra_theory &th)
    {
      const size_t n = th.vals.size();
      std::string r = "n=" + std::to_string(n) + " v:";
      for (size_t v = 0; v < n; ++v)
        r += " " + hv_show(th.vals[v]);
      r += " b:";
      for (size_t v = 0; v < n; ++v)
        r += " [" + hv_show(th.c_bounds[lra_theory::lb_index(v)].value) + " " + lit_str(th.c_bounds[lra_theory::lb_index(v)].reason) + " " + hv_show(th.c_bounds[lra_theory::ub_index(v)].value) + " " + lit_str(th.c_bounds[lra_theory::ub_index(v)].reason) + "]";
      r += " t:";
      for (const auto &[x, rw] : th.tableau)
        r += " " + std::to_string(x) + "=" + lin_str(rw->l) + ";";
      r += " a:";
      {
        std::vector<var> bs;
        for (const auto &[b, a] : th.v_asrts)
          bs.push_back(b);
        std::sort(bs.begin(), bs.end());
        for (const auto &b : bs)
        {
          const auto &a = th.v_asrts.at(b);
          r += " " + std::to_string(b) + "=" + lit_str(a->b) + ":x" + std::to_string(a->x) + (a->o == leq ? "<=" : ">=") + hv_show(a->v);
        }
      }
      r += " aw:";
      for (size_t v = 0; v < th.a_watches.size(); ++v)
        if (!th.a_watches[v].empty())
        {
          r += " " + std::to_string(v) + ":";
          for (size_t k = 0; k < th.a_watches[v].size(); ++k)
            r += (k ? "," : "") + std::to_string(variable(th.a_watches[v][k]->b));
        }
      r += " tw:";
      for (size_t v = 0; v < th.t_watches.size(); ++v)
        if (!th.t_watches[v].empty())
        {
          std::vector<var> xs;
          for (const auto &rw : th.t_watches[v])
            xs.push_back(rw->x);
          std::sort(xs.begin(), xs.end());
          r += " " + std::to_string(v) + ":";
          for (size_t k = 0; k < xs.size(); ++k)
            r += (k ? "," : "") + std::to_string(xs[k]);
        }
      r += " layers:" + std::to_string(th.layers.size());
      for (const auto &ly : th.layers)
      {
        std::vector<size_t> ix;
        for (const auto &[i, b] : ly)
          ix.push_back(i);
        std::sort(ix.begin(), ix.end());
        r += "{";
        for (const auto &i : ix)
          r += " " + std::to_string(i) + "=" + hv_show(ly.at(i).value) + " " + lit_str(ly.at(i).reason);
        r += "}";
      }
      r += " ex:";
      {
        std::vector<std::pair<std::string, var>> es(th.exprs.begin(), th.exprs.end());
        std::sort(es.begin(), es.end());
        for (const auto &[k, v] : es)
          r += " \"" + k + "\"=" + std::to_string(v) + ";";
      }
      r += " sa:";
      {
        std::vector<std::pair<std::string, lit>> es;
        for (const auto &[k, l] : th.s_asrts)
          es.push_back({k, l});
        std::sort(es.begin(), es.end(), [](const auto &a, const auto &b)
                  { return a.first < b.first; });
        for (const auto &[k, l] : es)
          r += " \"" + k + "\"=" + lit_str(l) + ";";
      }
      return r;
    }
    static std::vector<lit> lra_cnfl(const lra_theory &th) { return th.cnfl; }
    static std::string dl_val(const I &v) { return v == idl_theory::inf() ? "inf" : std::to_string(v); }
    static std::string dl_val(const inf_rational &v) { return hv_show(v); }
    static std::string hv_show(const inf_rational &r)
    {
      return std::to_string(r.get_rational().numerator()) + "/" + std::to_string(r.get_rational().denominator()) + "," + std::to_string(r.get_infinitesimal().numerator()) + "/" + std::to_string(r.get_infinitesimal().denominator());
    }

    // canonical dumps --------------------------------------------------------------------
    static std::string vals_str(const sat_core &s)
    {
      std::string r;
      for (const auto &a : s.assigns)
        r += a == True ? 'T' : (a == False ? 'F' : 'U');
      return r;
    }
    // the clause database modulo the current root values: satisfied clauses dropped, false literals removed
    static std::string clauses_simplified_str(const sat_core &s)
    {
      std::vector<std::vector<size_t>> cs;
      for (const auto &c : clauses(s))
      {
        std::vector<size_t> ix;
        bool sat = false;
        for (const auto &l : c)
        {
          const lbool v = s.value(l);
          if (v == True)
            sat = true;
          else if (v == Undefined)
            ix.push_back(index(l));
        }
        if (sat)
          continue;
        std::sort(ix.begin(), ix.end());
        ix.erase(std::unique(ix.begin(), ix.end()), ix.end());
        cs.push_back(ix);
      }
      std::sort(cs.begin(), cs.end());
      cs.erase(std::unique(cs.begin(), cs.end()), cs.end());
      std::string r;
      for (const auto &c : cs)
      {
        r += "[";
        for (size_t i = 0; i < c.size(); ++i)
          r += (i ? " " : "") + std::string((c[i] & 1) ? "+" : "-") + std::to_string(c[i] >> 1);
        r += "]";
      }
      return r;
    }
    static std::string clauses_str(const sat_core &s)
    {
      std::vector<std::vector<size_t>> cs;
      for (const auto &c : clauses(s))
      {
        std::vector<size_t> ix;
        for (const auto &l : c)
          ix.push_back(index(l));
        std::sort(ix.begin(), ix.end());
        cs.push_back(ix);
      }
      std::sort(cs.begin(), cs.end());
      std::string r;
      for (const auto &c : cs)
      {
        r += "[";
        for (size_t i = 0; i < c.size(); ++i)
          r += (i ? " " : "") + std::string((c[i] & 1) ? "+" : "-") + std::to_string(c[i] >> 1);
        r += "]";
      }
      return r;
    }
  };
} // namespace oratio_verif
