// Read-only access to the private state of the smt classes (enabled by the
// PSTLAB_ORATIO_VERIF friend declarations in /repo).
#pragma once
#include "sat_core.h"
#include "clause.h"
#include "lra_theory.h"
#include "lra_constraint.h"
#include "idl_theory.h"
#include "rdl_theory.h"
#include "ov_theory.h"
#include <algorithm>
#include <string>
#include <vector>

namespace oratio_verif
{
  using namespace smt;

  inline std::string lit_str(const lit &l) { return (sign(l) ? "+" : "-") + std::to_string(variable(l)); }

  struct access
  {
    static size_t nvars(const sat_core &s) { return s.assigns.size(); }
    static const std::vector<lbool> &assigns(const sat_core &s) { return s.assigns; }
    static const std::vector<lit> &trail(const sat_core &s) { return s.trail; }
    static const std::vector<size_t> &trail_lim(const sat_core &s) { return s.trail_lim; }
    static const std::vector<size_t> &level(const sat_core &s) { return s.level; }
    static const std::vector<constr *> &reason(const sat_core &s) { return s.reason; }
    static size_t queue_size(const sat_core &s) { return s.prop_q.size(); }
    static size_t nexprs(const sat_core &s) { return s.exprs.size(); }

    // the clause database (every constr is a clause in this code base)
    static std::vector<std::vector<lit>> clauses(const sat_core &s)
    {
      std::vector<std::vector<lit>> res;
      for (const auto &c : s.constrs)
        if (const clause *cl = dynamic_cast<const clause *>(c))
          res.push_back(cl->get_lits());
      return res;
    }
    static std::vector<lit> reason_lits(const sat_core &s, var v)
    {
      if (const clause *cl = dynamic_cast<const clause *>(s.reason[v]))
        return cl->get_lits();
      return {};
    }

    // exact dump of the search state: trail with levels and reasons, decisions, clauses in creation order with
    // their literals in storage order, watch lists (clauses numbered by position in `constrs`)
    static std::string search_str(const sat_core &s)
    {
      std::string r = "trail:";
      for (const auto &l : s.trail)
      {
        r += " " + lit_str(l) + "@" + std::to_string(s.level[variable(l)]);
        if (s.reason[variable(l)])
        {
          const auto it = std::find(s.constrs.begin(), s.constrs.end(), s.reason[variable(l)]);
          r += "r" + (it == s.constrs.end() ? std::string("?") : std::to_string(it - s.constrs.begin()));
        }
      }
      r += " | dec:";
      for (const auto &l : s.decisions)
        r += " " + lit_str(l);
      r += " | q:" + std::to_string(s.prop_q.size()) + " | cls:";
      for (const auto &c : clauses(s))
      {
        r += "[";
        for (size_t i = 0; i < c.size(); ++i)
          r += (i ? " " : "") + lit_str(c[i]);
        r += "]";
      }
      r += " | w:";
      for (size_t i = 0; i < s.watches.size(); ++i)
        if (!s.watches[i].empty())
        {
          r += " " + std::string((i & 1) ? "+" : "-") + std::to_string(i >> 1) + ":";
          for (size_t k = 0; k < s.watches[i].size(); ++k)
          {
            const auto it = std::find(s.constrs.begin(), s.constrs.end(), s.watches[i][k]);
            r += (k ? "," : "") + (it == s.constrs.end() ? std::string("?") : std::to_string(it - s.constrs.begin()));
          }
        }
      return r;
    }

    // difference logic: distance and predecessor matrices over the existing variables, the responsible constraints
    template <typename T>
    static std::string dl_str(const T &th)
    {
      std::string r = "n=" + std::to_string(th.n_vars) + " d:";
      for (size_t i = 0; i < th.n_vars; ++i)
      {
        r += "[";
        for (size_t j = 0; j < th.n_vars; ++j)
          r += (j ? " " : "") + dl_val(th._dists[i][j]);
        r += "]";
      }
      r += " p:";
      for (size_t i = 0; i < th.n_vars; ++i)
      {
        r += "[";
        for (size_t j = 0; j < th.n_vars; ++j)
          r += (j ? " " : "") + (th._preds[i][j] == std::numeric_limits<size_t>::max() ? std::string("-") : std::to_string(th._preds[i][j]));
        r += "]";
      }
      r += " c:";
      for (const auto &[k, c] : th.dist_constr)
        r += " " + std::to_string(k.first) + ">" + std::to_string(k.second) + "=" + std::to_string(variable(c->b));
      r += " layers:" + std::to_string(th.layers.size()) + " vd:";
      std::vector<var> bs;
      for (const auto &[b, c] : th.var_dists)
        bs.push_back(b);
      std::sort(bs.begin(), bs.end());
      for (const auto &b : bs)
      {
        const auto &c = th.var_dists.at(b);
        r += " " + std::to_string(b) + "=" + std::to_string(c->from) + ">" + std::to_string(c->to) + ":" + dl_val(c->dist);
      }
      return r;
    }
    static std::string dl_val(const I &v) { return v == idl_theory::inf() ? "inf" : std::to_string(v); }
    static std::string dl_val(const inf_rational &v) { return hv_show(v); }
    static std::string hv_show(const inf_rational &r)
    {
      return std::to_string(r.get_rational().numerator()) + "/" + std::to_string(r.get_rational().denominator()) + "," + std::to_string(r.get_infinitesimal().numerator()) + "/" + std::to_string(r.get_infinitesimal().denominator());
    }

    // canonical dumps --------------------------------------------------------------------
    static std::string vals_str(const sat_core &s)
    {
      std::string r;
      for (const auto &a : s.assigns)
        r += a == True ? 'T' : (a == False ? 'F' : 'U');
      return r;
    }
    // the clause database modulo the current root values: satisfied clauses dropped, false literals removed
    static std::string clauses_simplified_str(const sat_core &s)
    {
      std::vector<std::vector<size_t>> cs;
      for (const auto &c : clauses(s))
      {
        std::vector<size_t> ix;
        bool sat = false;
        for (const auto &l : c)
        {
          const lbool v = s.value(l);
          if (v == True)
            sat = true;
          else if (v == Undefined)
            ix.push_back(index(l));
        }
        if (sat)
          continue;
        std::sort(ix.begin(), ix.end());
        ix.erase(std::unique(ix.begin(), ix.end()), ix.end());
        cs.push_back(ix);
      }
      std::sort(cs.begin(), cs.end());
      cs.erase(std::unique(cs.begin(), cs.end()), cs.end());
      std::string r;
      for (const auto &c : cs)
      {
        r += "[";
        for (size_t i = 0; i < c.size(); ++i)
          r += (i ? " " : "") + std::string((c[i] & 1) ? "+" : "-") + std::to_string(c[i] >> 1);
        r += "]";
      }
      return r;
    }
    static std::string clauses_str(const sat_core &s)
    {
      std::vector<std::vector<size_t>> cs;
      for (const auto &c : clauses(s))
      {
        std::vector<size_t> ix;
        for (const auto &l : c)
          ix.push_back(index(l));
        std::sort(ix.begin(), ix.end());
        cs.push_back(ix);
      }
      std::sort(cs.begin(), cs.end());
      std::string r;
      for (const auto &c : cs)
      {
        r += "[";
        for (size_t i = 0; i < c.size(); ++i)
          r += (i ? " " : "") + std::string((c[i] & 1) ? "+" : "-") + std::to_string(c[i] >> 1);
        r += "]";
      }
      return r;
    }
  };
} // namespace oratio_verif
