// Correspondence harness for the root-level part of smt::sat_core (property C13):
// variables, clauses, reified constructors, root-level propagation.
#include "enc_ops.h"

using namespace smt;

int main()
{
  std::ios::sync_with_stdio(false);
  std::unique_ptr<sat_core> sat;
  std::string line;
  while (std::getline(std::cin, line))
  {
    hv::toks t(line);
    if (t.done())
    {
      std::cout << "\n";
      continue;
    }
    std::string res;
    try
    {
      const std::string op = t.next();
      if (op == "case")
      {
        sat.reset(new sat_core());
        std::cout << line << "\n";
        continue;
      }
      if (!sat || !hv::enc_exec(*sat, op, t, res))
        throw std::runtime_error("bad-op");
      res += hv::enc_state(*sat);
    }
    catch (const std::exception &e)
    {
      res = std::string("exception:") + e.what();
    }
    std::cout << res << "\n";
  }
  return 0;
}
