// Correspondence harness for the root-level part of smt::sat_core (property C13):
// variables, clauses, reified constructors, root-level propagation.
#include "common.h"
#include "access.h"
#include <memory>

using namespace smt;
using oratio_verif::access;
using oratio_verif::lit_str;

static lit parse_lit(const std::string &s)
{
  if (s.size() < 2 || (s[0] != '+' && s[0] != '-'))
    throw std::runtime_error("bad-op");
  return lit(static_cast<var>(std::stol(s.substr(1))), s[0] == '+');
}

static std::vector<lit> rest_lits(hv::toks &t)
{
  std::vector<lit> ls;
  while (!t.done())
    ls.push_back(parse_lit(t.next()));
  return ls;
}

int main()
{
  std::ios::sync_with_stdio(false);
  std::unique_ptr<sat_core> sat;
  std::string line;
  while (std::getline(std::cin, line))
  {
    hv::toks t(line);
    if (t.done())
    {
      std::cout << "\n";
      continue;
    }
    std::string res;
    try
    {
      const std::string op = t.next();
      if (op == "case")
      {
        sat.reset(new sat_core());
        std::cout << line << "\n";
        continue;
      }
      if (!sat)
        throw std::runtime_error("bad-op");
      if (op == "v")
        res = std::to_string(sat->new_var());
      else if (op == "c")
        res = hv::show(sat->new_clause(rest_lits(t)));
      else if (op == "eq")
      {
        lit a = parse_lit(t.next()), b = parse_lit(t.next());
        res = lit_str(sat->new_eq(a, b));
      }
      else if (op == "conj")
        res = lit_str(sat->new_conj(rest_lits(t)));
      else if (op == "disj")
        res = lit_str(sat->new_disj(rest_lits(t)));
      else if (op == "amo")
        res = lit_str(sat->new_at_most_one(rest_lits(t)));
      else if (op == "exo")
        res = lit_str(sat->new_exct_one(rest_lits(t)));
      else if (op == "prop")
        res = hv::show(sat->propagate());
      else
        throw std::runtime_error("bad-op");
      res += " | " + access::vals_str(*sat) + " | " + access::clauses_str(*sat);
    }
    catch (const std::exception &e)
    {
      res = std::string("exception:") + e.what();
    }
    std::cout << res << "\n";
  }
  return 0;
}
