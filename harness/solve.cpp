// End-to-end harness (properties C01-C06, C16, C17): reads RIDDLE programs (hex) one per line, runs the real
// solver in-process (read() + solve()), prints the verdict and the solution JSON on one line.
#include "solver.h"
#include <iostream>
#include <sstream>
#include <csignal>
#include <unistd.h>

using namespace ratio;

static void on_alarm(int)
{
  const char msg[] = "HANG\n";
  ssize_t r = write(1, msg, sizeof(msg) - 1);
  (void)r;
  _exit(0);
}

static std::string unhex(const std::string &h)
{
  std::string s;
  for (size_t i = 0; i + 1 < h.size(); i += 2)
    s.push_back(static_cast<char>(std::stoi(h.substr(i, 2), nullptr, 16)));
  return s;
}

int main(int argc, char *argv[])
{
  std::ios::sync_with_stdio(false);
  std::signal(SIGALRM, on_alarm);
  const unsigned limit = argc > 1 ? std::stoi(argv[1]) : 20;
  std::string line;
  while (std::getline(std::cin, line))
  {
    std::cout.flush();
    std::istringstream is(line);
    std::string op, h;
    is >> op >> h;
    if (op != "solve")
    {
      std::cout << "exception:bad-op\n";
      continue;
    }
    alarm(limit);
    std::string res;
    try
    {
      solver *s = new solver(); // deliberately not destroyed when something goes wrong below
      try
      {
        s->read(unhex(h));
        if (s->solve())
        {
          std::ostringstream os;
          os << *s;
          std::string js = os.str();
          for (auto &c : js)
            if (c == '\n' || c == '\r')
              c = ' ';
          std::ostringstream ot;
          s->extract_timelines().to_json(ot);
          std::string tl = ot.str();
          for (auto &c : tl)
            if (c == '\n' || c == '\r')
              c = ' ';
          res = "T " + js + " \tTL " + tl;
        }
        else
          res = "F";
        delete s;
      }
      catch (const std::exception &e)
      {
        std::string w = e.what();
        for (auto &c : w)
          if (c == '\n' || c == '\r')
            c = ' ';
        res = "error:" + w;
      }
    }
    catch (const std::exception &e)
    {
      res = std::string("exception:") + e.what();
    }
    alarm(0);
    std::cout << res << "\n";
  }
  return 0;
}
