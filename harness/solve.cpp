// End-to-end harness (properties C01-C06, C16, C17): reads RIDDLE programs (hex) one per line, runs the real
// solver in-process (read() + solve()), prints the verdict and the solution JSON on one line.
#include "solver.h"
#include <iostream>
#include <sstream>
#include <csignal>
#include <unistd.h>

#include "flaw.h"
#include "resolver.h"
#include "atom_flaw.h"
#include <set>
#include <algorithm>
#include <vector>

using namespace ratio;

// the justification graph behind a solution (property C03): every flaw reachable from the atoms' flaws through
// causes / resolvers / preconditions, with the truth values of phi / rho in the final assignment
namespace oratio_verif
{
  struct access
  {
    static std::string graph(solver &s)
    {
      auto val = [&s](const smt::lit &l)
      {
        if (variable(l) == variable(smt::lit())) // a flaw that was never initialised has no phi yet
          return "N";
        switch (s.get_sat_core().value(l))
        {
        case smt::True:
          return "T";
        case smt::False:
          return "F";
        default:
          return "U";
        }
      };
      std::vector<const flaw *> todo;
      std::set<const flaw *> seen;
      for (const auto &[atm, f] : s.reason)
        if (seen.insert(f).second)
          todo.push_back(f);
      std::vector<const flaw *> all;
      while (!todo.empty())
      {
        const flaw *f = todo.back();
        todo.pop_back();
        all.push_back(f);
        for (const auto &r : f->get_causes())
          if (seen.insert(&r->get_effect()).second)
            todo.push_back(&r->get_effect());
        for (const auto &r : f->get_resolvers())
          for (const auto &p : r->get_preconditions())
            if (seen.insert(p).second)
              todo.push_back(p);
      }
      std::sort(all.begin(), all.end());
      std::ostringstream o;
      o << "[";
      bool first = true;
      for (const flaw *f : all)
      {
        if (!first)
          o << ", ";
        first = false;
        o << "{\"id\": " << f->get_id() << ", \"data\": " << f->get_data() << ", \"phi\": \"" << val(f->get_phi()) << "\", \"expanded\": " << (f->is_expanded() ? "true" : "false") << ", \"causes\": [";
        bool fc = true;
        for (const auto &r : f->get_causes())
        {
          o << (fc ? "" : ", ") << r->get_id();
          fc = false;
        }
        o << "], \"resolvers\": [";
        bool fr = true;
        for (const auto &r : f->get_resolvers())
        {
          o << (fr ? "" : ", ") << "{\"id\": " << r->get_id() << ", \"data\": " << r->get_data() << ", \"rho\": \"" << val(r->get_rho()) << "\", \"preconditions\": [";
          fr = false;
          bool fp = true;
          for (const auto &p : r->get_preconditions())
          {
            o << (fp ? "" : ", ") << p->get_id();
            fp = false;
          }
          o << "]}";
        }
        o << "]}";
      }
      o << "]";
      std::string g = o.str();
      for (auto &c : g)
        if (c == '\n' || c == '\r')
          c = ' ';
      return g;
    }
  };
} // namespace oratio_verif

static void on_alarm(int)
{
  const char msg[] = "HANG\n";
  ssize_t r = write(1, msg, sizeof(msg) - 1);
  (void)r;
  _exit(0);
}

static std::string unhex(const std::string &h)
{
  std::string s;
  for (size_t i = 0; i + 1 < h.size(); i += 2)
    s.push_back(static_cast<char>(std::stoi(h.substr(i, 2), nullptr, 16)));
  return s;
}

int main(int argc, char *argv[])
{
  std::ios::sync_with_stdio(false);
  std::signal(SIGALRM, on_alarm);
  const unsigned limit = argc > 1 ? std::stoi(argv[1]) : 20;
  std::string line;
  while (std::getline(std::cin, line))
  {
    std::cout.flush();
    std::istringstream is(line);
    std::string op, h;
    is >> op >> h;
    if (op != "solve")
    {
      std::cout << "exception:bad-op\n";
      continue;
    }
    alarm(limit);
    std::string res;
    try
    {
      solver *s = new solver(); // deliberately not destroyed when something goes wrong below
      try
      {
        s->read(unhex(h));
        if (s->solve())
        {
          std::ostringstream os;
          os << *s;
          std::string js = os.str();
          for (auto &c : js)
            if (c == '\n' || c == '\r')
              c = ' ';
          std::ostringstream ot;
          s->extract_timelines().to_json(ot);
          std::string tl = ot.str();
          for (auto &c : tl)
            if (c == '\n' || c == '\r')
              c = ' ';
          res = "T " + js + " \tTL " + tl + " \tJG " + oratio_verif::access::graph(*s);
        }
        else
          res = "F";
        delete s;
      }
      catch (const std::exception &e)
      {
        std::string w = e.what();
        for (auto &c : w)
          if (c == '\n' || c == '\r')
            c = ' ';
        res = "error:" + w;
      }
    }
    catch (const std::exception &e)
    {
      res = std::string("exception:") + e.what();
    }
    alarm(0);
    std::cout << res << "\n";
  }
  return 0;
}
