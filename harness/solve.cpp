// End-to-end harness (properties C01-C06, C16, C17): reads RIDDLE programs (hex) one per line, runs the real
// solver in-process (read() + solve()), prints the verdict and the solution JSON on one line.
#include "solver.h"
#include <iostream>
#include <sstream>
#include <csignal>
#include <unistd.h>
#include <cstdio>
#include <cstdlib>

#include "lra_theory.h"
#include "lra_constraint.h"
#include "flaw.h"
#include "resolver.h"
#include "atom_flaw.h"
#include "type.h"
#include "enum_type.h"
#include "item.h"
#include <map>
#include <set>
#include <algorithm>
#include <vector>

using namespace ratio;

// the justification graph behind a solution (property C03): every flaw reachable from the atoms' flaws through
// causes / resolvers / preconditions, with the truth values of phi / rho in the final assignment
namespace oratio_verif
{
  struct access
  {
    // the spelling of every string item that is a value of an enum type (the solution JSON shows their ids only)
    static void strings_of(const std::map<std::string, type *> &ts, std::ostringstream &o, bool &first, std::set<const type *> &seen)
    {
      for (const auto &[n, t] : ts)
      {
        if (!seen.insert(t).second)
          continue;
        for (const auto &i : t->get_instances())
          if (const string_item *si = dynamic_cast<const string_item *>(&*i))
          {
            std::string v = si->get_value();
            std::string esc;
            for (char c : v)
              if (c == '"' || c == '\\')
              {
                esc.push_back('\\');
                esc.push_back(c);
              }
              else if (static_cast<unsigned char>(c) < 0x20)
                esc.push_back(' ');
              else
                esc.push_back(c);
            o << (first ? "" : ", ") << "\"" << si->get_id() << "\": \"" << esc << "\"";
            first = false;
          }
        strings_of(t->get_types(), o, first, seen);
      }
    }
    static std::string strings(solver &s)
    {
      std::ostringstream o;
      o << "{";
      bool first = true;
      std::set<const type *> seen;
      strings_of(s.get_types(), o, first, seen);
      o << "}";
      return o.str();
    }

    // the instance registry (property C17): for every type its `instances` in order (duplicates kept); for every
    // enum type the values a NEW variable of the type ranges over (spellings, sorted)
    static void registry_of(solver &s, const std::map<std::string, type *> &ts, const std::string &prefix, std::ostringstream &o, bool &first, std::set<const type *> &seen)
    {
      for (const auto &[n, t] : ts)
      {
        if (!seen.insert(t).second || t->is_primitive())
          continue;
        o << (first ? "" : ", ") << "\"" << prefix << n << "\": {\"instances\": [";
        first = false;
        bool fi = true;
        for (const auto &i : t->get_instances())
        {
          o << (fi ? "" : ", ") << i->get_id();
          fi = false;
        }
        o << "]";
        if (enum_type *et = dynamic_cast<enum_type *>(t))
        {
          std::vector<std::string> vals;
          for (const auto &v : et->get_all_instances())
            if (const string_item *si = dynamic_cast<const string_item *>(v))
              vals.push_back(si->get_value());
          std::sort(vals.begin(), vals.end());
          o << ", \"enum_values\": [";
          bool fv = true;
          for (const auto &v : vals)
          {
            o << (fv ? "" : ", ") << "\"" << v << "\"";
            fv = false;
          }
          o << "]";
        }
        o << "}";
        registry_of(s, t->get_types(), prefix + n + ".", o, first, seen);
      }
    }
    static std::string registry(solver &s)
    {
      std::ostringstream o;
      o << "{";
      bool first = true;
      std::set<const type *> seen;
      registry_of(s, s.get_types(), "", o, first, seen);
      o << "}";
      return o.str();
    }

    // debugging aid (VERIF_TRACE): what the LRA assertion literals and slack variables stand for
    static void lra_meaning(solver &s)
    {
      for (const auto &[k, l] : s.get_lra_theory().s_asrts)
        fprintf(stderr, "TRC ASRT %c%zu : %s\n", sign(l) ? '+' : '-', variable(l), k.c_str());
      for (const auto &[k, v] : s.get_lra_theory().exprs)
        fprintf(stderr, "TRC EXPR x%zu = %s\n", v, k.c_str());
      for (const auto &[v, r] : s.get_lra_theory().tableau)
        fprintf(stderr, "TRC ROW x%zu = %s\n", v, to_string(r->l).c_str());
      for (size_t v = 0; v < s.get_lra_theory().vals.size(); ++v)
        fprintf(stderr, "TRC VAR x%zu val=%s lb=%s ub=%s\n", v, to_string(s.get_lra_theory().value(v)).c_str(), to_string(s.get_lra_theory().lb(v)).c_str(), to_string(s.get_lra_theory().ub(v)).c_str());
    }

    static std::string slit(const smt::lit &l) { return (sign(l) ? "+" : "-") + std::to_string(variable(l)); }

    static std::string graph(solver &s)
    {
      auto val = [&s](const smt::lit &l)
      {
        if (variable(l) == variable(smt::lit())) // a flaw that was never initialised has no phi yet
          return "N";
        switch (s.get_sat_core().value(l))
        {
        case smt::True:
          return "T";
        case smt::False:
          return "F";
        default:
          return "U";
        }
      };
      std::vector<const flaw *> todo;
      std::set<const flaw *> seen;
      for (const auto &[atm, f] : s.reason)
        if (seen.insert(f).second)
          todo.push_back(f);
      std::vector<const flaw *> all;
      while (!todo.empty())
      {
        const flaw *f = todo.back();
        todo.pop_back();
        all.push_back(f);
        for (const auto &r : f->get_causes())
          if (seen.insert(&r->get_effect()).second)
            todo.push_back(&r->get_effect());
        for (const auto &r : f->get_resolvers())
          for (const auto &p : r->get_preconditions())
            if (seen.insert(p).second)
              todo.push_back(p);
      }
      std::sort(all.begin(), all.end());
      std::ostringstream o;
      o << "[";
      bool first = true;
      for (const flaw *f : all)
      {
        if (!first)
          o << ", ";
        first = false;
        o << "{\"id\": " << f->get_id() << ", \"data\": " << f->get_data() << ", \"phi\": \"" << val(f->get_phi()) << "\", \"phi_lit\": \"" << slit(f->get_phi()) << "\", \"exclusive\": " << (f->exclusive ? "true" : "false") << ", \"expanded\": " << (f->is_expanded() ? "true" : "false") << ", \"causes\": [";
        bool fc = true;
        for (const auto &r : f->get_causes())
        {
          o << (fc ? "" : ", ") << r->get_id();
          fc = false;
        }
        o << "], \"resolvers\": [";
        bool fr = true;
        for (const auto &r : f->get_resolvers())
        {
          o << (fr ? "" : ", ") << "{\"id\": " << r->get_id() << ", \"data\": " << r->get_data() << ", \"rho\": \"" << val(r->get_rho()) << "\", \"rho_lit\": \"" << slit(r->get_rho()) << "\", \"preconditions\": [";
          fr = false;
          bool fp = true;
          for (const auto &p : r->get_preconditions())
          {
            o << (fp ? "" : ", ") << p->get_id();
            fp = false;
          }
          o << "]}";
        }
        o << "]}";
      }
      o << "]";
      std::string g = o.str();
      for (auto &c : g)
        if (c == '\n' || c == '\r')
          c = ' ';
      return g;
    }
  };
} // namespace oratio_verif

static void on_alarm(int)
{
  const char msg[] = "HANG\n";
  ssize_t r = write(1, msg, sizeof(msg) - 1);
  (void)r;
  _exit(0);
}

static std::string unhex(const std::string &h)
{
  std::string s;
  for (size_t i = 0; i + 1 < h.size(); i += 2)
    s.push_back(static_cast<char>(std::stoi(h.substr(i, 2), nullptr, 16)));
  return s;
}

static solver *g_slv = nullptr;
static void trc(const char *k, const std::vector<smt::lit> &lits)
{ // no heap allocation here: the search follows pointer-hash orders, the trace must not move the heap
  char buf[4096];
  int n = snprintf(buf, sizeof(buf), "TRC %s %zu :", k, g_slv->get_sat_core().decision_level());
  for (const auto &l : lits)
    if (n < 4000)
      n += snprintf(buf + n, sizeof(buf) - n, " %c%zu", sign(l) ? '+' : '-', variable(l));
  if (n < 4000)
    n += snprintf(buf + n, sizeof(buf) - n, " | dec:");
  for (const auto &l : g_slv->get_sat_core().get_decisions())
    if (n < 4000)
      n += snprintf(buf + n, sizeof(buf) - n, " %c%zu", sign(l) ? '+' : '-', variable(l));
  buf[n++] = '\n';
  ssize_t r = write(2, buf, n);
  (void)r;
}
static void on_new(void *, const std::vector<smt::lit> &lits) { trc("N", lits); }
// VERIF_CLAUSES: every clause given to sat_core::new_clause during read() + solve(), for the clause-level part of C03
static std::string *g_posted = nullptr;
static void on_new_collect(void *, const std::vector<smt::lit> &lits)
{
  *g_posted += "[";
  for (size_t i = 0; i < lits.size(); ++i)
    *g_posted += (i ? " " : "") + oratio_verif::access::slit(lits[i]);
  *g_posted += "]";
}
static void on_rec(void *, const std::vector<smt::lit> &lits) { trc("R", lits); }

int main(int argc, char *argv[])
{
  std::ios::sync_with_stdio(false);
  std::signal(SIGALRM, on_alarm);
  const unsigned limit = argc > 1 ? std::stoi(argv[1]) : 20;
  std::string line;
  while (std::getline(std::cin, line))
  {
    std::cout.flush();
    std::istringstream is(line);
    std::string op, h;
    is >> op >> h;
    if (op != "solve")
    {
      std::cout << "exception:bad-op\n";
      continue;
    }
    alarm(limit);
    std::string res;
    try
    {
      solver *s = new solver(); // deliberately not destroyed when something goes wrong below
      if (getenv("VERIF_TRACE"))
      {
        g_slv = s;
        s->get_sat_core().verif_new_clause = on_new;
        s->get_sat_core().verif_record = on_rec;
      }
      std::string posted;
      if (getenv("VERIF_CLAUSES"))
      {
        g_posted = &posted;
        s->get_sat_core().verif_new_clause = on_new_collect;
      }
      try
      {
        s->read(unhex(h));
        if (s->solve())
        {
          std::ostringstream os;
          os << *s;
          std::string js = os.str();
          for (auto &c : js)
            if (c == '\n' || c == '\r')
              c = ' ';
          std::ostringstream ot;
          s->extract_timelines().to_json(ot);
          std::string tl = ot.str();
          for (auto &c : tl)
            if (c == '\n' || c == '\r')
              c = ' ';
          res = "T " + js + " \tTL " + tl + " \tJG " + oratio_verif::access::graph(*s) + " \tST " + oratio_verif::access::strings(*s) + " \tTI " + oratio_verif::access::registry(*s);
          if (getenv("VERIF_CLAUSES"))
            res += " \tCL " + posted;
        }
        else
        {
          res = "F";
          if (getenv("VERIF_TRACE"))
          {
            oratio_verif::access::lra_meaning(*s);
            fprintf(stderr, "TRC GRAPH %s\n", oratio_verif::access::graph(*s).c_str());
          }
        }
        delete s;
      }
      catch (const std::exception &e)
      {
        std::string w = e.what();
        for (auto &c : w)
          if (c == '\n' || c == '\r')
            c = ' ';
        res = "error:" + w;
      }
    }
    catch (const std::exception &e)
    {
      res = std::string("exception:") + e.what();
    }
    alarm(0);
    std::cout << res << "\n";
  }
  return 0;
}
