// Correspondence harness for smt::ov_theory on top of sat_core (property C14).
// ov_theory iterates unordered_maps keyed by pointers, so the ORDER in which new_eq posts its clauses is not a
// function of the input; `new` and `oveq` are therefore followed by propagate() and the clause database is
// printed modulo the root values (satisfied clauses dropped, false literals removed), which is order-free.
#include "enc_ops.h"
#include <map>

using namespace smt;
using oratio_verif::lit_str;

struct val : public var_value
{
  size_t id;
  explicit val(size_t id) : id(id) {}
};

struct world
{
  sat_core sat;
  ov_theory ov;
  std::map<size_t, std::unique_ptr<val>> vals;
  std::vector<std::vector<size_t>> doms; // value ids given at creation (for printing)
  world() : ov(sat) {}
  val *value(size_t id)
  {
    auto it = vals.find(id);
    if (it == vals.end())
      it = vals.emplace(id, new val(id)).first;
    return it->second.get();
  }
  std::string dom_str(var v)
  {
    std::vector<size_t> ids = doms[v];
    std::sort(ids.begin(), ids.end());
    ids.erase(std::unique(ids.begin(), ids.end()), ids.end());
    std::string r;
    for (size_t i = 0; i < ids.size(); ++i)
      r += (i ? " " : "") + std::to_string(ids[i]) + ":" + lit_str(ov.allows(v, *value(ids[i])));
    return r;
  }
};

int main()
{
  std::ios::sync_with_stdio(false);
  std::unique_ptr<world> w;
  std::string line;
  while (std::getline(std::cin, line))
  {
    hv::toks t(line);
    if (t.done())
    {
      std::cout << "\n";
      continue;
    }
    std::string res;
    try
    {
      const std::string op = t.next();
      if (op == "case")
      {
        w.reset(new world());
        std::cout << line << "\n";
        continue;
      }
      if (!w)
        throw std::runtime_error("bad-op");
      if (op == "new")
      {
        const bool enforce = t.next() == "1";
        std::vector<var_value *> items;
        std::vector<size_t> ids;
        while (!t.done())
        {
          ids.push_back(static_cast<size_t>(t.integer()));
          items.push_back(w->value(ids.back()));
        }
        if (items.empty())
          throw std::runtime_error("bad-op");
        const var v = w->ov.new_var(items, enforce);
        w->doms.push_back(ids);
        res = std::to_string(v) + " " + w->dom_str(v);
        res += w->sat.propagate() ? " T" : " F";
      }
      else if (op == "lits")
      {
        std::vector<lit> ls;
        std::vector<var_value *> items;
        std::vector<size_t> ids;
        while (!t.done())
        {
          const std::string p = t.next();
          const auto c = p.find(':');
          if (c == std::string::npos)
            throw std::runtime_error("bad-op");
          ls.push_back(hv::parse_lit(p.substr(0, c)));
          ids.push_back(static_cast<size_t>(std::stol(p.substr(c + 1))));
          items.push_back(w->value(ids.back()));
        }
        if (ls.empty())
          throw std::runtime_error("bad-op");
        hv::check_lits(w->sat, ls);
        const var v = w->ov.new_var(ls, items);
        w->doms.push_back(ids);
        res = std::to_string(v) + " " + w->dom_str(v);
      }
      else if (op == "oveq")
      {
        const size_t a = t.integer(), b = t.integer();
        if (a >= w->doms.size() || b >= w->doms.size())
          throw std::runtime_error("bad-op");
        res = lit_str(w->ov.new_eq(a, b));
        res += w->sat.propagate() ? " T" : " F";
      }
      else if (op == "allows")
      {
        const size_t v = t.integer(), k = t.integer();
        if (v >= w->doms.size())
          throw std::runtime_error("bad-op");
        res = lit_str(w->ov.allows(v, *w->value(k)));
      }
      else if (op == "value")
      {
        const size_t v = t.integer();
        if (v >= w->doms.size())
          throw std::runtime_error("bad-op");
        std::vector<size_t> ids;
        for (const auto &x : w->ov.value(v))
          ids.push_back(static_cast<val *>(x)->id);
        std::sort(ids.begin(), ids.end());
        for (size_t i = 0; i < ids.size(); ++i)
          res += (i ? " " : "") + std::to_string(ids[i]);
      }
      else if (!hv::enc_exec(w->sat, op, t, res))
        throw std::runtime_error("bad-op");
      res += hv::enc_state_simplified(w->sat);
    }
    catch (const std::exception &e)
    {
      res = std::string("exception:") + e.what();
    }
    std::cout << res << "\n";
  }
  return 0;
}
