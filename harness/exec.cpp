// Executor harness (property C19): one line = one execution history.
//   exec <hex program> <units_per_tick n/d> <script>
// script: comma-separated steps
//   t                      tick()
//   ds:<k>:<name>:<n/d>    during the k-th tick (1-based), when <name> is announced by starting(), dont_start_yet(<name>, n/d)
//   de:<k>:<name>:<n/d>    same for ending() / dont_end_yet
//   ps:<name>:<n/d>        dont_start_yet issued between ticks (outside a callback)
//   pe:<name>:<n/d>        dont_end_yet issued between ticks
//   f:<name>               failure({<name>}) issued between ticks
// output: the event log, `;`-separated:
//   solved | tick <k> now=<t> | starting a b | ending a b | start a b | end a b | plan a=[s,e] ... | exception:<what>
#include "solver.h"
#include "executor.h"
#include "executor_listener.h"
#include "core_listener.h"
#include "atom.h"
#include "predicate.h"
#include "item.h"
#include <iostream>
#include <sstream>
#include <csignal>
#include <unistd.h>
#include <map>
#include <set>
#include <algorithm>

using namespace ratio;

static void on_alarm(int)
{
  const char msg[] = "HANG\n";
  ssize_t r = write(1, msg, sizeof(msg) - 1);
  (void)r;
  _exit(0);
}

static std::string unhex(const std::string &h)
{
  std::string s;
  for (size_t i = 0; i + 1 < h.size(); i += 2)
    s.push_back(static_cast<char>(std::stoi(h.substr(i, 2), nullptr, 16)));
  return s;
}

static smt::rational parse_q(const std::string &s)
{
  const auto p = s.find('/');
  if (p == std::string::npos)
    return smt::rational(std::stol(s));
  return smt::rational(std::stol(s.substr(0, p)), std::stol(s.substr(p + 1)));
}

// times without blanks: `q` or `q~e` for q + e*epsilon
static std::string show_t(const smt::inf_rational &v)
{
  std::string r = to_string(v.get_rational());
  if (v.get_infinitesimal() != smt::rational::ZERO)
    r += "~" + to_string(v.get_infinitesimal());
  return r;
}

struct step
{
  std::string kind;
  size_t k = 0;
  std::string name;
  smt::rational amount;
};

class recorder : public executor_listener, public core_listener
{
public:
  recorder(executor &e, solver &s, std::ostringstream &log) : executor_listener(e), core_listener(s), exec(e), slv(s), log(log) {}
  bool armed = false;

  std::string label(const atom *a)
  {
    if (const auto it = labels.find(a); it != labels.cend())
      return it->second;
    std::string l = "n" + std::to_string(labels.size());
    labels.emplace(a, l);
    return l;
  }
  void name_atoms()
  {
    for (const auto &[n, x] : slv.get_exprs())
      if (const atom *a = dynamic_cast<const atom *>(&*x))
      {
        labels[a] = n;
        by_name[n] = a;
      }
  }
  // a named atom, or an unnamed one by the label it was given when it first appeared (n0, n1, ..)
  const atom *find_atom(const std::string &n) const
  {
    if (const auto it = by_name.find(n); it != by_name.cend())
      return it->second;
    for (const auto &[a, l] : labels)
      if (l == n)
        return a;
    return nullptr;
  }
  std::string names(const std::unordered_set<atom *> &atms)
  {
    std::vector<std::string> ls;
    for (const auto &a : atms)
      ls.push_back(label(a));
    std::sort(ls.begin(), ls.end());
    std::string r;
    for (const auto &l : ls)
      r += " " + l;
    return r;
  }
  void plan()
  {
    std::vector<std::string> ps;
    std::set<const atom *> seen;
    std::vector<const predicate *> preds;
    for (const auto &[pn, p] : slv.get_predicates())
      preds.push_back(p);
    std::vector<type *> q;
    for (const auto &[tn, t] : slv.get_types())
      q.push_back(t);
    while (!q.empty())
    {
      type *t = q.back();
      q.pop_back();
      for (const auto &[pn, p] : t->get_predicates())
        preds.push_back(p);
      for (const auto &[tn, st] : t->get_types())
        q.push_back(st);
    }
    for (const auto &p : preds)
      for (const auto &i : p->get_instances())
      {
        atom *a = static_cast<atom *>(&*i);
        if (!seen.insert(a).second || slv.get_sat_core().value(a->get_sigma()) != smt::True)
          continue;
        if (slv.is_impulse(*a))
        {
          arith_expr at = a->get(RATIO_AT);
          ps.push_back(label(a) + "=[" + show_t(slv.arith_value(at)) + "]");
        }
        else if (slv.is_interval(*a))
        {
          arith_expr s = a->get(RATIO_START);
          arith_expr e = a->get(RATIO_END);
          ps.push_back(label(a) + "=[" + show_t(slv.arith_value(s)) + "," + show_t(slv.arith_value(e)) + "]");
        }
      }
    std::sort(ps.begin(), ps.end());
    log << "plan";
    for (const auto &p : ps)
      log << " " << p;
    log << ";";
    // the boolean parameters of the active atoms (frozen when the atom starts)
    std::vector<std::string> bs;
    for (const auto *a : seen)
      if (slv.get_sat_core().value(a->get_sigma()) == smt::True)
        for (const auto &[xn, x] : a->get_exprs())
          if (const bool_item *bi = dynamic_cast<const bool_item *>(&*x))
          {
            const auto v = slv.get_sat_core().value(bi->l);
            bs.push_back(label(a) + "." + xn + "=" + (v == smt::True ? "T" : v == smt::False ? "F" : "U"));
          }
          else if (xn != RATIO_START && xn != RATIO_END && xn != RATIO_DURATION && xn != RATIO_AT)
            if (const arith_item *ai = dynamic_cast<const arith_item *>(&*x); ai && ai->get_type().get_name() == "real" && !ai->l.vars.empty())
              bs.push_back(label(a) + "." + xn + "=" + show_t(slv.arith_value(arith_expr(const_cast<arith_item *>(ai)))));
    if (!bs.empty())
    {
      std::sort(bs.begin(), bs.end());
      log << "params";
      for (const auto &b : bs)
        log << " " << b;
      log << ";";
    }
  }

  std::vector<step> steps;
  size_t tick_no = 0;
  std::map<std::string, const atom *> by_name;

private:
  void tick(const smt::rational &time) override { log << "tick " << tick_no << " now=" << to_string(time) << ";"; }
  void starting(const std::unordered_set<atom *> &atms) override
  {
    log << "starting" << names(atms) << ";";
    for (const auto &st : steps)
      if (st.kind == "ds" && st.k == tick_no)
        for (const auto &a : atms)
          if (label(a) == st.name)
          {
            log << "dont_start " << st.name << " " << to_string(st.amount) << ";";
            exec.dont_start_yet({{a, st.amount}});
          }
  }
  void solution_found() override
  { // the plan as it is after every (re)planning, the executor has already rebuilt its timelines
    if (armed)
    {
      log << "replan;";
      plan();
    }
  }
  std::string timed(const std::unordered_set<atom *> &atms, bool at_end)
  {
    std::vector<std::string> ls;
    for (const auto &a : atms)
    {
      arith_expr x = slv.is_impulse(*a) ? a->get(RATIO_AT) : (at_end ? a->get(RATIO_END) : a->get(RATIO_START));
      ls.push_back(label(a) + "@" + show_t(slv.arith_value(x)));
    }
    std::sort(ls.begin(), ls.end());
    std::string r;
    for (const auto &l : ls)
      r += " " + l;
    return r;
  }
  void start(const std::unordered_set<atom *> &atms) override { log << "start" << timed(atms, false) << ";"; }
  void ending(const std::unordered_set<atom *> &atms) override
  {
    log << "ending" << names(atms) << ";";
    for (const auto &st : steps)
      if (st.kind == "de" && st.k == tick_no)
        for (const auto &a : atms)
          if (label(a) == st.name)
          {
            log << "dont_end " << st.name << " " << to_string(st.amount) << ";";
            exec.dont_end_yet({{a, st.amount}});
          }
  }
  void end(const std::unordered_set<atom *> &atms) override { log << "end" << timed(atms, true) << ";"; }

  executor &exec;
  solver &slv;
  std::ostringstream &log;
  std::map<const atom *, std::string> labels;
};

int main(int argc, char *argv[])
{
  std::ios::sync_with_stdio(false);
  std::signal(SIGALRM, on_alarm);
  const unsigned limit = argc > 1 ? std::stoi(argv[1]) : 20;
  std::string line;
  while (std::getline(std::cin, line))
  {
    std::cout.flush();
    std::istringstream is(line);
    std::string op, h, upt, script;
    is >> op >> h >> upt >> script;
    if (op != "exec")
    {
      std::cout << "exception:bad-op\n";
      continue;
    }
    alarm(limit);
    std::ostringstream log;
    try
    {
      solver *s = new solver(); // deliberately leaked: a failed history must not run destructors on a broken state
      executor *e = new executor(*s, parse_q(upt));
      recorder *r = new recorder(*e, *s, log);
      std::istringstream ss(script);
      std::string tok;
      while (std::getline(ss, tok, ','))
      {
        std::vector<std::string> f;
        std::istringstream ts(tok);
        std::string x;
        while (std::getline(ts, x, ':'))
          f.push_back(x);
        step st;
        st.kind = f[0];
        if ((st.kind == "ds" || st.kind == "de") && f.size() == 4)
        {
          st.k = std::stoul(f[1]);
          st.name = f[2];
          st.amount = parse_q(f[3]);
        }
        else if ((st.kind == "ps" || st.kind == "pe") && f.size() == 3)
        {
          st.name = f[1];
          st.amount = parse_q(f[2]);
        }
        else if (st.kind == "f" && f.size() == 2)
          st.name = f[1];
        r->steps.push_back(st);
      }
      try
      {
        s->read(unhex(h));
        if (!s->solve())
          log << "unsolvable;";
        else
        {
          r->name_atoms();
          r->armed = true;
          {
            // what any client of an executor build does with a solution: serialise it (items without a name included)
            std::ostringstream discard;
            discard << *s;
          }
          log << "solved;";
          r->plan();
          for (const auto &st : r->steps)
          {
            if (st.kind == "t")
            {
              r->tick_no++;
              e->tick();
              r->plan();
            }
            else if (st.kind == "ps" || st.kind == "pe")
            {
              const atom *at = r->find_atom(st.name);
              if (!at)
                continue;
              log << (st.kind == "ps" ? "pre_dont_start " : "pre_dont_end ") << st.name << " " << to_string(st.amount) << ";";
              if (st.kind == "ps")
                e->dont_start_yet({{at, st.amount}});
              else
                e->dont_end_yet({{at, st.amount}});
            }
            else if (st.kind == "f")
            {
              const atom *at = r->find_atom(st.name);
              if (!at)
                continue;
              log << "failure " << st.name << ";";
              e->failure({const_cast<atom *>(at)});
              r->plan();
            }
          }
        }
      }
      catch (const std::exception &ex)
      {
        std::string w = ex.what();
        for (auto &c : w)
          if (c == '\n' || c == '\r' || c == ';')
            c = ' ';
        log << "exception:" << w << ";";
      }
    }
    catch (const std::exception &ex)
    {
      log << "exception:" << ex.what() << ";";
    }
    alarm(0);
    std::cout << log.str() << "\n";
  }
  return 0;
}
