// Correspondence harness for the constraint network with its theories attached (properties C10, C12, C08):
// sat_core + lra_theory + ov_theory + idl_theory + rdl_theory, constructed in the order of core::core().
#include "enc_ops.h"

using namespace smt;
using oratio_verif::access;
using oratio_verif::lit_str;

static std::string learnt;
static void on_record(void *, const std::vector<lit> &lits)
{
  learnt += " L[";
  for (size_t i = 0; i < lits.size(); ++i)
    learnt += (i ? " " : "") + lit_str(lits[i]);
  learnt += "]";
}

// a theory with no constraints of its own: lets a history report a conflict found outside propagation
// (what the executor does through theory::backtrack_analyze_and_backjump)
struct bj_theory : public theory
{
  bj_theory(sat_core &s) : theory(s) {}
  bool go(const std::vector<lit> &c)
  {
    cnfl = c;
    const bool r = backtrack_analyze_and_backjump();
    cnfl.clear();
    return r;
  }

private:
  bool propagate(const lit &) noexcept override { return true; }
  bool check() noexcept override { return true; }
  void push() noexcept override {}
  void pop() noexcept override {}
};

struct world
{
  sat_core sat;
  lra_theory lra;
  ov_theory ov;
  idl_theory idl;
  rdl_theory rdl;
  bj_theory bj;
  std::vector<lit> rets; // the literals returned by the lra.<relation> requests: `$k` / `!$k` in later operations
  world() : lra(sat), ov(sat), idl(sat), rdl(sat), bj(sat) { sat.verif_record = on_record; }
};

static bool is_rel_op(const std::string &op) { return op == "lra.lt" || op == "lra.leq" || op == "lra.eq" || op == "lra.geq" || op == "lra.gt"; }

// replaces the `$k` / `!$k` tokens by the k-th returned literal / its negation, the `?j` / `!?j` tokens by the positive /
// negative literal of the (j mod u)-th of the u currently unassigned SAT variables (ascending), and the `^j` tokens by the
// LRA variable n-1-j (n = current number of LRA variables: `^0` is the newest)
static void resolve_refs(const world &w, hv::toks &t)
{
  for (auto &tk : t.t)
  {
    const bool neg = tk.rfind("!$", 0) == 0, pos = tk.rfind("$", 0) == 0, rel = tk.rfind("^", 0) == 0;
    const bool upos = tk.rfind("?", 0) == 0, uneg = tk.rfind("!?", 0) == 0;
    if (!neg && !pos && !rel && !upos && !uneg)
      continue;
    const std::string num = tk.substr((neg || uneg) ? 2 : 1);
    if (num.empty() || num.find_first_not_of("0123456789") != std::string::npos)
      throw std::runtime_error("bad-op");
    const size_t k = std::stoul(num);
    if (rel)
    {
      if (k >= access::lra_nvars(w.lra))
        throw std::runtime_error("bad-op");
      tk = std::to_string(access::lra_nvars(w.lra) - 1 - k);
    }
    else if (upos || uneg)
    {
      std::vector<var> un;
      const auto &as = access::assigns(w.sat);
      for (size_t v = 0; v < as.size(); ++v)
        if (as[v] == Undefined)
          un.push_back(v);
      if (un.empty())
        throw std::runtime_error("bad-op");
      tk = lit_str(lit(un[k % un.size()], upos));
    }
    else
    {
      if (k >= w.rets.size())
        throw std::runtime_error("bad-op");
      tk = lit_str(neg ? !w.rets[k] : w.rets[k]);
    }
  }
}

template <typename T>
static void check_lin(const T &th, const lin &l)
{
  for (const auto &[v, c] : l.vars)
    if (v >= th.size())
      throw std::runtime_error("bad-op");
}

static std::string show_pair(const std::pair<I, I> &p) { return access::dl_val(p.first) + " " + access::dl_val(p.second); }
static std::string show_pair(const std::pair<inf_rational, inf_rational> &p) { return access::dl_val(p.first) + " " + access::dl_val(p.second); }

template <typename T, typename D>
static bool dl_exec(world &w, T &th, const std::string &op, hv::toks &t, std::string &res, D (*parse_dist)(hv::toks &))
{
  if (op == "nv")
    res = std::to_string(th.new_var());
  else if (op == "dist")
  {
    const size_t f = t.integer(), to = t.integer();
    if (f >= th.size() || to >= th.size() || !w.sat.root_level())
      throw std::runtime_error("bad-op");
    res = lit_str(th.new_distance(f, to, parse_dist(t)));
  }
  else if (op == "rel")
  {
    const std::string r = t.next();
    lin a = t.linexp(), b = t.linexp();
    check_lin(th, a);
    check_lin(th, b);
    if (!w.sat.root_level())
      throw std::runtime_error("bad-op");
    try
    {
      res = lit_str(r == "lt" ? th.new_lt(a, b) : r == "leq" ? th.new_leq(a, b) : r == "eq" ? th.new_eq(a, b) : r == "geq" ? th.new_geq(a, b) : th.new_gt(a, b));
    }
    catch (const std::invalid_argument &)
    {
      res = "invalid";
    }
  }
  else if (op == "bounds")
  {
    lin a = t.linexp();
    check_lin(th, a);
    try
    {
      res = show_pair(th.bounds(a));
    }
    catch (const std::invalid_argument &)
    {
      res = "invalid";
    }
  }
  else if (op == "distance")
  {
    lin a = t.linexp(), b = t.linexp();
    check_lin(th, a);
    check_lin(th, b);
    try
    {
      res = show_pair(th.distance(a, b));
    }
    catch (const std::invalid_argument &)
    {
      res = "invalid";
    }
  }
  else if (op == "equates")
  {
    lin a = t.linexp(), b = t.linexp();
    check_lin(th, a);
    check_lin(th, b);
    try
    {
      res = hv::show(th.equates(a, b));
    }
    catch (const std::invalid_argument &)
    {
      res = "invalid";
    }
  }
  else if (op == "vdist")
  {
    const size_t f = t.integer(), to = t.integer();
    if (f >= th.size() || to >= th.size())
      throw std::runtime_error("bad-op");
    res = show_pair(th.distance(f, to));
  }
  else
    return false;
  return true;
}

// coefficients and constants must be finite, coefficients non-zero, variables existing
static void check_lra_lin(const lra_theory &th, const lin &l)
{
  for (const auto &[v, c] : l.vars)
    if (v >= access::lra_nvars(th) || c.denominator() == 0 || c.numerator() == 0)
      throw std::runtime_error("bad-op");
  if (l.known_term.denominator() == 0)
    throw std::runtime_error("bad-op");
}

static std::pair<lin, lin> lin_pair(hv::toks &t)
{
  lin a = t.linexp();
  if (!t.done() && t.t[t.i] == ";")
    t.i++;
  lin b = t.linexp();
  return {a, b};
}

static bool lra_exec(world &w, const std::string &op, hv::toks &t, std::string &res)
{
  lra_theory &th = w.lra;
  if (op == "nv")
  {
    if (!t.done() || !w.sat.root_level())
      throw std::runtime_error("bad-op");
    res = std::to_string(th.new_var());
  }
  else if (op == "nvl" || op == "nvlraw")
  {
    lin a = t.linexp();
    check_lra_lin(th, a);
    if (a.vars.empty() || !w.sat.root_level())
      res = "pre";
    else
      res = std::to_string(th.new_var(a));
  }
  else if (op == "lt" || op == "leq" || op == "geq" || op == "gt" || op == "eq")
  {
    auto [a, b] = lin_pair(t);
    check_lra_lin(th, a);
    check_lra_lin(th, b);
    if (!w.sat.root_level())
      res = "pre";
    else
      res = lit_str(op == "lt" ? th.new_lt(a, b) : op == "leq" ? th.new_leq(a, b) : op == "eq" ? th.new_eq(a, b) : op == "geq" ? th.new_geq(a, b) : th.new_gt(a, b));
  }
  else if (op == "val")
  {
    lin a = t.linexp();
    check_lra_lin(th, a);
    res = hv::show(th.value(a));
  }
  else if (op == "bounds")
  {
    lin a = t.linexp();
    check_lra_lin(th, a);
    const auto b = th.bounds(a);
    res = hv::show(b.first) + " " + hv::show(b.second) + " " + hv::show(th.lb(a)) + " " + hv::show(th.ub(a));
  }
  else if (op == "eqs")
  {
    auto [a, b] = lin_pair(t);
    check_lra_lin(th, a);
    check_lra_lin(th, b);
    res = hv::show(th.equates(a, b));
  }
  else if (op == "setlb" || op == "setub" || op == "set")
  {
    const size_t x = t.integer();
    const inf_rational v = t.irat();
    const lit p = hv::parse_lit(t.next());
    if (x >= access::lra_nvars(th) || variable(p) >= access::nvars(w.sat) || v.get_rational().denominator() == 0 || v.get_infinitesimal().denominator() == 0)
      throw std::runtime_error("bad-op");
    // the reason must hold and belong to the current decision level (a conflict it takes part in is analysed there)
    if (w.sat.value(p) != True || access::queue_size(w.sat) != 0 || access::level(w.sat)[variable(p)] != access::trail_lim(w.sat).size())
      res = "pre";
    else
    {
      const bool ok = op == "setlb" ? th.set_lb(x, v, p) : op == "setub" ? th.set_ub(x, v, p) : th.set(x, v, p);
      if (ok)
        res = "T";
      else
      {
        res = "F C[";
        const auto c = access::lra_cnfl(th);
        for (size_t i = 0; i < c.size(); ++i)
          res += (i ? " " : "") + lit_str(c[i]);
        res += "]";
      }
    }
  }
  else
    return false;
  return true;
}

static I parse_i(hv::toks &t) { return t.integer(); }
static inf_rational parse_ir(hv::toks &t) { return t.irat(); }

int main()
{
  std::ios::sync_with_stdio(false);
  std::unique_ptr<world> w;
  bool w_dead = false; // the current network reported an inconsistency (or a theory call failed): it is not destroyed
  (void)w_dead;
  std::string line;
  while (std::getline(std::cin, line))
  {
    hv::toks t(line);
    if (t.done())
    {
      std::cout << "\n";
      continue;
    }
    std::string res;
    learnt.clear();
    try
    {
      const std::string op = t.next();
      if (op == "case")
      {
#ifdef PARALLELIZE
        // every network owns a pool of worker threads, so here the networks are destroyed (thousands of leaked pools
        // exhaust the threads a process may have, and thread_pool's constructor then hangs in ~condition_variable)
        w.reset();
        w_dead = false;
#else
        w.release(); // never destroyed (see sat.cpp)
#endif
        w.reset(new world());
        std::cout << line << "\n";
        continue;
      }
      if (!w)
        throw std::runtime_error("bad-op");
      sat_core &sat = w->sat;
      resolve_refs(*w, t);
      if (op.rfind("idl.", 0) == 0)
      {
        if (!dl_exec(*w, w->idl, op.substr(4), t, res, parse_i))
          throw std::runtime_error("bad-op");
      }
      else if (op.rfind("rdl.", 0) == 0)
      {
        if (!dl_exec(*w, w->rdl, op.substr(4), t, res, parse_ir))
          throw std::runtime_error("bad-op");
      }
      else if (op.rfind("lra.", 0) == 0)
      {
        if (!lra_exec(*w, op.substr(4), t, res))
          throw std::runtime_error("bad-op");
        if (is_rel_op(op) && (res[0] == '+' || res[0] == '-'))
          w->rets.push_back(hv::parse_lit(res));
      }
      else if (op == "assume")
      {
        const lit p = hv::parse_lit(t.next());
        hv::check_lits(sat, {p});
        if (access::queue_size(sat) != 0)
          res = "queue";
        else if (sat.value(p) != Undefined)
          res = "defined";
        else
          res = hv::show(sat.assume(p));
      }
      else if (op == "pop")
      {
        if (sat.root_level())
          res = "root";
        else
        {
          sat.pop();
          res = "ok";
        }
      }
      else if (op == "next")
      {
        if (access::queue_size(sat) != 0)
          res = "queue";
        else
          res = hv::show(sat.next());
      }
      else if (op == "bj")
      {
        const long k = t.integer();
        const auto &tr = access::trail(sat);
        if (access::queue_size(sat) != 0 || k < 1 || static_cast<size_t>(k) > tr.size())
          res = "pre";
        else
        {
          std::vector<lit> c;
          for (long j = 0; j < k; ++j)
            c.push_back(!tr[tr.size() - 1 - j]);
          res = hv::show(w->bj.go(c));
        }
      }
      else if (op == "check")
      {
        auto ls = hv::rest_lits(t);
        hv::check_lits(sat, ls);
        bool ok = access::queue_size(sat) == 0;
        for (const auto &l : ls)
          ok = ok && sat.value(l) == Undefined;
        for (size_t i = 0; i < ls.size(); ++i)
          for (size_t j = i + 1; j < ls.size(); ++j)
            ok = ok && variable(ls[i]) != variable(ls[j]);
        res = ok ? hv::show(sat.check(ls)) : "pre";
      }
      else if (op == "v" || op == "prop")
      {
        if (!hv::enc_exec(sat, op, t, res))
          throw std::runtime_error("bad-op");
      }
      else
      {
        if (!sat.root_level())
          res = "notroot";
        else if (!hv::enc_exec(sat, op, t, res))
          throw std::runtime_error("bad-op");
      }
      if (res == "F" || res.rfind("F ", 0) == 0 || res.rfind("exception", 0) == 0)
        w_dead = true;
      res += learnt + " | " + access::vals_str(sat) + " | " + access::search_str(sat) + " | idl " + access::dl_str(w->idl) + " | rdl " + access::dl_str(w->rdl);
      if (access::lra_nvars(w->lra) > 0)
        res += " | lra " + access::lra_str(w->lra);
    }
    catch (const std::exception &e)
    {
      res = std::string("exception:") + e.what();
      w_dead = true;
    }
    std::cout << res << "\n";
  }
  return 0;
}
