// Correspondence harness for the constraint network with its theories attached (properties C10, C12, C08):
// sat_core + lra_theory + ov_theory + idl_theory + rdl_theory, constructed in the order of core::core().
#include "enc_ops.h"

using namespace smt;
using oratio_verif::access;
using oratio_verif::lit_str;

static std::string learnt;
static void on_record(void *, const std::vector<lit> &lits)
{
  learnt += " L[";
  for (size_t i = 0; i < lits.size(); ++i)
    learnt += (i ? " " : "") + lit_str(lits[i]);
  learnt += "]";
}

struct world
{
  sat_core sat;
  lra_theory lra;
  ov_theory ov;
  idl_theory idl;
  rdl_theory rdl;
  world() : lra(sat), ov(sat), idl(sat), rdl(sat) { sat.verif_record = on_record; }
};

template <typename T>
static void check_lin(const T &th, const lin &l)
{
  for (const auto &[v, c] : l.vars)
    if (v >= th.size())
      throw std::runtime_error("bad-op");
}

static std::string show_pair(const std::pair<I, I> &p) { return access::dl_val(p.first) + " " + access::dl_val(p.second); }
static std::string show_pair(const std::pair<inf_rational, inf_rational> &p) { return access::dl_val(p.first) + " " + access::dl_val(p.second); }

template <typename T, typename D>
static bool dl_exec(world &w, T &th, const std::string &op, hv::toks &t, std::string &res, D (*parse_dist)(hv::toks &))
{
  if (op == "nv")
    res = std::to_string(th.new_var());
  else if (op == "dist")
  {
    const size_t f = t.integer(), to = t.integer();
    if (f >= th.size() || to >= th.size() || !w.sat.root_level())
      throw std::runtime_error("bad-op");
    res = lit_str(th.new_distance(f, to, parse_dist(t)));
  }
  else if (op == "rel")
  {
    const std::string r = t.next();
    lin a = t.linexp(), b = t.linexp();
    check_lin(th, a);
    check_lin(th, b);
    if (!w.sat.root_level())
      throw std::runtime_error("bad-op");
    try
    {
      res = lit_str(r == "lt" ? th.new_lt(a, b) : r == "leq" ? th.new_leq(a, b) : r == "eq" ? th.new_eq(a, b) : r == "geq" ? th.new_geq(a, b) : th.new_gt(a, b));
    }
    catch (const std::invalid_argument &)
    {
      res = "invalid";
    }
  }
  else if (op == "bounds")
  {
    lin a = t.linexp();
    check_lin(th, a);
    try
    {
      res = show_pair(th.bounds(a));
    }
    catch (const std::invalid_argument &)
    {
      res = "invalid";
    }
  }
  else if (op == "distance")
  {
    lin a = t.linexp(), b = t.linexp();
    check_lin(th, a);
    check_lin(th, b);
    try
    {
      res = show_pair(th.distance(a, b));
    }
    catch (const std::invalid_argument &)
    {
      res = "invalid";
    }
  }
  else if (op == "equates")
  {
    lin a = t.linexp(), b = t.linexp();
    check_lin(th, a);
    check_lin(th, b);
    try
    {
      res = hv::show(th.equates(a, b));
    }
    catch (const std::invalid_argument &)
    {
      res = "invalid";
    }
  }
  else if (op == "vdist")
  {
    const size_t f = t.integer(), to = t.integer();
    if (f >= th.size() || to >= th.size())
      throw std::runtime_error("bad-op");
    res = show_pair(th.distance(f, to));
  }
  else
    return false;
  return true;
}

static I parse_i(hv::toks &t) { return t.integer(); }
static inf_rational parse_ir(hv::toks &t) { return t.irat(); }

int main()
{
  std::ios::sync_with_stdio(false);
  std::unique_ptr<world> w;
  std::string line;
  while (std::getline(std::cin, line))
  {
    hv::toks t(line);
    if (t.done())
    {
      std::cout << "\n";
      continue;
    }
    std::string res;
    learnt.clear();
    try
    {
      const std::string op = t.next();
      if (op == "case")
      {
        w.release(); // never destroyed (see sat.cpp)
        w.reset(new world());
        std::cout << line << "\n";
        continue;
      }
      if (!w)
        throw std::runtime_error("bad-op");
      sat_core &sat = w->sat;
      if (op.rfind("idl.", 0) == 0)
      {
        if (!dl_exec(*w, w->idl, op.substr(4), t, res, parse_i))
          throw std::runtime_error("bad-op");
      }
      else if (op.rfind("rdl.", 0) == 0)
      {
        if (!dl_exec(*w, w->rdl, op.substr(4), t, res, parse_ir))
          throw std::runtime_error("bad-op");
      }
      else if (op == "assume")
      {
        const lit p = hv::parse_lit(t.next());
        hv::check_lits(sat, {p});
        if (access::queue_size(sat) != 0)
          res = "queue";
        else if (sat.value(p) != Undefined)
          res = "defined";
        else
          res = hv::show(sat.assume(p));
      }
      else if (op == "pop")
      {
        if (sat.root_level())
          res = "root";
        else
        {
          sat.pop();
          res = "ok";
        }
      }
      else if (op == "next")
      {
        if (access::queue_size(sat) != 0)
          res = "queue";
        else
          res = hv::show(sat.next());
      }
      else if (op == "check")
      {
        auto ls = hv::rest_lits(t);
        hv::check_lits(sat, ls);
        bool ok = access::queue_size(sat) == 0;
        for (const auto &l : ls)
          ok = ok && sat.value(l) == Undefined;
        for (size_t i = 0; i < ls.size(); ++i)
          for (size_t j = i + 1; j < ls.size(); ++j)
            ok = ok && variable(ls[i]) != variable(ls[j]);
        res = ok ? hv::show(sat.check(ls)) : "pre";
      }
      else if (op == "v" || op == "prop")
      {
        if (!hv::enc_exec(sat, op, t, res))
          throw std::runtime_error("bad-op");
      }
      else
      {
        if (!sat.root_level())
          res = "notroot";
        else if (!hv::enc_exec(sat, op, t, res))
          throw std::runtime_error("bad-op");
      }
      res += learnt + " | " + access::vals_str(sat) + " | " + access::search_str(sat) + " | idl " + access::dl_str(w->idl) + " | rdl " + access::dl_str(w->rdl);
    }
    catch (const std::exception &e)
    {
      res = std::string("exception:") + e.what();
    }
    std::cout << res << "\n";
  }
  return 0;
}
